# C20 -- Mobile Allocation decoding selects exactly the flagged cell channels.
#
# gsm48_decode_mobile_alloc() is analysed on a *function slice*: the current
# definition is cut out of sysinfo.c, wrapped in a generated prelude
# (declarations only, values read from the real sysinfo.h) and parsed by
# clang.  Everything is decided on the statement CFG: guard atoms
# (edge-dominators), reaching definitions of the counters, counted-loop
# recognition, and folding of index expressions over the *finite* domain
# (len in 0..255 restricted by the guard atoms) x (loop range).  Nothing is
# compiled to code or run.  A bound computed from the bitmap (highest set
# bit) is evaluated per case of an exhaustive split and joins that domain
# (Dec.derive); the decoder is also interpreted on boundary witnesses against
# the reference decoding (C20.R8), which decides when a shape is not recognised.

import copy
import operator
import os
import re
import shutil
import tempfile

from report import AnalysisError, STAGE_FAILED
from cfront import (TU, CCFG, kids, kind, strip, walk, ctext, CLower, SKIP,
                    array_extent, strip_comments, slice_function)
import exprnf as X

EXPLANATION = (
    "Function-slice analysis of gsm48_decode_mobile_alloc (real body, generated declarations): guard atoms "
    "(edge-dominating branch literals) restrict the uint8_t length to a finite set at every statement; counted "
    "loops are recognised from reaching definitions and single increments; every array index is then either "
    "folded over the finite domain (length x loop range) or proven by a dominating `index < extent` guard / the "
    "exit-on-equality counter rule with a proof that the extent is >= 1. The bit numbering, the candidate ARFCN "
    "sequence (1..1023,0) and the FREQ_TYPE_SERV filter are compared by folding the lowered index terms over the "
    "whole domain, so the verdict covers every bitmap, every length and every cell allocation. Caller buffers "
    "are resolved by a C lexer over sysinfo.c / gsm48_rr.c / sysinfo.h; trxcon's trx_if_cmd_setfh is checked on "
    "its clang AST (snprintf size tracking, empty allocation rejected). Array extents and guard bounds written as "
    "macros are folded after token-level macro expansion (the slice hands the macros of sysinfo.h to clang verbatim), "
    "so an early exit on the output counter is decided by comparing its folded threshold with the number of walked "
    "bits. The callers (gsm48_decode_sysinfo4, gsm48_rr_render_ma) are sliced too, behind synthesised declarations: "
    "the guard atoms dominating each call are folded over the finite box (remaining octets x length octet) and must "
    "imply that the bitmap handed to the decoder lies inside the received message / the LV buffer. "
    "The decision does not depend on how the decoder is cut into functions or temporaries: a helper of sysinfo.c that the "
    "decoder calls as a statement of its own is put into the slice and its body replaces the call on the clang AST (exact: "
    "parameters never written stand for their side-effect-free arguments, locals renamed apart, single trailing return "
    "becomes the assignment of the result; C20.R0 records it), so the same rules decide the combined body; a local that "
    "is a frozen copy (single definition dominating all uses, its sources not written afterwards) is replaced by its "
    "source, and a tested temporary is replaced by the value it holds when nothing that value depends on is written "
    "between its definition and the test. A condition or bound the rules cannot read (opaque memory, unrelatable local) "
    "gives no verdict instead of an alarm. "
    "A counted loop may contain forward jumps of its variable (`i |= 7; continue;`): recognised when nothing but the loop's "
    "own +1 follows the jump in that iteration and f(x) >= x over the whole loop range; statements then still see values inside "
    "the range, and for the bitmap walk C20.R4 decides by exhaustive folding (every accepted length x every bit index x every "
    "value of the octets the guards of the jump read) that the bit of every index left out is clear -- a jump that can leave "
    "out a set bit is reported with the bitmap that shows it. When several conditions over the bitmap dominate the output store "
    "(`rest != 0` and `rest & 1`), or one in a shape that is not `octet & (1 << k)`, what they test together is decided the same "
    "way: they must hold exactly when bit i&7 of octet len-1-(i>>3) is set. In trx_if_cmd_setfh the proof that a pair precedes "
    "the terminator store does not depend on how the allocation is walked (index, pointer): the loop condition is taken at loop "
    "entry (locals replaced by their unique reaching definitions) and must be a linear comparison in the allocation length that "
    "holds for every length >= 1. "
    "A decoder that collects the bitmap octets into one wider integer (in the decoder or in an inline helper of sysinfo.h, which is "
    "put into the slice like a helper of sysinfo.c) and tests that word is decided by C20.R7: the statements in front of the walk are "
    "executed for every accepted length and the conditions in front of the output store are evaluated for every bit index on the "
    "clang AST, in the integer types clang resolved (each promotion / conversion is an explicit cast node): a value is a vector of "
    "bits, each 0, 1, unknown or the OR of a set of bitmap bits, moved exactly by shifts with known counts, masks, truncation, "
    "zero- and sign-extension. The conditions must be true exactly when bit i&7 of octet len-1-(i>>3) is set -- decided on the bit "
    "sets, for all bitmap contents at once -- and no shift on the way may reach the width of its promoted left operand "
    "(`bits & (1 << i)` with a 32 bit `1`: sign-extended mask for i = 31, undefined for i >= 32). "
    "A loop bound or index guard that is not a function of the length but is computed from the bitmap in front of the loops (the index of "
    "the highest set bit + 1, so that list and walk stop there) is evaluated, not pattern-matched: the statements in front are executed "
    "in the typed word model for every accepted length and every case of the exhaustive split of the bitmaps by their highest set bit "
    "(none / bit p set, higher ones clear, lower ones symbolic); a local that has a definite value in every case joins the finite domain "
    "(length x value x loop range) at the statements where it holds its final value, and C20.R4 demands per case that the walk's bound "
    "lies above the highest set bit and not above 8*len -- every index left out is clear. C20.R4 also relates the number of entries at "
    "which the cell-allocation list is closed (bound on the fill counter in the loop test, exit once it reaches a threshold) to the number "
    "of walked bits: capacity >= walked bits for every length (and case), else a set bit ends decoding although its channel exists. With a "
    "bound that varies with the bitmap the rules do not know which (length, value) pairs reach which statement, so there a failing "
    "obligation is a proof that did not close, not a counterexample: it is kept back like a shape that cannot be classified. "
    "C20.R8 folds the decoder on boundary witnesses: the clang AST (helpers inlined; calls that could not be inlined are followed) is "
    "interpreted by the rule module -- integers in the types clang resolved, every array and out-parameter an object of its extent, "
    "unset locals indeterminate -- for every length 0..8 x {empty, full, highest set bit at every position, mixed lower bits} against a "
    "64 channel cell allocation, the full and two mixed bitmaps per length against cell allocations of 0, 1, 3, 9 and 64 channels with and "
    "without ARFCN 0, and lengths 9..255; return code, hopping list and frequency table are compared with the reference decoding "
    "(ascending ARFCN, 0 last; octet len-1-(i>>3), bit i&7; a set bit beyond the cell allocation ends decoding). A difference, an access "
    "outside an object, an indeterminate index or an undefined shift is a violation with the witness as counterexample; it also decides "
    "in place of a structural rule that met a shape it cannot classify (helper with two returns or an out-parameter, loop-carried word, "
    "pointer walk): agreement on every witness ends the run silently with the structural proof recorded as open; when the fold meets "
    "something it does not model (an external call, goto) nothing is decided and the ANALYSIS-ERROR stands. "
    "Two rules look at the way the list travels. C20.R9 (event order at the caller): the state gsm48_decode_sysinfo4 tests in front of "
    "its decoder call (`s->si1`, taken from the guard atoms dominating the call) must be established when the function that sets it "
    "re-runs the parser for the stored SI4 -- reaching stores of that member at the re-run, folded against the guard's term; with no store "
    "reaching the call the Mobile Allocation of an SI4 that came first is never decoded. C20.R10 (carriage downstream): for the constants "
    "of the SETFH call site the size passed to vsnprintf in trx_ctrl_cmd and the longest parameter text (digits by argument type, the "
    "text buffer by the bound C20.R5 proves) are folded; either the text always fits, or every truncating result rc in size..longest is "
    "led to a negative return by the conditions behind the call (evaluated for each value, three-valued, conversions at the cast nodes). "
    "Two more rules follow the list at the decoder's callers. C20.R11 (the buffer the decoder reads): where a call site hands the decoder a struct "
    "member in LV form (`cd->mob_alloc_lv + 1`, `cd->mob_alloc_lv[0]`, resolved on the caller's clang AST), every memcpy / memmove that fills that "
    "member (the functions are found by the lexer, sliced and parsed like the callers; file-scope objects they name are declared opaquely from "
    "clang's own diagnostics) is decided: its size, lowered to a term with tested temporaries resolved, must be a function of the source LV's "
    "length octet alone and is folded for every length 1..8 that the dominating guard atoms admit (atoms that relate the octet to other values are "
    "folded existentially over a finite box); size >= 1 + L, else the last bitmap octet -- bit indexes 0..7, the first cell-allocation channels -- "
    "is decoded from stale buffer contents. C20.R12 (the return value): the witness fold yields the decoder's actual results (refusal, empty list, "
    "non-empty list, with the value returned for each); at every call site the conditions over the result (discarded, tested in place, or held in "
    "a local whose reaching definition is the call) are decided per result and prune the caller's CFG. A caller that decodes into its own locals "
    "must keep a statement reading them reachable for every non-empty result, and no caller may handle a non-empty result exactly like a refusal "
    "(same reachable readers of the output objects, same returns) while another decoded result is handled differently; a condition that cannot be "
    "decided keeps both ways, which can only hide a violation, never make one. C20.R13 (list and channel description travel together): the "
    "renderers are resolved from the call graph of gsm48_rr.c; in each of their callers every call that is handed the rendered local list with a "
    "channel description must be reached (reaching definitions of list and length on the statement CFG) only by render calls for that description. "
    "C20.R9 also walks the SI4 parser's CFG with the conditions it tests before its first write evaluated (three-valued) for the arguments of each "
    "re-run by gsm48_decode_sysinfo1 -- pointer identity and memcmp over resolved objects -- and demands that the decoder call stays reachable. "
    "C20.R14 (the received bitmap is the rendered one): a handler of gsm48_rr.c that stores a Mobile Allocation LV into a description and renders "
    "afterwards must render that description (or an object the octets were copied on to). C20.R15 (order at the consumer): in trx_if_cmd_setfh the "
    "values of pair k are traced to the element address they are read from, an affine function of one walker that is folded to `entry k`; a local "
    "buffer in between must be a whole copy, a sort on it is decided by interpreting its comparator over the ARFCN pairs in TS 44.018 order. "
    "C20.R16 (band conversion behind the decoder): the loop of the renderer that stores back into the decoded list is walked for one "
    "iteration on the statement CFG for every entry 0..1023 x gsm_refer_pcs() in {0, 1}; the entry handed on must be the channel "
    "gsm_arfcn_refer_pcs() of sysinfo.c gives (ARFCN_PCS exactly on the range shared with DCS 1800 in a PCS cell), that range "
    "cross-checked against arfcn2index() of gsm322.c. C20.R11 also decides room: the size of every copy into the LV member, folded over the "
    "values 0..255 of the source's length octet that the dominating guards admit, stays within the declared extent of the member (9). "
    "C20.R17 (own cell allocation): a Cell Channel Description of the same channel description decoded on a path to the decoder call must be "
    "decoded into the object the decoder's first argument designates (objects resolved by scope through clang's declaration ids).")
ASSUMPTIONS = [
    "clang 14 parses the sliced function exactly as the layer23 build would (prelude models only declarations: stdint.h, EINVAL sign, struct gsm_sysinfo_freq {uint8_t mask;}, FREQ_TYPE_* values and array extents read from sysinfo.h, LOGP reduced to the evaluation of its value arguments)",
    "int is 32 bit: no counter in the function exceeds 2040, so machine arithmetic coincides with integer arithmetic",
    "the out-parameters do not alias: hopp_len does not point into freq[], hopping[] or the bitmap",
    "message parsers that call the decoder: their length parameter is the number of octets readable at the message pointer and the message struct is packed (sizeof(*msg) is the offset of its trailing data[]), so `remaining` starts as the exact count of octets at the cursor (C20.R6 checks the initialisation shape, the paired advances and the guards)",
    "the callers are parsed as function slices behind synthesised declarations (K&R prototypes for callees, `extern const int` for upper-case constants, structs reduced to the members used, real scalar types where the struct is found in the tree); only literals, the function's own locals and guards over them are interpreted; upper-case function-like macros (OSMO_MIN, LOGP) neither change control flow nor assign to locals; callees do not modify the received message between a guard and the call",
    "snprintf returns the untruncated length (C99) and never writes more than its size argument",
    "the bitmap is not modified while it is decoded (const parameter, no store through it, out-parameters do not alias it), so a condition on an octet tested before a forward jump of the walk still holds for the indices the jump leaves out",
    "trx_if_cmd_setfh: cmdp->ma points to an array of cmdp->ma_len elements, so `cmdp->ma + cmdp->ma_len` is a valid one-past-the-end pointer and differs from cmdp->ma exactly when the length is not 0; the length counts array elements, so linear arithmetic on it does not wrap",
    "a function the decoder calls that has a definition in sysinfo.c -- or, when sysinfo.c includes sysinfo.h, an (inline) definition there -- is that definition (no other translation unit overrides it); integer conversions at its parameters / result are value preserving unless they narrow to a type smaller than int (then the call is not inlined)",
    "bitmap-derived bounds: the split of the v-octet bitmaps into 'no bit set' and 'bit p is the highest set bit' (p = 0 .. 8v-1) is exhaustive; within a case the bits below p are symbolic, so a local that evaluates to a concrete value in a case has that value for every bitmap of the case; it stands for that value only at statements from which none of its writes can be reached",
    "C20.R8 (witness fold): the interpreter in this module implements the C semantics of the constructs it accepts (integer conversions and arithmetic wrap in the widths of the parse target, signed >> is arithmetic, pointers are (object, offset) pairs that never leave their object unnoticed, a scalar whose address is taken is a one-element object, an unset object holds an indeterminate value that may be copied but not compared, branched on or used as an index); LOGP evaluates its value arguments and does nothing else; agreement on the witnesses is evidence for a decoder whose shape the structural rules do not recognise, not a proof for all inputs (the evidence records the structural proof as open)",
    "C20.R11 (LV copies): every struct gsm48_rr_cd whose mob_alloc_lv is filled by a copy is rendered by gsm48_rr_render_ma afterwards (cd_now, cd_before, cd_after are), and the member does not already hold the bitmap that is copied; octet 0 of the source is the length of the LV that was received; nothing between a guard on that octet and the copy changes the source (callees, logging macros); a member reached through a synthesised inner struct (`rr->cd_now.mob_alloc_lv`) is the member of that name of struct gsm48_rr_cd",
    "C20.R11 (room) / C20.R17: TLVP_LEN() of a TLV element is the octet in front of its TLVP_VAL(); an LV member that is copied from holds an LV "
    "that fits it; a local table of a caller and what a pointer variable of that caller designates are different objects",
    "C20.R12 (result use): the results the witness fold C20.R8 obtains (return value per refusal / empty / non-empty list) are the results the callers see (same definition of the decoder); a caller's condition over the result is evaluated in the integers after conversion to the type of the local that holds it, conditions compared after an unsigned conversion or mixed with other values are left undecided (both ways kept); a local list the decoder fills is handed on only by statements that name it",
    "C20.R13 (pairing): a function of gsm48_rr.c that is handed the list and a struct gsm48_rr_cd * sends the list to L1 with the hopping parameters (MAIO, HSN) of that description (gsm48_rr_activate_channel, gsm48_rr_channel_after_time do); callees other than the renderers do not write the caller's list or length; different member paths of one pointer variable that is written once are different objects; the contents of a description are not changed between its render call and the consumer (not decided)",
    "C20.R9 (re-run conditions): a condition the SI4 parser tests before any store, copy or call of a function of sysinfo.c sees the object as the caller left it; a local array of the caller that no other statement names holds what its one whole copy put there; a compare length within the copied octets compares only those; functions outside sysinfo.c (logging) called in between write neither side",
    "C20.R14 (received / rendered): a local structure of a handler is a different object from anything reached through its pointer parameters; a handler that stores a received Mobile Allocation and renders afterwards renders for that message (the lists of those render calls are the ones handed to L1, see C20.R13)",
    "C20.R15 (order): gsm_arfcn2freq10 and the arithmetic on its result are functions of their arguments; qsort sorts by its comparator and leaves an array that is strictly ordered by it as it is; the entries of a hopping list are distinct ARFCNs 0..1023 (flag bits of the band indicator are the same for all entries)",
    "C20.R16 (band conversion): the cell allocation of a cell that refers to PCS 1900 consists of PCS channels in the range gsm_arfcn_refer_pcs() of sysinfo.c flags (the function the rest of layer23 uses to name a channel of the cell); gsm_refer_pcs() answers 0 or 1 and is called for the serving cell; ARFCN_PCS has the value of its #define in libosmocore's gsm_utils.h; an iteration that leaves the renderer by return is a refusal (the list is not handed on)",
    "C20.R7 (typed word model): integer widths are those of the parse target (char 8, short 16, int 32, long long and uint64_t 64 bit, long as uint64_t's typedef shows); signed integers are two's complement, conversion to a narrower signed type wraps, >> of a negative value is arithmetic and << of a signed value wraps into the sign bit (what gcc and clang define); a shift by a negative count or by a count >= the width of the promoted left operand is undefined (C11 6.5.7) and is reported, not evaluated",
]

F_SYS = "src/host/layer23/src/common/sysinfo.c"
F_HDR = "src/host/layer23/include/osmocom/bb/common/sysinfo.h"
F_RR = "src/host/layer23/src/mobile/gsm48_rr.c"
F_IE = "src/shared/libosmocore/include/osmocom/gsm/gsm48_ie.h"
F_TRX = "src/host/trxcon/src/trx_if.c"
FN = "gsm48_decode_mobile_alloc"
MAXHOP = 64          # "never more than 64 entries"
MAXLEN = 8           # "bitmap of up to 8 octets"


# ====================================================================== lexer

def blank_strings(clean):
    """comment-stripped source with the contents of string / character
    literals blanked (so braces, commas and parentheses can be matched)."""
    out = []
    i, n = 0, len(clean)
    while i < n:
        c = clean[i]
        if c in "\"'":
            j = i + 1
            while j < n and clean[j] != c:
                if clean[j] == "\\":
                    j += 1
                j += 1
            out.append(c + " " * max(0, j - i - 1) + (c if j < n else ""))
            i = j + 1
        else:
            out.append(c)
            i += 1
    return "".join(out)


def match_close(s, i, o="(", c=")"):
    depth = 0
    while i < len(s):
        if s[i] == o:
            depth += 1
        elif s[i] == c:
            depth -= 1
            if depth == 0:
                return i
        i += 1
    raise AnalysisError("unbalanced %s%s in C source" % (o, c))


def split_args(s):
    out, depth, cur = [], 0, []
    for ch in s:
        if ch in "([{":
            depth += 1
        elif ch in ")]}":
            depth -= 1
        if ch == "," and depth == 0:
            out.append("".join(cur).strip())
            cur = []
        else:
            cur.append(ch)
    if "".join(cur).strip() or out:
        out.append("".join(cur).strip())
    return out


def c_int(txt, macros=None):
    """integer value of a literal / constant expression over object-like macros (None otherwise)"""
    return c_fold(txt, macros)


AMBIGUOUS = "\0redefined"      # replacement text of a macro that is defined twice with different bodies


def read_defines(clean):
    out = {}
    for m in re.finditer(r"^[ \t]*#[ \t]*define[ \t]+(\w+)[ \t]+([^\n]*?)[ \t]*$", clean, re.M):
        if m.group(1) in out and " ".join(out[m.group(1)].split()) != " ".join(m.group(2).split()):
            out[m.group(1)] = AMBIGUOUS
        else:
            out[m.group(1)] = m.group(2)
    return out


def active_defines(clean, guard_depth=0):
    """object-like #defines outside conditional blocks, in source order.
    guard_depth=1: the file is wrapped in an include guard (#ifndef X / #define X ... #endif)."""
    out, depth = [], 0
    for ln in clean.split("\n"):
        m = re.match(r"[ \t]*#[ \t]*(\w+)(.*)$", ln)
        if not m:
            continue
        d = m.group(1)
        if d in ("if", "ifdef", "ifndef"):
            depth += 1
        elif d == "endif":
            depth -= 1
        elif d == "define" and depth == guard_depth:
            mm = re.match(r"[ \t]+(\w+)[ \t]+([^\n]*?)[ \t]*$", m.group(2))
            if mm:
                out.append((mm.group(1), mm.group(2)))
        elif d == "undef" and depth <= guard_depth:
            mm = re.match(r"[ \t]+(\w+)", m.group(2))
            if mm:
                out.append((mm.group(1), AMBIGUOUS))
    return out


CTOK = re.compile(r"\s*(0[xX][0-9a-fA-F]+[uUlL]*|\d+[uUlL]*|[A-Za-z_]\w*|<<|>>|[-+*/%&|^~()])")


def c_tokens(txt):
    """tokens of an integer expression text (None if something is outside the vocabulary)"""
    toks, pos = [], 0
    txt = txt.rstrip()
    while pos < len(txt):
        m = CTOK.match(txt, pos)
        if not m:
            return None
        toks.append(m.group(1))
        pos = m.end()
    return toks


def expand_tokens(toks, macros, busy=()):
    """object-like macro expansion on the token level -- exactly what the preprocessor does, so an
    unparenthesised replacement list keeps its (possibly surprising) binding in the surrounding expression"""
    out = []
    for t in toks:
        if re.fullmatch(r"[A-Za-z_]\w*", t) and macros and t in macros and t not in busy:
            sub = c_tokens(macros[t])
            if sub is None:
                return None
            sub = expand_tokens(sub, macros, busy + (t,))
            if sub is None:
                return None
            out += sub
        else:
            out.append(t)
    return out


CLEVELS = [["|"], ["^"], ["&"], ["<<", ">>"], ["+", "-"], ["*", "/", "%"]]
CFUN = {"|": X.bor, "^": X.bxor, "&": X.band, "<<": X.shl, ">>": X.shr, "+": X.add, "-": X.sub,
        "*": X.mul, "/": X.div, "%": X.mod}


def cexpr_term(toks, leaf, what):
    """term of a token list, C precedence (| ^ & shift additive multiplicative unary); identifiers go through leaf()"""
    pos = [0]

    def peek():
        return toks[pos[0]] if pos[0] < len(toks) else None

    def eat():
        if pos[0] >= len(toks):
            raise AnalysisError("expression `%s`: unexpected end" % what)
        pos[0] += 1
        return toks[pos[0] - 1]

    def prim():
        t = eat()
        if t == "(":
            v = level(0)
            if eat() != ")":
                raise AnalysisError("expression `%s`: unbalanced" % what)
            return v
        if t == "-":
            return X.neg(prim())
        if t == "+":
            return prim()
        m = re.fullmatch(r"(0[xX][0-9a-fA-F]+|\d+)[uUlL]*", t)
        if m:
            return X.C(int(m.group(1), 0))
        if re.fullmatch(r"[A-Za-z_]\w*", t):
            return leaf(t)
        raise AnalysisError("expression `%s`: unexpected token %s" % (what, t))

    def level(k):
        if k == len(CLEVELS):
            return prim()
        v = level(k + 1)
        while peek() in CLEVELS[k]:
            op = eat()
            v = CFUN[op](v, level(k + 1))
        return v
    v = level(0)
    if pos[0] != len(toks):
        raise AnalysisError("expression `%s`: trailing tokens" % what)
    return v


def c_fold(txt, macros=None):
    """value of an integer constant expression text after macro expansion (None if it is not one).
    Only non-negative intermediate values are accepted, so C and integer arithmetic coincide."""
    toks = c_tokens(txt)
    if toks is None:
        return None
    toks = expand_tokens(toks, macros)
    if not toks:
        return None

    def leaf(t):
        raise Unknown(t)
    try:
        t = cexpr_term(toks, leaf, txt)
        v = ev(t, {})
    except (AnalysisError, Unknown):
        return None
    return v if 0 <= v < (1 << 31) else None


def struct_members(clean, name):
    """depth-1 members of `struct name {...}`: member -> (type text, extent text | None)"""
    m = re.search(r"\bstruct\s+%s\s*\{" % re.escape(name), clean)
    if not m:
        raise AnalysisError("struct %s not found" % name)
    o = m.end() - 1
    e = match_close(clean, o, "{", "}")
    body = clean[o + 1:e]
    out = {}
    depth, cur = 0, []
    for ch in body:
        if ch == "{":
            depth += 1
        elif ch == "}":
            depth -= 1
        if ch == ";" and depth == 0:
            st = " ".join("".join(cur).split())
            cur = []
            if "{" in st or not st or st.startswith("#"):
                continue
            parts = split_args(st)
            m0 = re.fullmatch(r"(.*?[\s\*])(\w+)\s*((?:\[[^\]]*\])*)(\s*:\s*\d+)?", parts[0])
            if not m0:
                continue
            typ = m0.group(1).strip()
            decls = [(m0.group(2), m0.group(3))]
            for p in parts[1:]:
                mp = re.fullmatch(r"\**\s*(\w+)\s*((?:\[[^\]]*\])*)(\s*:\s*\d+)?", p)
                if mp:
                    decls.append((mp.group(1), mp.group(2)))
            for nm, ex in decls:
                exts = re.findall(r"\[([^\]]*)\]", ex or "")
                out[nm] = (typ, exts[0] if exts else None)
        else:
            cur.append(ch)
    return out


class CFile:
    """Lexer view of one C file: top-level function definitions and call sites."""

    def __init__(self, L, rel):
        self.rel = rel
        p = L.unit(rel)
        with open(p, "r", encoding="utf-8", errors="surrogateescape") as f:
            self.src = f.read()
        self.clean = blank_strings(strip_comments(self.src))
        self.macros = read_defines(self.clean)
        self.funcs = []          # (name, params_text, body_start, body_end)
        self._index()

    def _index(self):
        s = self.clean
        depth = 0
        i, n = 0, len(s)
        while i < n:
            ch = s[i]
            if ch == "{":
                if depth == 0:
                    j = i - 1
                    while j >= 0 and s[j] in " \t\r\n":
                        j -= 1
                    if j >= 0 and s[j] == ")":
                        # match backwards
                        d, k = 0, j
                        while k >= 0:
                            if s[k] == ")":
                                d += 1
                            elif s[k] == "(":
                                d -= 1
                                if d == 0:
                                    break
                            k -= 1
                        q = k - 1
                        while q >= 0 and s[q] in " \t\r\n":
                            q -= 1
                        q1 = q
                        while q >= 0 and (s[q].isalnum() or s[q] == "_"):
                            q -= 1
                        fname = s[q + 1:q1 + 1]
                        if fname and fname not in ("if", "for", "while", "switch"):
                            e = match_close(s, i, "{", "}")
                            self.funcs.append((fname, s[k + 1:j], i, e))
                            i = e + 1
                            continue
                depth += 1
            elif ch == "}":
                depth -= 1
            i += 1

    def line(self, pos):
        return self.clean.count("\n", 0, pos) + 1

    def calls(self, callee):
        """[(funcinfo, call_pos, [arg texts])] for calls inside function bodies"""
        out = []
        for m in re.finditer(r"\b%s\s*\(" % re.escape(callee), self.clean):
            fi = self.func_at(m.start())
            if fi is None:
                continue            # prototype / definition header
            o = m.end() - 1
            c = match_close(self.clean, o)
            out.append((fi, m.start(), split_args(self.clean[o + 1:c])))
        return out

    def func_at(self, pos):
        for f in self.funcs:
            if f[2] < pos < f[3]:
                return f
        return None

    def in_scope(self, fi, decl_pos, use_pos):
        """the block in which decl_pos lies is still open at use_pos"""
        if decl_pos > use_pos:
            return False
        s = self.clean
        depth = 0
        for k in range(decl_pos, use_pos):
            if s[k] == "{":
                depth += 1
            elif s[k] == "}":
                depth -= 1
                if depth < 0:
                    return False
        return True


class Buffers:
    """Resolution of a pointer argument at a call site to the declaration(s)
    of the buffer it designates (local array, struct member, or -- through a
    pointer parameter -- the buffers of all callers)."""

    def __init__(self, L, hdr_clean):
        self.L = L
        self.hdr = hdr_clean
        self.hdr_macros = read_defines(hdr_clean)
        self.members = struct_members(hdr_clean, "gsm48_sysinfo")

    def resolve(self, cf, fi, expr, pos, depth=0):
        """-> list of dicts {file, func, decl, type, extent, line}"""
        if depth > 3:
            raise AnalysisError("caller chain deeper than 3 while resolving `%s`" % expr)
        e = expr.strip()
        while e.startswith("(") and match_close(e, 0) == len(e) - 1:
            e = e[1:-1].strip()
        name, params, b0, b1 = fi
        body = cf.clean[b0:b1 + 1]
        m = re.fullmatch(r"(\w+)\s*(->|\.)\s*(\w+)", e)
        if m:
            base, member = m.group(1), m.group(3)
            scope = params + " ; " + cf.clean[b0:pos]
            mt = re.findall(r"\bstruct\s+(\w+)\s*\*?\s*\b%s\b\s*[,;=)]" % re.escape(base), scope + ")")
            if not mt:
                raise AnalysisError("cannot find the struct type of `%s` in %s()" % (base, name))
            if mt[-1] != "gsm48_sysinfo":
                raise AnalysisError("buffer `%s` is a member of struct %s (only struct gsm48_sysinfo is modelled)" % (e, mt[-1]))
            if member not in self.members:
                raise AnalysisError("struct gsm48_sysinfo has no member %s" % member)
            typ, ext = self.members[member]
            val = c_int(ext, self.hdr_macros) if ext is not None else None
            if val is None:
                raise AnalysisError("extent of gsm48_sysinfo.%s is not an integer constant: %r" % (member, ext))
            return [{"file": F_HDR, "func": "struct gsm48_sysinfo", "decl": "%s %s[%s]" % (typ, member, ext.strip()),
                     "type": typ, "extent": val, "line": None}]
        if not re.fullmatch(r"\w+", e):
            raise AnalysisError("buffer argument `%s` in %s() has a shape the lexer cannot resolve" % (expr, name))
        # local array in scope (innermost = last one in scope)
        best = None
        for d in re.finditer(r"\b(\w[\w \t]*?)[ \t]+%s\s*\[([^\]]*)\]\s*[;,=]" % re.escape(e), cf.clean[b0:pos]):
            dp = b0 + d.start()
            if cf.in_scope(fi, dp, pos):
                best = (d, dp)
        if best:
            d, dp = best
            typ = " ".join(d.group(1).split())
            typ = re.sub(r"^(static|const|register)\s+", "", typ)
            val = c_int(d.group(2), dict(self.hdr_macros, **cf.macros))
            if val is None:
                raise AnalysisError("extent of `%s[%s]` in %s() is not an integer constant" % (e, d.group(2), name))
            return [{"file": cf.rel, "func": name, "decl": "%s %s[%s]" % (typ, e, d.group(2).strip()),
                     "type": typ, "extent": val, "line": cf.line(dp)}]
        # local pointer with initialiser
        # (innermost declaration in scope; declarations of the same name in other blocks are other variables, a plain
        # assignment to the name anywhere in the function is not followed)
        best = None
        for d in re.finditer(r"\*\s*%s\s*=\s*([^;,]+)[;,]" % re.escape(e), cf.clean[b0:pos]):
            if cf.in_scope(fi, b0 + d.start(), pos):
                best = d
        if best is not None:
            ndecl = len(re.findall(r"\*\s*%s\s*=[^=]" % re.escape(e), cf.clean[b0:b1]))
            if len(re.findall(r"\b%s\s*=[^=]" % re.escape(e), cf.clean[b0:b1])) != ndecl:
                raise AnalysisError("pointer `%s` in %s() is assigned more than once" % (e, name))
            return self.resolve(cf, fi, best.group(1), pos, depth + 1)
        # pointer parameter -> all callers in this file
        plist = split_args(params)
        idx = None
        for k, p in enumerate(plist):
            mm = re.search(r"(\w+)\s*(\[\s*\])?$", p.strip())
            if mm and mm.group(1) == e:
                idx = k
        if idx is None:
            raise AnalysisError("cannot resolve buffer `%s` in %s()" % (e, name))
        if re.search(r"\b%s\s*(=[^=]|\+\+|--|\+=|-=)" % re.escape(e), body):
            raise AnalysisError("pointer parameter `%s` of %s() is modified" % (e, name))
        sites = cf.calls(name)
        if not sites:
            raise AnalysisError("%s() forwards its parameter `%s` but has no caller in %s" % (name, e, cf.rel))
        out = []
        for (cfi, cpos, args) in sites:
            if idx >= len(args):
                raise AnalysisError("call of %s() with too few arguments" % name)
            out += self.resolve(cf, cfi, args[idx], cpos, depth + 1)
        return out


# ============================================================ function model

class Unknown(Exception):
    """term mentions something that is not in the finite domain"""


def ev(t, vals):
    k = t[0]
    if k == "c":
        return t[1]
    if k == "v":
        if t[1] in vals:
            return vals[t[1]]
        raise Unknown(t[1])
    if k == "+":
        return sum(ev(x, vals) for x in t[1:])
    if k == "*":
        r = 1
        for x in t[1:]:
            r *= ev(x, vals)
        return r
    if k in ("&", "|", "^"):
        r = ev(t[1], vals)
        for x in t[2:]:
            y = ev(x, vals)
            r = r & y if k == "&" else (r | y if k == "|" else r ^ y)
        return r
    if k in ("mod", "div"):
        a, n = ev(t[1], vals), ev(t[2], vals)
        if n <= 0 or (a < 0 and (k == "div" or n & (n - 1))):
            raise AnalysisError("division with non-positive operand while folding %s" % X.show(t))
        return a % n if k == "mod" else a // n
    if k in ("<<", ">>"):
        a, s = ev(t[1], vals), ev(t[2], vals)
        if s < 0 or s > 31:
            raise AnalysisError("shift count out of range while folding %s" % X.show(t))
        return a << s if k == "<<" else a >> s
    if k == "cmp":
        a, b = ev(t[2], vals), ev(t[3], vals)
        return int(a < b) if t[1] == "<" else int(a == b)
    if k == "not":
        return int(not ev(t[1], vals))
    if k == "and":
        return int(bool(ev(t[1], vals)) and bool(ev(t[2], vals)))
    if k == "or":
        return int(bool(ev(t[1], vals)) or bool(ev(t[2], vals)))
    if k == "ite":
        return ev(t[2], vals) if ev(t[1], vals) else ev(t[3], vals)
    raise Unknown(k)


def subterms_of(t):
    yield t
    for x in t[1:]:
        if isinstance(x, tuple):
            for y in subterms_of(x):
                yield y


def free_vars(t, out=None):
    """variable leaves of a term; '<mem>' if it reads memory / calls"""
    out = set() if out is None else out
    k = t[0]
    if k == "v":
        out.add(t[1])
    elif k != "c":
        if k in ("idx", "call"):
            out.add("<mem>")
        for x in t[1:]:
            if isinstance(x, tuple):
                free_vars(x, out)
    return out


class Lower(CLower):
    """CLower + structural members of array elements (a[i].m)"""

    def lower(self, n):
        n = strip(n)
        if kind(n) == "MemberExpr":
            sb = strip(kids(n)[0])
            if kind(sb) == "ArraySubscriptExpr":
                return ("call", "." + n.get("name", "?"), self.lower(sb))
            return X.V(ctext(n))
        return CLower.lower(self, n)


def conj_atoms(e, pol):
    """[(expr, polarity)] all of which hold when e evaluates to pol"""
    n = strip(e)
    if kind(n) == "UnaryOperator" and n.get("opcode") == "!":
        return conj_atoms(kids(n)[0], not pol)
    if kind(n) == "BinaryOperator":
        op = n.get("opcode")
        if (op == "&&" and pol) or (op == "||" and not pol):
            a, b = kids(n)
            return conj_atoms(a, pol) + conj_atoms(b, pol)
    return [(n, pol)]


class Write:
    __slots__ = ("node", "var", "how", "val", "ast", "delta", "postfix")

    def __init__(self, node, var, how, val, ast, delta=None, postfix=False):
        self.node, self.var, self.how, self.val, self.ast = node, var, how, val, ast
        self.delta, self.postfix = delta, postfix


class FM:
    """Facts about one C function on its statement CFG."""

    def __init__(self, tu, fdecl, line_off=0, extra_invariant=(), dup_ok=False, copies=False):
        self.tu = tu
        self.f = fdecl
        self.off = line_off
        self.extra_invariant = set(extra_invariant)
        self.dup_ok = dup_ok
        self.copies = copies        # forward-substitute frozen copies too (see _env)
        self.copy_of = {}           # local -> variables it is a frozen copy of
        self.dups = set()
        self.g = CCFG(tu, fdecl)
        self.params = [p.get("name") for p in tu.fparams(fdecl)]
        self.ptype = {p.get("name"): p.get("type", {}).get("qualType", "") for p in tu.fparams(fdecl)}
        self.locals = {}
        self.writes = {}        # var -> [Write]
        self.memwrites = []     # Write with var=None, ast = lvalue expr
        self.uses = {}          # var -> [(cfg node, DeclRefExpr)]
        self.addr = set()
        self.calls = []
        self._gcache = {}
        self.derived = {}       # bitmap-derived bound -> ids of the CFG nodes at which it holds its final value (Dec.derive)
        self.dcases = {}        # bitmap length -> [(highest set bit | -1, {derived bound: value})]
        self.lenparam = None
        self._scan()
        self.LW = Lower(tu, {})
        self._env()

    # -- basics ---------------------------------------------------------------
    def line(self, a):
        l = a.get("_line") if isinstance(a, dict) else None
        return l + self.off if l is not None else None

    def nline(self, node):
        return self.line(node.ast) if node.ast is not None else None

    def exprs_of(self, n):
        if n.kind in ("cond", "switch"):
            return [n.cond] if getattr(n, "cond", None) else []
        if n.kind == "stmt" and n.ast is not None and kind(n.ast) != "DoHead":
            return [n.ast]
        return []

    def parent(self, a):
        p = self.tu.parent.get(id(a))
        while p is not None and kind(p) in SKIP:
            p = self.tu.parent.get(id(p))
        return p

    def _scan(self):
        names = list(self.params)
        for n in self.g.nodes:
            for root in self.exprs_of(n):
                for x in walk(root):
                    k = kind(x)
                    if k == "VarDecl":
                        nm = x.get("name")
                        names.append(nm)
                        self.locals[nm] = x
                        ks = [c for c in kids(x) if kind(c) and not kind(c).endswith("Attr")]
                        if ks:
                            self._w(Write(n, nm, "init", ks[-1], x))
                    elif k == "DeclRefExpr":
                        rd = x.get("referencedDecl", {})
                        if rd.get("kind") in ("VarDecl", "ParmVarDecl"):
                            self.uses.setdefault(rd.get("name"), []).append((n, x))
                    elif k == "BinaryOperator" and x.get("opcode") == "=":
                        self._store(n, x, "assign", kids(x)[1])
                    elif k == "CompoundAssignOperator":
                        self._store(n, x, "aug" + x.get("opcode", "?"), kids(x)[1])
                    elif k == "UnaryOperator" and x.get("opcode") in ("++", "--"):
                        self._store(n, x, "inc", None, 1 if x.get("opcode") == "++" else -1, bool(x.get("isPostfix")))
                    elif k == "UnaryOperator" and x.get("opcode") == "&":
                        t = strip(kids(x)[0])
                        if kind(t) == "DeclRefExpr":
                            self.addr.add(t.get("referencedDecl", {}).get("name"))
                    elif k == "CallExpr":
                        self.calls.append((n, x))
        dup = {a for a in names if names.count(a) > 1}
        self.dups = dup
        if dup and not self.dup_ok:
            raise AnalysisError("shadowed / duplicate local names %s: variables are identified by name" % sorted(dup))

    def _store(self, n, x, how, val, delta=None, postfix=False):
        lhs = strip(kids(x)[0])
        if kind(lhs) == "DeclRefExpr":
            self._w(Write(n, lhs.get("referencedDecl", {}).get("name"), how, val, x, delta, postfix))
        else:
            w = Write(n, None, how, val, x, delta, postfix)
            self.memwrites.append(w)

    def _w(self, w):
        self.writes.setdefault(w.var, []).append(w)

    def never_written(self, v):
        return not self.writes.get(v) and v not in self.addr

    def _pure(self, e, ok_vars):
        for x in walk(e):
            k = kind(x)
            if k in ("CallExpr", "ArraySubscriptExpr", "MemberExpr", "StmtExpr") or \
                    (k == "UnaryOperator" and x.get("opcode") in ("*", "&", "++", "--")) or \
                    (k in ("BinaryOperator", "CompoundAssignOperator") and x.get("opcode", "").endswith("=")
                     and x.get("opcode") not in ("==", "!=", "<=", ">=")):
                return False
            if k == "DeclRefExpr":
                rd = x.get("referencedDecl", {})
                if rd.get("kind") == "EnumConstantDecl":
                    continue
                if rd.get("name") not in ok_vars:
                    return False
        return True

    def _env(self):
        """single-definition locals whose value is a pure expression of
        never-written parameters: forward-substituted everywhere.
        With copies=True also *frozen copies*: `v = e` is the only write of v, it dominates every use of v,
        and every variable of the pure expression e is a local that is not written any more once the copy was
        taken (no write of it is reachable from the defining statement).  Then v == e (evaluated at the use)
        wherever v is used, so v is replaced by e -- the result variable of an inlined helper (`n = h__j`), or
        a temporary holding the list length, is the counter itself for every rule.  Such a v is not invariant
        (its source changes before the copy)."""
        self.invariant = {p for p in self.params if self.never_written(p)} | self.extra_invariant
        changed = True
        while changed:
            changed = False
            for v, ws in self.writes.items():
                if v in self.LW.env or v not in self.locals or len(ws) != 1 or v in self.addr or v in self.dups:
                    continue
                w = ws[0]
                if w.how not in ("init", "assign"):
                    continue
                if kind(strip(w.val)) in ("InitListExpr", "ImplicitValueInitExpr") or \
                        "[" in self.locals[v].get("type", {}).get("qualType", ""):
                    continue        # an aggregate (brace-initialised array / record): its elements are memory, not a scalar value
                inv = self._pure(w.val, self.invariant)
                if not inv and not (self.copies and self._pure(w.val, self.invariant | self.frozen_at(w.node, v))):
                    continue
                ok = True
                for (un, a) in self.uses.get(v, []):
                    if un is w.node:
                        ok = ok and self._own(w, a)
                    else:
                        ok = ok and self.g.dominates(w.node, un)
                if not ok:
                    continue
                self.LW.env[v] = self.LW.lower(w.val)
                if inv:
                    self.invariant.add(v)
                else:
                    self.copy_of[v] = sorted(free_vars(self.LW.env[v]) - self.invariant)
                changed = True

    def frozen_at(self, node, but):
        """scalar locals (not `but`) whose value cannot change once `node` was executed: no write of them is
        reachable from it (a write at `node` itself, e.g. inside a loop, is reachable from it)"""
        after = self.reach_succ(node)
        out = set()
        for u, vd in self.locals.items():
            qt = vd.get("type", {}).get("qualType", "")
            if u == but or u in self.addr or u in self.dups or "[" in qt or "*" in qt:
                continue
            if any(w.node.id in after or w.node is node for w in self.writes.get(u, [])):
                continue
            out.add(u)
        return out

    def _own(self, w, a):
        # the use inside the defining statement is the assignment's own lvalue
        return kind(w.ast) != "VarDecl" and strip(kids(w.ast)[0]) is a

    def lower(self, e):
        return self.LW.lower(e)

    # -- reachability ---------------------------------------------------------
    def reach_succ(self, node, skip=(), label="*"):
        skip_ids = {n.id for n in skip}
        seen, work = set(), []
        for (s, l) in node.succ:
            if label != "*" and l != label:
                continue
            if s.id not in skip_ids and s.id not in seen:
                seen.add(s.id)
                work.append(s)
        while work:
            n = work.pop()
            for (s, l) in n.succ:
                if s.id not in skip_ids and s.id not in seen:
                    seen.add(s.id)
                    work.append(s)
        return seen

    def reaching_defs(self, var, node, outside=None):
        """write nodes of var that reach `node` (walking predecessors, not
        entering node ids in `outside`); 'undef' if the entry is reached."""
        wn = {}
        for w in self.writes.get(var, []):
            wn.setdefault(w.node.id, []).append(w)
        out, seen = [], set()
        work = [p for (p, _) in node.pred if not (outside and p.id in outside)]
        while work:
            n = work.pop()
            if n.id in seen:
                continue
            seen.add(n.id)
            if n.id in wn:
                out += wn[n.id]
                continue
            if n is self.g.entry:
                out.append("undef")
                continue
            work += [p for (p, _) in n.pred if not (outside and p.id in outside)]
        return out

    # -- guards ---------------------------------------------------------------
    def norm(self, e, pol):
        try:
            t = self.lower(e)
        except AnalysisError:
            return (X.V("<opaque %s>" % ctext(e)[:40]), pol)
        return self.norm_term(t, pol)

    def norm_term(self, t, pol):
        while t[0] == "not":
            t, pol = t[1], not pol
        if t[0] == "cmp" and t[1] == "==":
            a, b = t[2], t[3]
            if a == X.C(0) and b[0] != "c":
                return self.norm_t(b, not pol)
            if b == X.C(0) and a[0] != "c":
                return self.norm_t(a, not pol)
        return (t, pol)

    def norm_t(self, t, pol):
        while t[0] == "not":
            t, pol = t[1], not pol
        return (t, pol)

    # -- temporaries that hold a tested value ------------------------------------
    def _readonly(self, e):
        for x in walk(e):
            k = kind(x)
            if k in ("CallExpr", "StmtExpr", "CompoundAssignOperator") or \
                    (k == "UnaryOperator" and x.get("opcode") in ("++", "--", "&")) or \
                    (k == "BinaryOperator" and x.get("opcode") in ("=", ",")):
                return False
        return True

    def temp_value(self, x, at, depth=0):
        """term of the local x at CFG node `at` if x is a temporary there: exactly one definition `x = e` reaches
        `at` and e has no side effects.  e is taken at the definition (its own temporaries resolved there); what is
        left of it must still mean the same at `at`: none of its variables -- and no memory at all, if it reads
        memory -- is written on a path from the definition to `at`.  None otherwise."""
        if depth > 3 or x not in self.locals or x in self.addr or x in self.dups or x in self.LW.env:
            return None
        defs = self.reaching_defs(x, at)
        if len(defs) != 1 or defs[0] == "undef" or defs[0].how not in ("init", "assign") or defs[0].node is at:
            return None
        d = defs[0]
        if not self._readonly(d.val):
            return None
        try:
            t = self.subst_temps(self.lower(d.val), d.node, depth + 1)
        except AnalysisError:
            return None
        fv = free_vars(t)
        names = {v for v in fv if v in self.locals or v in self.params}
        mem = bool(fv - names - self.invariant)            # element reads, member texts, opaque leaves
        if x in names or names & self.addr:
            return None
        ws = [w for v in names for w in self.writes.get(v, [])]
        if mem:
            bases = self.read_bases(t)
            for w in self.memwrites:
                wb = self.store_base(kids(w.ast)[0])
                # a store into a local array cannot change what is read through another base
                if bases is not None and wb in self.locals and wb not in bases and \
                        "[" in self.locals[wb].get("type", {}).get("qualType", ""):
                    continue
                ws.append(w)
        if any(at.id in self.reach_succ(w.node, skip=[d.node]) or w.node is d.node for w in ws):
            return None
        return t

    def read_bases(self, t):
        """names through which the term reads memory (None: not all are identifiable)"""
        out = set()
        for x in subterms_of(t):
            if x[0] == "idx" or (x[0] == "call" and x[1] == "deref"):
                b = x[1] if x[0] == "idx" else x[2]
                if b[0] != "v" or not (b[1] in self.locals or b[1] in self.params):
                    return None
                out.add(b[1])
            elif x[0] == "call" and not x[1].startswith("."):
                return None
            elif x[0] == "v" and not (x[1] in self.locals or x[1] in self.params or x[1] in self.invariant):
                return None
        return out

    def store_base(self, lv):
        lv = strip(lv)
        while lv is not None and kind(lv) in ("ArraySubscriptExpr", "MemberExpr") or \
                (kind(lv) == "UnaryOperator" and lv.get("opcode") == "*"):
            lv = strip(kids(lv)[0])
        return lv.get("referencedDecl", {}).get("name") if lv is not None and kind(lv) == "DeclRefExpr" else None

    def subst_temps(self, t, at, depth=0):
        if t[0] == "v":
            r = self.temp_value(t[1], at, depth)
            return t if r is None else r
        if t[0] == "c":
            return t
        return tuple(self.subst_temps(x, at, depth) if isinstance(x, tuple) else x for x in t)

    def atoms(self, node):
        """[(term, pol, cond node, label)] edge-dominating `node`"""
        if node.id not in self._gcache:
            out = []
            for (c, l) in self.g.guards(node):
                if c.kind == "cond" and getattr(c, "cond", None) and isinstance(l, bool):
                    for (e, p) in conj_atoms(c.cond, l):
                        t, p2 = self.norm(e, p)
                        if self.copies:
                            # a tested temporary (`serv = freq[..].mask & FLAG; if (serv)`) is the tested value
                            t2 = self.subst_temps(t, c)
                            if t2 != t:
                                t, p2 = self.norm_term(t2, p2)
                        out.append((t, p2, c, l))
            self._gcache[node.id] = out
        return self._gcache[node.id]

    def edge_atoms(self, c, label):
        return [self.norm(e, p) for (e, p) in conj_atoms(c.cond, label)] if getattr(c, "cond", None) else []

    def domain(self, node, var, full=range(0, 256)):
        """values of the never-written parameter `var` compatible with the
        guard atoms that mention only `var`"""
        ats = self.atoms(node)
        out = []
        for v in full:
            ok = True
            for (t, p, _, _) in ats:
                try:
                    if bool(ev(t, {var: v})) != p:
                        ok = False
                        break
                except Unknown:
                    continue
            if ok:
                out.append(v)
        return out

    def stable(self, node, atom, names):
        """none of `names` is written between the test of `atom` and `node`"""
        return all(node.id not in self.reach_succ(w.node, skip=[atom[2]])
                   for v in names for w in self.writes.get(v, []))

    def upper_bounds(self, atoms, var):
        """exclusive upper-bound terms for V(var) implied by atoms"""
        out = []
        v = X.V(var)
        for a in atoms:
            t, p = a[0], a[1]
            if t[0] == "cmp" and t[1] == "<":
                if p and t[2] == v:
                    out.append((t[3], a))
                elif not p and t[3] == v:
                    out.append((X.add(t[2], X.C(1)), a))
        return out

    # -- loops ----------------------------------------------------------------
    def loop(self, stmt):
        """counted-loop facts of a For/While statement (AnalysisError if it
        is not a counted loop)"""
        key = ("loop", id(stmt))
        if key in self._gcache:
            return self._gcache[key]
        c = self.g.by_ast.get(id(stmt))
        if c is None or c.kind != "cond" or kind(stmt) == "DoStmt":
            raise AnalysisError("loop shape not supported (line %s)" % self.line(stmt))
        region = self.natural_loop(c)
        cands = []
        ats = self.edge_atoms(c, True)
        for var in sorted({t[2][1] for (t, p) in ats if t[0] == "cmp" and t[1] == "<" and t[2][0] == "v"} |
                          {t[3][1] for (t, p) in ats if t[0] == "cmp" and t[1] == "<" and t[3][0] == "v"}):
            if var not in self.locals or var in self.addr:
                continue
            ub = self.upper_bounds(ats, var)
            ws = [w for w in self.writes.get(var, []) if w.node.id in region]
            if not ub or not ws:
                continue
            # the unit step: +1, executed exactly once per iteration
            units = [w for w in ws if self._step(w, var) == 1 and not (
                c.id in self.reach_succ(c, skip=[w.node], label=True) or w.node.id in self.reach_succ(w.node, skip=[c]))]
            if len(units) != 1:
                continue
            w = units[0]
            defs = self.reaching_defs(var, c, outside=region)
            vals = set()
            for d in defs:
                vals.add(None if d == "undef" or d.how not in ("init", "assign") else self.tu.fold(d.val))
            if len(vals) != 1 or None in vals:
                continue
            for (b, _) in ub:
                if not free_vars(b) <= self.inv_at(c):
                    raise AnalysisError("loop bound %s of `%s` is not invariant" % (X.show(b), var))
            li = {"stmt": stmt, "cond": c, "var": var, "init": vals.pop(), "bounds": [b for (b, _) in ub],
                  "inc": w.node, "region": region, "skips": []}
            # every other write of the variable inside the loop must be a forward jump (see skip_write)
            for k in ws:
                if k is not w:
                    li["skips"].append(self.skip_write(li, k, ws))
            if None in li["skips"] or not self.skips_forward(li):
                continue
            cands.append(li)
        if len(cands) != 1:
            raise AnalysisError("loop at line %s is not a recognisable counted loop (%d induction candidates)" % (
                self.line(stmt), len(cands)))
        self._gcache[key] = cands[0]
        return cands[0]

    def _step(self, w, var):
        """constant k of a write `var = var + k` (None otherwise)"""
        if w.how == "inc":
            return w.delta
        if w.how == "aug+=":
            return self.tu.fold(w.val)
        if w.how == "assign":
            try:
                co, k = X.linear(self.lower(w.val))
            except AnalysisError:
                return None
            if co == {var: 1}:
                return k
        return None

    def skip_write(self, li, k, ws):
        """A second write `var = f(var)` of the induction variable inside a counted loop is a *forward jump*: the
        iteration that executes it does nothing else afterwards (only the loop's own +1 follows), so the walk goes
        on with index f(var)+1 and the indices var+1 .. f(var) are not visited.  Recognised when
          * f is a side-effect free function of the variable and of invariants (`v |= c`, `v += c`, `v = e(v)`),
          * the jump is executed at most once per iteration and no write of the variable precedes it in the
            iteration (the guards of the jump speak about the index the iteration started with),
          * every statement between the jump and the loop's increment is inert: it writes nothing, calls nothing,
            branches nowhere and does not read the variable.
        -> {"node", "term", "ast"} | None.  Whether the jump may go backwards is decided by skips_forward();
        what the skipped indices mean for the property is the business of the rule that uses the loop (li["skips"])."""
        var, c, region = li["var"], li["cond"], li["region"]
        try:
            if k.how == "assign":
                ft = self.lower(k.val)
            elif k.how == "aug|=":
                ft = X.bor(X.V(var), self.lower(k.val))
            elif k.how == "aug+=":
                ft = X.add(X.V(var), self.lower(k.val))
            else:
                return None
        except AnalysisError:
            return None
        if not self._readonly(k.val) or not free_vars(ft) <= self.invariant | {var}:
            return None
        if k.node is c or any(k.node.id in self.reach_succ(w2.node, skip=[c]) for w2 in ws):
            return None
        after = self.reach_succ(k.node, skip=[c]) - {li["inc"].id}
        busy = {w.node.id for wl in self.writes.values() for w in wl} | {w.node.id for w in self.memwrites} | \
            {n.id for (n, _) in self.calls} | {n.id for (n, _) in self.uses.get(var, [])}
        for i in after:
            n = self.g.nodes[i]
            if i not in region or n.kind != "stmt" or i in busy:
                return None
        if li["inc"].id not in self.reach_succ(k.node, skip=[c]):
            return None
        return {"node": k.node, "term": ft, "ast": k.ast}

    def skips_forward(self, li):
        """no forward jump of the loop moves the variable backwards: f(x) >= x for every x the loop test admits
        (folded over the finite domain: the uint8_t parameter in the bounds x the loop range).  With the +1 executed
        once per iteration the variable then grows strictly, so every statement before the jump / the increment sees
        a value in init .. bound-1 and the loop runs at most bound-init times."""
        if not li["skips"]:
            return True
        pv = set()
        for t in li["bounds"] + [sk["term"] for sk in li["skips"]]:
            pv |= free_vars(t) - {li["var"]} - self.dvars(li["cond"])
        if len(pv) > 1 or any(" ".join(self.ptype.get(p, "").split()) != "uint8_t" for p in pv):
            return False
        p = pv.pop() if pv else None
        if p is None and self.dvars(li["cond"]):
            p = self.lenparam
        for sk in li["skips"]:
            for v in (self.domain(sk["node"], p) if p else [0]):
                for vals in (self.vals(li["cond"], v, p) if p else [{}]):
                    try:
                        hi = self.loop_hi(li, vals)
                        for x in range(li["init"], hi):
                            vals[li["var"]] = x
                            if ev(sk["term"], vals) < x:
                                return False
                    except (Unknown, AnalysisError):
                        return False
        return True

    def natural_loop(self, c):
        """ids of the natural loop of header c (back edges = predecessors dominated by c)"""
        region = {c.id}
        work = [p for (p, _) in c.pred if self.g.dominates(c, p) and p is not c]
        while work:
            n = work.pop()
            if n.id in region:
                continue
            region.add(n.id)
            work += [p for (p, _) in n.pred]
        return region

    def loop_hi(self, li, vals):
        """exclusive upper bound of the induction variable for parameter values `vals`"""
        hs = []
        for b in li["bounds"]:
            try:
                hs.append(ev(b, vals))
            except Unknown:
                raise AnalysisError("loop bound %s cannot be folded" % X.show(b))
        return min(hs)

    def pre_increment(self, li, node):
        """node sees the induction variable before this iteration's increment"""
        return node.id in li["region"] and node.id != li["inc"].id and \
            node.id not in self.reach_succ(li["inc"], skip=[li["cond"]])

    def enclosing_loops(self, node):
        out = []
        cur = self.tu.parent.get(id(node.ast)) if node.ast is not None else None
        while cur is not None and cur is not self.f:
            if kind(cur) in ("ForStmt", "WhileStmt", "DoStmt"):
                c = self.g.by_ast.get(id(cur))
                # the for-init statement is a child of the ForStmt but not in the loop
                if c is not None and node.id in self.natural_loop(c) and node is not c:
                    out.append(cur)
            cur = self.tu.parent.get(id(cur))
        return out

    def points(self, node, param, term_vars):
        """finite domain at `node`: dicts {param: v, loopvar: x, ...} for the
        free variables in term_vars (parameter + induction variables of the
        enclosing counted loops)."""
        loops = []
        for st in self.enclosing_loops(node):
            li = self.loop(st)
            if li["var"] in term_vars:
                if not self.pre_increment(li, node):
                    raise AnalysisError("`%s` is used after its increment inside the loop" % li["var"])
                loops.append(li)
        rest = set(term_vars) - {param} - {li["var"] for li in loops} - self.dvars(node)
        if rest:
            raise Unknown(sorted(rest)[0])
        need = set(term_vars)
        for li in loops:
            for t in li["bounds"]:
                need |= free_vars(t)
        for v in self.domain(node, param):
            for base in self.vals(node, v, param, need):
                def rec(k, cur):
                    if k == len(loops):
                        yield dict(cur)
                        return
                    li = loops[k]
                    for x in range(li["init"], self.loop_hi(li, base)):
                        cur[li["var"]] = x
                        for r in rec(k + 1, cur):
                            yield r
                for r in rec(0, dict(base)):
                    yield r

    # -- bitmap-derived bounds (registered by Dec.derive) ---------------------------
    def dvars(self, node):
        """derived bounds that hold their final value at `node` (no write of them is reachable from it)"""
        return {b for b, fr in self.derived.items() if node.id in fr}

    def inv_at(self, node):
        return self.invariant | self.dvars(node)

    def cases(self, node, v):
        """[(p, {param: v, derived bound: value})]: one entry per case of the exhaustive split of the v-octet
        bitmaps -- p = -1: no bit is set, p >= 0: bit index p is the highest one that is set.  Without a derived bound
        at `node` nothing depends on the case; the one entry then stands for the bitmap with the highest index set."""
        dv = sorted(self.dvars(node))
        if not dv:
            return [(8 * v - 1, {self.lenparam: v})]
        # guard atoms over (length, derived bounds) that still speak about the values at `node`: a case they exclude
        # does not reach the node (e.g. the all-clear bitmap behind `if (nbits)`)
        key = ("dguards", node.id)
        if key not in self._gcache:
            use = []
            for a in self.atoms(node):
                fv = free_vars(a[0])
                if fv & set(dv) and fv <= set(dv) | {self.lenparam} and self.stable(node, a, sorted(fv & set(dv))):
                    use.append((a[0], a[1]))
            self._gcache[key] = use
        out = []
        for (p, dvals) in self.dcases.get(v, []):
            d = {self.lenparam: v}
            d.update({b: dvals[b] for b in dv})
            try:
                if any(bool(ev(t, d)) != pol for (t, pol) in self._gcache[key]):
                    continue
            except (Unknown, AnalysisError):
                pass
            out.append((p, d))
        return out

    def vals(self, node, v, param=None, need=None):
        """valuations of (length parameter, derived bounds at `node` [that are in `need`]) for bitmap length v"""
        param = param or self.lenparam
        if not self.dvars(node) or param != self.lenparam or (need is not None and not self.dvars(node) & set(need)):
            return [{param: v}]
        out, seen = [], set()
        for (_, d) in self.cases(node, v):
            if need is not None:
                d = {k: x for k, x in d.items() if k == param or k in need}
            k = tuple(sorted(d.items()))
            if k not in seen:
                seen.add(k)
                out.append(dict(d))
        return out


# ================================================================== the slice

PRELUDE_NAMES = ("EINVAL", "LOGP")
F_UTILS = "src/shared/libosmocore/include/osmocom/core/utils.h"


def util_macros(L, body):
    """single-line function-like macros of libosmocore's utils.h (ARRAY_SIZE, OSMO_MIN, ...) that the sliced
    function uses, verbatim from the bundled copy (layer23 includes <osmocom/core/utils.h>)"""
    path = os.path.join(L.repo, F_UTILS)
    if not os.path.exists(path):
        return [], set()
    with open(L.unit(F_UTILS), "r", encoding="utf-8", errors="surrogateescape") as f:
        clean = strip_comments(f.read())
    used = set(re.findall(r"\b([A-Za-z_]\w*)\s*\(", blank_strings(strip_comments(body))))
    lines, names = [], set()
    for m in re.finditer(r"^[ \t]*#[ \t]*define[ \t]+(\w+)\(([^()\n]*)\)[ \t]+([^\n]*?)[ \t]*$", clean, re.M):
        if m.group(1) in used and m.group(1) not in PRELUDE_NAMES and not m.group(3).endswith("\\"):
            lines.append("#define %s(%s) %s" % (m.group(1), m.group(2), m.group(3)))
            names.add(m.group(1))
    return lines, names


def const_macros(hdr_clean, src, first_line):
    """Object-like macros that expand to integer constant expressions and are visible where the sliced
    function stands: those of sysinfo.h (inside its include guard) and those sysinfo.c defines before the
    function, outside conditional blocks.  -> (name -> replacement text, `#define` lines for the prelude).
    The replacement lists are handed to clang verbatim, so the slice expands them the way the build does."""
    own = "\n".join(blank_strings(strip_comments(src)).split("\n")[:max(0, first_line - 1)])
    table, order = {}, []
    for nm, txt in active_defines(hdr_clean, 1) + active_defines(own, 0):
        if nm in table and " ".join(table[nm].split()) != " ".join(txt.split()):
            txt = AMBIGUOUS
        if nm not in table:
            order.append(nm)
        table[nm] = txt
    good = {}
    for nm in order:
        if nm not in PRELUDE_NAMES and c_fold(table[nm], table) is not None:
            good[nm] = table[nm]
    every = ["#define %s %s" % (nm, table[nm]) for nm in order
             if nm not in PRELUDE_NAMES and table[nm] != AMBIGUOUS and not table[nm].endswith("\\")]
    return good, ["#define %s %s" % (nm, good[nm]) for nm in order if nm in good], every


def build_slice(L):
    """(FM of the sliced decoder, constants read from sysinfo.h)"""
    with open(L.unit(F_SYS), "r", encoding="utf-8", errors="surrogateescape") as f:
        src = f.read()
    body, first = slice_function(src, FN)
    with open(L.unit(F_HDR), "r", encoding="utf-8", errors="surrogateescape") as f:
        hdr_raw = f.read()
    hdr = blank_strings(strip_comments(hdr_raw))
    # callees with a definition in sysinfo.c, or -- `static inline` -- in sysinfo.h when sysinfo.c includes it
    origins = [(F_SYS, src, {fi[0] for fi in CFile(L, F_SYS).funcs})]
    if re.search(r"^[ \t]*#[ \t]*include[ \t]*[<\"]%s[>\"]" % re.escape(F_HDR.split("/include/", 1)[1]), strip_comments(src), re.M):
        origins.append((F_HDR, hdr_raw, {fi[0] for fi in CFile(L, F_HDR).funcs} - origins[0][2]))
    helpers = local_helpers(origins, body)          # [(name, text, first line, file)] callee first
    macros, _, mac_lines = const_macros(hdr, src, first)     # unused macros are never expanded: all are handed over verbatim
    ft = {}
    for k, v in read_defines(hdr).items():
        if k.startswith("FREQ_TYPE_"):
            iv = c_int(v, macros) if k in macros else None
            if iv is None:
                raise AnalysisError("value of %s in sysinfo.h is not an integer constant: %r" % (k, v))
            ft[k] = iv
    for need in ("FREQ_TYPE_SERV", "FREQ_TYPE_HOPP"):
        if need not in ft:
            raise AnalysisError("%s vanished from sysinfo.h" % need)
    mem = struct_members(hdr, "gsm48_sysinfo")
    ext = {}
    for m, typ in (("freq", "struct gsm_sysinfo_freq"), ("hopping", "uint16_t"), ("hopp_len", "uint8_t")):
        if m not in mem:
            raise AnalysisError("struct gsm48_sysinfo lost its member %s" % m)
        t, e = mem[m]
        if " ".join(t.split()) != typ:
            raise AnalysisError("gsm48_sysinfo.%s has type %r (modelled: %s)" % (m, t, typ))
        ext[m] = c_int(e, macros) if e is not None else None
    if ext["freq"] is None or ext["hopping"] is None:
        raise AnalysisError("extents of gsm48_sysinfo.freq / .hopping are not integer constants")
    # the element type is libosmocore's; cross-read the bundled copy when it is there
    iep = os.path.join(L.repo, F_IE)
    if os.path.exists(iep):
        L.unit(F_IE)
        with open(iep, "r", encoding="utf-8", errors="surrogateescape") as f:
            ie = blank_strings(strip_comments(f.read()))
        fm = struct_members(ie, "gsm_sysinfo_freq")
        if fm.get("mask", (None,))[0] != "uint8_t":
            raise AnalysisError("struct gsm_sysinfo_freq.mask is not uint8_t in %s" % F_IE)
    pre = ["#include <stdint.h>", "#define EINVAL 22", "#define LOGP(ss, level, fmt, args...) ((void)(0, ## args))"]
    pre += mac_lines + util_macros(L, "\n".join([body] + [h[1] for h in helpers]))[0]
    pre += ["struct gsm_sysinfo_freq { uint8_t mask; } __attribute__ ((packed));",
            "struct gsm48_sysinfo { struct gsm_sysinfo_freq freq[%d]; uint16_t hopping[%d]; uint8_t hopp_len; };" % (
                ext["freq"], ext["hopping"])]
    # helper definitions stand between the prelude and the decoder; real line = slice line + offset of the function
    offs, at = {}, len(pre) + 1
    origin = {}
    for (hn, ht, hfirst, hrel) in helpers:
        offs[hn] = hfirst - at
        origin[hn] = hrel
        pre += ht.split("\n")
        at = len(pre) + 1
    offs[FN] = first - at
    text = "\n".join(pre) + "\n" + body + "\n"
    tmp = tempfile.mkdtemp(prefix="vsa-c20-", dir=os.environ.get("TMPDIR") or "/var/tmp")
    try:
        path = os.path.join(tmp, "slice.c")
        with open(path, "w", encoding="utf-8", errors="surrogateescape") as f:
            f.write(text)
        tu = TU(L.repo, "plain", "slice.c", abs_file=path, L=L)
    finally:
        shutil.rmtree(tmp, ignore_errors=True)
    fd = tu.func(FN)
    L.fn(F_SYS, FN)
    inlined, refused = [], []
    try:
        inlined = inline_helpers(tu, fd, FN, offs, done=inlined)
    except AnalysisError as e:
        # a call that cannot be replaced by the helper's body stays a call: the structural rules then cannot classify
        # the decoder (Dec), and whether there is a verdict is up to the witness fold, which follows calls (decide)
        refused.append(str(e))
    for (hn, site) in inlined:
        L.fn(origin.get(hn, F_SYS), hn)
        L.ob("C20.R0", F_SYS, FN, "helper %s() defined in %s is analysed as part of the decoder: its body replaces the call `%s` "
             "(parameters are never written and stand for side-effect-free arguments, locals renamed apart, the single "
             "trailing return becomes the assignment of the result)" % (hn, os.path.basename(origin.get(hn, F_SYS)), site),
             "inlined", "inlined", True)
    fm = FM(tu, fd, line_off=offs[FN], copies=True)
    return fm, {"SERV": ft["FREQ_TYPE_SERV"], "HOPP": ft["FREQ_TYPE_HOPP"], "NFREQ": ext["freq"],
                "NHOP": ext["hopping"], "hdr": hdr, "inlined": [hn for (hn, _) in inlined], "refused": refused}


# ============================================================ helper inlining
#
# The decoder may delegate a part of its work to a helper function of sysinfo.c (e.g. the construction of the
# ordered cell-allocation list).  The property speaks about what the decoder computes, not about how the code is
# cut into functions, so such a helper is analysed *as part of the decoder*: its definition is put into the slice
# and its body replaces the call on the clang AST.  The replacement is exact under side conditions that are all
# checked (anything else leaves the call where it is and the decoder is then unclassifiable -> ANALYSIS-ERROR):
#   * the call is a statement of its own: `h(...);`, `x = h(...);` or `T x = h(...);`
#   * the helper has no labels / static locals, is not variadic, and returns only through one trailing `return`
#   * its parameters are never written and never have their address taken, so each one stands for its argument;
#     the arguments are free of side effects, calls and memory reads and are not narrowed by the parameter type
#   * its locals are renamed apart from every name of the decoder.

NARROW = ("unsigned char", "char", "signed char", "unsigned short", "short", "_Bool", "bool")


def local_helpers(origins, body, depth=4):
    """functions that `body` calls (transitively, callee before caller) and that have a definition in one of
    `origins` = [(file, source text, names defined there)] -- sysinfo.c itself, and sysinfo.h for the inline
    functions it brings into the translation unit.  -> [(name, text, first line, file)]"""
    out, seen = [], {FN}

    def visit(text, d):
        for m in re.finditer(r"\b([A-Za-z_]\w*)\s*\(", blank_strings(strip_comments(text))):
            nm = m.group(1)
            hit = [(rel, src) for (rel, src, defined) in origins if nm in defined]
            if hit and nm not in seen:
                seen.add(nm)
                if d >= depth:
                    raise AnalysisError("%s(): helper calls nested deeper than %d" % (FN, depth))
                ht, hfirst = slice_function(hit[0][1], nm)
                visit(ht, d + 1)
                out.append((nm, ht, hfirst, hit[0][0]))
    visit(body, 0)
    return out


def _narrowing(e):
    """the top-level implicit conversions of e narrow an integer"""
    n = e
    while n is not None and kind(n) in SKIP:
        if kind(n) == "ImplicitCastExpr" and n.get("castKind") == "IntegralCast":
            t = n.get("type", {})
            if (t.get("desugaredQualType") or t.get("qualType", "")).replace("const ", "").strip() in NARROW:
                src_t = strip(n).get("type", {}) if strip(n) is not None else {}
                if (src_t.get("desugaredQualType") or src_t.get("qualType")) != (t.get("desugaredQualType") or t.get("qualType")):
                    return True
        ks = kids(n)
        n = ks[0] if ks else None
    return False


def _arg_ok(e):
    for x in walk(e):
        k = kind(x)
        if k in ("CallExpr", "StmtExpr", "ArraySubscriptExpr", "MemberExpr", "CompoundAssignOperator", "ConditionalOperator"):
            return False
        if k == "UnaryOperator" and x.get("opcode") in ("++", "--", "*", "&"):
            return False
        if k == "BinaryOperator" and x.get("opcode") in ("=", ","):
            return False
    return not _narrowing(e)


def _stmt_slot(tu, s):
    """(container, index) if AST node s stands where a statement stands"""
    p = tu.parent.get(id(s))
    if p is None:
        return None
    inner = p.get("inner", [])
    idx = [i for i, c in enumerate(inner) if c is s]
    if len(idx) != 1:
        return None
    i, k = idx[0], kind(p)
    if k == "CompoundStmt":
        return p, i
    if k == "IfStmt":
        return (p, i) if i >= len(inner) - (2 if p.get("hasElse") else 1) else None
    if k == "ForStmt":
        return (p, i) if i == 4 else None
    if k == "WhileStmt":
        return (p, i) if i == len(inner) - 1 else None
    if k == "DoStmt":
        return (p, i) if i == 0 else None
    return None


def _reparent(tu, n, parent):
    tu.parent[id(n)] = parent
    for c in n.get("inner", []) or []:
        if isinstance(c, dict) and c:
            _reparent(tu, c, n)


def _ref(decl):
    return {"kind": "DeclRefExpr", "type": decl.get("type", {}), "valueCategory": "lvalue", "_line": decl.get("_line"),
            "referencedDecl": {"id": decl.get("id"), "kind": kind(decl), "name": decl.get("name"), "type": decl.get("type", {})}}


def inline_helpers(tu, fd, fname, offs, rounds=12, done=None):
    """replace statement-level calls of functions that have a body in `tu` by their bodies.
    -> [(helper name, text of the replaced call)] (also appended to `done` as they are made)"""
    done = [] if done is None else done
    keep, serial = [], [0]
    for _ in range(rounds):
        body = tu.body(fd)
        site = None
        for c in walk(body):
            if kind(c) != "CallExpr":
                continue
            cal = strip(kids(c)[0])
            rd = cal.get("referencedDecl", {}) if kind(cal) == "DeclRefExpr" else {}
            h = tu.functions.get(rd.get("name")) if rd.get("kind") == "FunctionDecl" else None
            if h is not None and any(kind(x) == "CompoundStmt" for x in kids(h)):
                site = (c, h)
                break
        if site is None:
            return done
        c, h = site
        hname = h.get("name")
        if h is fd:
            raise AnalysisError("%s() is recursive (unclassifiable)" % fname)

        def refuse(why):
            raise AnalysisError("%s(): call `%s` of the helper %s() cannot be analysed as part of the decoder: %s" % (
                fname, ctext(c)[:60], hname, why))
        # ---- the call site
        top = c
        while tu.parent.get(id(top)) is not None and kind(tu.parent[id(top)]) in SKIP:
            top = tu.parent[id(top)]
        par = tu.parent.get(id(top))
        target, decl_stmt = None, None
        slot = _stmt_slot(tu, top)
        if slot is None and kind(par) == "BinaryOperator" and par.get("opcode") == "=" and kids(par)[1] is top and \
                kind(strip(kids(par)[0])) == "DeclRefExpr" and \
                strip(kids(par)[0]).get("referencedDecl", {}).get("kind") in ("VarDecl", "ParmVarDecl"):
            st = par
            while tu.parent.get(id(st)) is not None and kind(tu.parent[id(st)]) in SKIP:
                st = tu.parent[id(st)]
            slot = _stmt_slot(tu, st)
            target = copy.deepcopy(strip(kids(par)[0]))
            if _narrowing(top):
                slot = None
        elif slot is None and kind(par) == "VarDecl" and kind(tu.parent.get(id(par))) == "DeclStmt":
            ds = tu.parent[id(par)]
            slot = _stmt_slot(tu, ds)
            later = kids(ds)[kids(ds).index(par) + 1:]
            if slot is None or kind(slot[0]) != "CompoundStmt" or any(kids(x) for x in later) or _narrowing(top) or \
                    "[" in par.get("type", {}).get("qualType", ""):
                slot = None
            else:
                target, decl_stmt = _ref(par), ds
        if slot is None:
            refuse("it is not a statement of its own (`h(...);`, `x = h(...);`, `T x = h(...);`)")
        # ---- the helper
        hbody = tu.body(h)
        params = tu.fparams(h)
        args = kids(c)[1:]
        if h.get("variadic") or "..." in h.get("type", {}).get("qualType", "") or len(params) != len(args):
            refuse("variadic helper / argument count")
        pids = {p.get("id"): k for k, p in enumerate(params)}
        rets = [x for x in walk(hbody) if kind(x) == "ReturnStmt"]
        if len(rets) > 1 or (rets and kids(hbody)[-1] is not rets[0]):
            refuse("it returns from more than one place / not at its end")
        rexpr = kids(rets[0])[0] if rets and kids(rets[0]) else None
        if target is not None and rexpr is None:
            refuse("its result is used but it returns no value")
        if rexpr is not None and _narrowing(rexpr):
            refuse("its result is narrowed by the return type")
        for x in walk(hbody):
            k = kind(x)
            if k in ("LabelStmt", "GotoStmt", "AddrLabelExpr"):
                refuse("it uses labels")
            if k == "VarDecl" and x.get("storageClass") in ("static", "extern"):
                refuse("it has a static local")
            tgt = None
            if (k == "BinaryOperator" and x.get("opcode") == "=") or k == "CompoundAssignOperator" or \
                    (k == "UnaryOperator" and x.get("opcode") in ("++", "--", "&")):
                tgt = strip(kids(x)[0])
            if tgt is not None and kind(tgt) == "DeclRefExpr" and tgt.get("referencedDecl", {}).get("id") in pids:
                refuse("it modifies (or takes the address of) its parameter `%s`" % tgt["referencedDecl"].get("name"))
        for a, p in zip(args, params):
            if not _arg_ok(a):
                refuse("argument `%s` for `%s` has side effects, reads memory or is narrowed" % (ctext(a)[:40], p.get("name")))
        # ---- the copy
        taken = {x.get("name") for x in walk(fd) if kind(x) in ("VarDecl", "ParmVarDecl")}
        taken |= {x.get("referencedDecl", {}).get("name") for x in walk(fd) if kind(x) == "DeclRefExpr"}
        serial[0] += 1
        shift = offs.get(hname, 0) - offs.get(fname, 0)
        names, ids = {}, {}

        def fresh(nm):
            cand, k = "%s__%s" % (hname, nm), 1
            while cand in taken:
                k += 1
                cand = "%s__%s%d" % (hname, nm, k)
            taken.add(cand)
            return cand

        def rw(n):
            if not isinstance(n, dict) or not n:
                return n
            if kind(n) == "DeclRefExpr":
                rd = n.get("referencedDecl", {})
                if rd.get("id") in pids and rd.get("kind") == "ParmVarDecl":
                    a = copy.deepcopy(args[pids[rd["id"]]])
                    return {"kind": "ParenExpr", "type": a.get("type", {}), "valueCategory": a.get("valueCategory"),
                            "_line": (n.get("_line") or 0) + shift if n.get("_line") is not None else None, "inner": [a]}
            m = {k: v for k, v in n.items() if k != "inner"}
            if m.get("_line") is not None:
                m["_line"] = m["_line"] + shift
            if kind(n) == "VarDecl":
                names[n.get("id")] = fresh(n.get("name"))
                ids[n.get("id")] = "%s.inl%d" % (n.get("id"), serial[0])
                m["name"], m["id"] = names[n["id"]], ids[n["id"]]
            elif kind(n) == "DeclRefExpr":
                rd = dict(n.get("referencedDecl", {}))
                if rd.get("id") in names:
                    rd["name"], rd["id"] = names[rd["id"]], ids[rd["id"]]
                m["referencedDecl"] = rd
            if "inner" in n:
                m["inner"] = [rw(x) for x in n["inner"]]
            return m
        stmts = [rw(x) for x in kids(hbody)]        # declarations precede their uses in source order
        if rets:
            last = stmts.pop()
            rv = kids(last)[0] if kids(last) else None
            if target is not None:
                stmts.append({"kind": "BinaryOperator", "opcode": "=", "type": target.get("type", {}), "valueCategory": "prvalue",
                              "_line": c.get("_line"), "inner": [target, rv]})
            elif rv is not None:
                stmts.append(rv)
        block = {"kind": "CompoundStmt", "_line": c.get("_line"), "_inlined": hname, "inner": stmts}
        site_text = ctext(par if target is not None and decl_stmt is None else c)[:80]
        cont, i = slot
        keep.append(cont["inner"][i])
        if decl_stmt is not None:
            par["inner"] = [x for x in par.get("inner", []) if x is not top]
            par.pop("init", None)
            cont["inner"][i:i + 1] = [decl_stmt, block]
        else:
            cont["inner"][i] = block
        _reparent(tu, fd, tu.parent.get(id(fd)))
        done.append((hname, site_text))
    raise AnalysisError("%s(): more than %d helper calls to inline" % (fname, rounds))


def inline_private(tu, fd, fname, names, offs, rounds=8):
    """Callers of the decoder may be cut into a public parser and private helpers (`static`, only ever called): the helper
    that holds the decoder call then works on the caller's message cursor through `&cursor` / `&remaining`.  What the
    property says about the call (octets readable, state awaited) is a fact about the parser as a whole, so the body of
    such a helper replaces its call on the AST of the caller.  Exact under these conditions (anything else: AnalysisError):
      * the call is a statement of its own: `h(...);`, `x = h(...);`, `T x = h(...);` (no narrowing of the result)
      * the helper is not variadic / recursive, has no static locals and does not take the address of a label
      * its parameters are never written and never have their address taken; a parameter whose argument is `&v`
        (v a scalar local of the caller) is used only as `*p`, which becomes v; every other argument is free of side effects,
        calls and memory reads, is not narrowed by the parameter type and names no variable whose address is taken
      * locals and labels are renamed apart; `return e;` becomes `result = e; goto <end of the body>;`.
    -> [(helper name, text of the replaced call)]"""
    done, serial = [], 0
    for _ in range(rounds):
        site = None
        for c in walk(tu.body(fd)):
            if kind(c) != "CallExpr":
                continue
            cal = strip(kids(c)[0])
            rd = cal.get("referencedDecl", {}) if kind(cal) == "DeclRefExpr" else {}
            h = tu.functions.get(rd.get("name")) if rd.get("kind") == "FunctionDecl" and rd.get("name") in names else None
            if h is not None and any(kind(x) == "CompoundStmt" for x in kids(h)):
                site = (c, h)
                break
        if site is None:
            return done
        c, h = site
        hname = h.get("name")

        def refuse(why):
            raise AnalysisError("%s(): call `%s` of the private helper %s() cannot be analysed as part of its caller: %s" % (
                fname, ctext(c)[:60], hname, why))
        if h is fd or any(kind(x) == "DeclRefExpr" and x.get("referencedDecl", {}).get("name") == hname for x in walk(tu.body(h))):
            refuse("recursion")
        # ---- the call site
        top = c
        while tu.parent.get(id(top)) is not None and kind(tu.parent[id(top)]) in SKIP:
            top = tu.parent[id(top)]
        par = tu.parent.get(id(top))
        target, decl_stmt = None, None
        slot = _stmt_slot(tu, top)
        if slot is None and kind(par) == "BinaryOperator" and par.get("opcode") == "=" and kids(par)[1] is top and \
                kind(strip(kids(par)[0])) == "DeclRefExpr" and strip(kids(par)[0]).get("referencedDecl", {}).get("kind") == "VarDecl":
            st = par
            while tu.parent.get(id(st)) is not None and kind(tu.parent[id(st)]) in SKIP:
                st = tu.parent[id(st)]
            slot = None if _narrowing(top) else _stmt_slot(tu, st)
            target = copy.deepcopy(strip(kids(par)[0]))
        elif slot is None and kind(par) == "VarDecl" and kind(tu.parent.get(id(par))) == "DeclStmt":
            ds = tu.parent[id(par)]
            slot = _stmt_slot(tu, ds)
            later = kids(ds)[kids(ds).index(par) + 1:]
            if slot is None or kind(slot[0]) != "CompoundStmt" or any(kids(x) for x in later) or _narrowing(top) or \
                    "[" in par.get("type", {}).get("qualType", ""):
                slot = None
            else:
                target, decl_stmt = _ref(par), ds
        if slot is None:
            refuse("it is not a statement of its own (`h(...);`, `x = h(...);`, `T x = h(...);`)")
        # ---- the helper
        hbody = tu.body(h)
        params = tu.fparams(h)
        args = kids(c)[1:]
        if h.get("variadic") or "..." in h.get("type", {}).get("qualType", "") or len(params) != len(args):
            refuse("variadic helper / argument count")
        pids = {p.get("id"): k for k, p in enumerate(params)}
        own = {x.get("id"): x for x in walk(tu.body(fd)) if kind(x) == "VarDecl"}
        byref = {}
        for k, a in enumerate(args):
            e = strip(a, casts=True)
            v = strip(kids(e)[0]) if kind(e) == "UnaryOperator" and e.get("opcode") == "&" else None
            if v is not None:
                vd = own.get(v.get("referencedDecl", {}).get("id")) if kind(v) == "DeclRefExpr" else None
                if vd is None or "[" in vd.get("type", {}).get("qualType", "") or vd.get("storageClass") in ("static", "extern"):
                    refuse("argument `%s` is not the address of a scalar local of the caller" % ctext(a)[:40])
                if "".join(params[k].get("type", {}).get("qualType", "").split()) != "".join(
                        (vd.get("type", {}).get("qualType", "") + "*").split()):
                    refuse("parameter `%s` is not a pointer to the type of `%s`" % (params[k].get("name"), vd.get("name")))
                byref[k] = v
            elif not _arg_ok(a):
                refuse("argument `%s` for `%s` has side effects, reads memory or is narrowed" % (ctext(a)[:40], params[k].get("name")))
        refd = {v.get("referencedDecl", {}).get("id") for v in byref.values()}
        if len(refd) != len(byref):
            refuse("one local is handed over by address twice")
        taken_addr = {strip(kids(x)[0]).get("referencedDecl", {}).get("id") for x in walk(tu.body(fd))
                      if kind(x) == "UnaryOperator" and x.get("opcode") == "&" and kind(strip(kids(x)[0])) == "DeclRefExpr"}
        for k, a in enumerate(args):
            if k not in byref and any(kind(x) == "DeclRefExpr" and x.get("referencedDecl", {}).get("id") in refd | taken_addr
                                      for x in walk(a)):
                refuse("argument `%s` names a variable whose address is taken in the caller (the helper may change it)" % ctext(a)[:40])
        derefs = {}
        for x in walk(hbody):
            k = kind(x)
            if k == "AddrLabelExpr":
                refuse("it takes the address of a label")
            if k == "VarDecl" and x.get("storageClass") in ("static", "extern"):
                refuse("it has a static local")
            tgt = None
            if (k == "BinaryOperator" and x.get("opcode") == "=") or k == "CompoundAssignOperator" or \
                    (k == "UnaryOperator" and x.get("opcode") in ("++", "--", "&")):
                tgt = strip(kids(x)[0])
            if tgt is not None and kind(tgt) == "DeclRefExpr" and tgt.get("referencedDecl", {}).get("id") in pids:
                refuse("it modifies (or takes the address of) its parameter `%s`" % tgt["referencedDecl"].get("name"))
            if k == "UnaryOperator" and x.get("opcode") == "*":
                t = strip(kids(x)[0])
                if kind(t) == "DeclRefExpr" and pids.get(t.get("referencedDecl", {}).get("id")) in byref:
                    derefs[id(t)] = x
        for x in walk(hbody):
            if kind(x) == "DeclRefExpr" and pids.get(x.get("referencedDecl", {}).get("id")) in byref and id(x) not in derefs:
                refuse("its parameter `%s` (the address of a local of the caller) is used otherwise than as `*%s`" % (
                    x["referencedDecl"].get("name"), x["referencedDecl"].get("name")))
        whole = {}          # id of the node `*p` -> the caller's local it stands for
        for x in walk(hbody):
            if kind(x) == "DeclRefExpr" and id(x) in derefs:
                whole[id(derefs[id(x)])] = byref[pids[x["referencedDecl"]["id"]]]
        rets = [x for x in walk(hbody) if kind(x) == "ReturnStmt"]
        for r in rets:
            if kids(r) and _narrowing(kids(r)[0]):
                refuse("its result is narrowed by the return type")
            if target is not None and not kids(r):
                refuse("its result is used but it returns no value")
        # ---- the copy
        taken = {x.get("name") for x in walk(fd) if kind(x) in ("VarDecl", "ParmVarDecl", "LabelStmt")}
        taken |= {x.get("referencedDecl", {}).get("name") for x in walk(fd) if kind(x) == "DeclRefExpr"}
        serial += 1
        shift = offs.get(hname, 0) - offs.get(fname, 0)
        names_, ids = {}, {}
        end_id, jumps = "%s.end%d" % (h.get("id"), serial), [0]
        last = kids(hbody)[-1] if kids(hbody) else None

        def fresh(nm):
            cand, k = "%s__%s" % (hname, nm), 1
            while cand in taken:
                k += 1
                cand = "%s__%s%d" % (hname, nm, k)
            taken.add(cand)
            return cand
        for x in walk(hbody):           # labels may be used before they are declared
            if kind(x) == "LabelStmt":
                names_[x.get("declId")] = fresh(x.get("name"))
                ids[x.get("declId")] = "%s.inl%d" % (x.get("declId"), serial)

        def sh(l):
            return l + shift if l is not None else None

        def rw(n):
            if not isinstance(n, dict) or not n:
                return n
            if id(n) in whole:
                a = copy.deepcopy(whole[id(n)])
                return {"kind": "ParenExpr", "type": a.get("type", {}), "valueCategory": "lvalue", "_line": sh(n.get("_line")), "inner": [a]}
            if kind(n) == "DeclRefExpr":
                rd = n.get("referencedDecl", {})
                if rd.get("id") in pids and rd.get("kind") == "ParmVarDecl":
                    a = copy.deepcopy(args[pids[rd["id"]]])
                    return {"kind": "ParenExpr", "type": a.get("type", {}), "valueCategory": a.get("valueCategory"),
                            "_line": sh(n.get("_line")), "inner": [a]}
            if kind(n) == "ReturnStmt":
                out = []
                rv = rw(kids(n)[0]) if kids(n) else None
                if target is not None:
                    out.append({"kind": "BinaryOperator", "opcode": "=", "type": target.get("type", {}), "valueCategory": "prvalue",
                                "_line": sh(n.get("_line")), "inner": [copy.deepcopy(target), rv]})
                elif rv is not None:
                    out.append(rv)
                if n is not last:
                    jumps[0] += 1
                    out.append({"kind": "GotoStmt", "targetLabelDeclId": end_id, "_line": sh(n.get("_line"))})
                return {"kind": "CompoundStmt", "_line": sh(n.get("_line")), "inner": out}
            m = {k: v for k, v in n.items() if k != "inner"}
            if m.get("_line") is not None:
                m["_line"] = sh(m["_line"])
            if kind(n) == "VarDecl":
                names_[n.get("id")] = fresh(n.get("name"))
                ids[n.get("id")] = "%s.inl%d" % (n.get("id"), serial)
                m["name"], m["id"] = names_[n["id"]], ids[n["id"]]
            elif kind(n) == "LabelStmt":
                m["name"], m["declId"] = names_[n.get("declId")], ids[n.get("declId")]
            elif kind(n) == "GotoStmt":
                if n.get("targetLabelDeclId") not in ids:
                    refuse("it jumps to a label that is not its own")
                m["targetLabelDeclId"] = ids[n.get("targetLabelDeclId")]
            elif kind(n) == "DeclRefExpr":
                rd = dict(n.get("referencedDecl", {}))
                if rd.get("id") in names_:
                    rd["name"], rd["id"] = names_[rd["id"]], ids[rd["id"]]
                m["referencedDecl"] = rd
            if "inner" in n:
                m["inner"] = [rw(x) for x in n["inner"]]
            return m
        stmts = [rw(x) for x in kids(hbody)]        # declarations precede their uses in source order
        if jumps[0]:
            stmts.append({"kind": "LabelStmt", "declId": end_id, "name": fresh("end"), "_line": c.get("_line"),
                          "inner": [{"kind": "NullStmt", "_line": c.get("_line")}]})
        block = {"kind": "CompoundStmt", "_line": c.get("_line"), "_inlined": hname, "inner": stmts}
        site_text = ctext(par if target is not None and decl_stmt is None else c)[:80]
        cont, i = slot
        if decl_stmt is not None:
            par["inner"] = [x for x in par.get("inner", []) if x is not top]
            par.pop("init", None)
            cont["inner"][i:i + 1] = [decl_stmt, block]
        else:
            cont["inner"][i] = block
        _reparent(tu, fd, tu.parent.get(id(fd)))
        done.append((hname, site_text))
    raise AnalysisError("%s(): more than %d calls of private helpers to inline" % (fname, rounds))


class Dec:
    """Roles of the decoder's parameters and the classified memory accesses."""

    def __init__(self, L, fm, K):
        self.L, self.fm, self.K = L, fm, K
        self.pending = []       # what the structural rules could not classify (see decide)
        want = [("struct gsm_sysinfo_freq *", "frequency table"), ("const uint8_t *", "bitmap"), ("uint8_t", "length"),
                ("uint16_t *", "output list"), ("uint8_t *", "output length"), ("int", "si4 flag")]
        if len(fm.params) != 6:
            raise AnalysisError("%s() signature changed: %d parameters" % (FN, len(fm.params)))
        for p, (t, what) in zip(fm.params, want):
            if " ".join(fm.ptype[p].split()) != t:
                raise AnalysisError("%s(): parameter `%s` (%s) has type %r, expected %r" % (FN, p, what, fm.ptype[p], t))
        self.P_FREQ, self.P_MA, self.P_LEN, self.P_HOP, self.P_CNT, self.P_SI4 = fm.params
        for p in fm.params:
            if not fm.never_written(p):
                raise AnalysisError("%s(): parameter `%s` is modified or has its address taken (unclassifiable)" % (FN, p))
        if fm.calls:
            raise AnalysisError("%s(): unexpected call `%s` in the decoder (not modelled)" % (FN, ctext(fm.calls[0][1])[:50]))
        if fm.addr:
            raise AnalysisError("%s(): address of `%s` taken (aliasing not modelled)" % (FN, sorted(fm.addr)[0]))
        # scratch arrays
        self.arrays = {}        # name -> extent term
        self.preset = {}        # brace-initialised scratch array -> set of initial element values | None (not constant)
        for nm, vd in fm.locals.items():
            qt = vd.get("type", {}).get("qualType", "")
            m = re.fullmatch(r"(.+?)\s*\[(.*)\]", qt)
            if m:
                if "[" in m.group(1):
                    raise AnalysisError("multi-dimensional local `%s`" % nm)
                self.arrays[nm] = (m.group(1).strip(), m.group(2).strip(), self.extent_term(m.group(2)))
                ini = [w for w in fm.writes.get(nm, []) if w.how == "init"]
                if ini:
                    # brace initialiser: the values an element holds before it is filled (omitted elements are zero)
                    iv = fm.tu.init_value(ini[0].val)
                    flat = iv if isinstance(iv, list) else [iv]
                    self.preset[nm] = {0} | {0 if x is None else x for x in flat} if all(
                        x is None or (isinstance(x, int) and not isinstance(x, bool)) for x in flat) else None
            elif "*" in qt:
                raise AnalysisError("%s(): local pointer `%s` (aliasing not modelled)" % (FN, nm))
        # every use of a pointer parameter / array is a subscript base or a deref
        self.acc = []           # (cfg node, ArraySubscriptExpr | deref, base name, index expr | None)
        for base in [self.P_FREQ, self.P_MA, self.P_HOP, self.P_CNT] + sorted(self.arrays):
            for (n, a) in fm.uses.get(base, []):
                p = fm.parent(a)
                if base in self.arrays and self.const_extent(base) and self.in_sizeof(a):
                    # operand of sizeof on a fixed-size array: unevaluated, no element is accessed; the value
                    # comes from the declared type (TU.fold)
                    continue
                if kind(p) == "ArraySubscriptExpr" and strip(kids(p)[0]) is a:
                    self.acc.append((n, p, base, kids(p)[1]))
                elif kind(p) == "UnaryOperator" and p.get("opcode") == "*" and base == self.P_CNT:
                    self.acc.append((n, p, base, None))
                else:
                    raise AnalysisError("%s(): `%s` is used other than as `%s[...]`%s: `%s` (unclassifiable)" % (
                        FN, base, base, " / `*%s`" % base if base == self.P_CNT else "", ctext(p)[:60]))
        # classify memory writes by base
        self.stores = {}
        for w in fm.memwrites:
            lv = strip(kids(w.ast)[0])
            b = self.base_of(lv)
            if b is None:
                raise AnalysisError("%s(): store `%s` has an unclassifiable target" % (FN, ctext(w.ast)[:60]))
            self.stores.setdefault(b, []).append((w, lv))
        fm.lenparam = self.P_LEN
        self.derive()

    def derive(self):
        """Bitmap-derived bounds.  A scalar local that is computed from the bitmap in front of the loops (e.g. the
        index of the highest set bit + 1) and then bounds a loop or guards an index is not a function of the length
        alone, so the finite domain (length x loop range) of the rules does not cover it.  It is *evaluated*: the
        statements in front of the first statement behind its last write are executed in the typed word model
        (WordEval) for every accepted length v and every case of the exhaustive split of the v-octet bitmaps by their
        highest set bit -- p = -1 (all clear) or bit index p set, higher ones clear, lower ones symbolic.  When the
        local has a concrete value in every case it joins the domain: the rules quantify over (length, value) pairs
        that some bitmap produces, and C20.R4 relates the value to the case it came from (no set bit at or above
        the walk's bound).  It stands for its final value only at CFG nodes from which no write of it can be
        reached (FM.dvars); elsewhere it stays an unknown local.  Anything that does not evaluate stays unknown too."""
        fm = self.fm
        body = fm.tu.body(fm.f)
        if any(kind(x) in ("GotoStmt", "LabelStmt", "IndirectGotoStmt") for x in walk(body)):
            return
        top = kids(body)
        wn = [written_names(st) for st in top]
        todo = {}
        for b, vd in fm.locals.items():
            ws = fm.writes.get(b, [])
            if not ws or b in fm.addr or b in fm.dups or b in fm.LW.env or int_type(fm.tu, vd.get("type", {})) is None:
                continue
            wids = {w.node.id for w in ws}
            frozen = {n.id for n in fm.g.nodes if n.id not in wids and not (fm.reach_succ(n) & wids)}
            # it matters only where a condition reads its final value (directly or through a frozen copy of it)
            names = {b} | {c for c, src in fm.copy_of.items() if b in src}
            for c, cws in fm.writes.items():            # locals that are assigned a value computed from it
                for w in cws:
                    if w.val is not None and any(kind(x) == "DeclRefExpr" and x.get("referencedDecl", {}).get("name") == b
                                                 for x in walk(w.val)):
                        names.add(c)
            if not any(un.kind == "cond" and un.id in frozen for nm in names for (un, _) in fm.uses.get(nm, [])):
                continue
            k = len(top)
            while k > 0 and b not in wn[k - 1]:
                k -= 1
            if k == 0 or k == len(top):
                continue
            tn = fm.g.by_ast.get(id(top[k]))
            if tn is None:
                tn = next((fm.g.by_ast[id(x)] for x in walk(top[k]) if id(x) in fm.g.by_ast), None)
            if tn is None:
                continue
            todo[b] = (top[k], frozen, tn)
        if not todo:
            return
        vals = {}           # b -> ({(v, p): n}, frozen node ids)
        for b, (target, frozen, tn) in sorted(todo.items()):
            got = {}
            dom = fm.domain(tn, self.P_LEN)
            if len(dom) > 2 * MAXLEN + 1:
                continue                    # the length gate is gone (C20.R1 reports that): nothing to enumerate
            try:
                for v in dom:
                    for p in range(-1, 8 * v):
                        env = WordEval(fm, self, v, top=p).state_at(target)
                        w = env.get(b) if env is not None else None
                        if w is None or not w.concrete():
                            # not reached, or a value that hangs on more than the highest set bit (a list counter
                            # that depends on the frequency table, a loop-carried index): not this kind of bound
                            raise CannotFold("`%s` has no definite value for a %d-octet bitmap with highest bit %d" % (b, v, p))
                        got[(v, p)] = w.value()
            except (CannotFold, Undefined, Uncertain):
                continue
            vals[b] = (got, frozen)
        if not vals:
            return
        for b, (got, frozen) in vals.items():
            fm.derived[b] = frozen
        lens = sorted({v for (got, _) in vals.values() for (v, _) in got})
        for v in lens:
            rows = []
            for p in range(-1, 8 * v):
                if all((v, p) in got for (got, _) in vals.values()):
                    rows.append((p, {b: got[(v, p)] for b, (got, _) in vals.items()}))
            fm.dcases[v] = rows
        fm._gcache = {}

    def extent_term(self, txt):
        """term of an array-extent text as clang prints it in the type"""
        toks = c_tokens(txt)
        if toks is None:
            raise AnalysisError("array extent `%s` outside the expression vocabulary" % txt)
        fm = self.fm

        def leaf(t):
            if t in fm.LW.env:
                return fm.LW.env[t]
            if t in fm.invariant:
                return X.V(t)
            if t in fm.tu.enums:
                return X.C(fm.tu.enums[t])
            raise AnalysisError("array extent `%s` depends on `%s`, which is not invariant" % (txt, t))
        return cexpr_term(toks, leaf, txt)

    def base_of(self, lv):
        """role of an lvalue: array / pointer-parameter name it goes through"""
        lv = strip(lv)
        k = kind(lv)
        if k == "ArraySubscriptExpr":
            b = strip(kids(lv)[0])
            if kind(b) == "DeclRefExpr":
                return b.get("referencedDecl", {}).get("name")
            return None
        if k == "MemberExpr":
            return self.base_of(kids(lv)[0])
        if k == "UnaryOperator" and lv.get("opcode") == "*":
            b = strip(kids(lv)[0])
            if kind(b) == "DeclRefExpr":
                return b.get("referencedDecl", {}).get("name")
        return None

    def is_cnt(self, e):
        """`*hopp_len` / `hopp_len[0]`"""
        e = strip(e)
        if kind(e) == "UnaryOperator" and e.get("opcode") == "*":
            b = strip(kids(e)[0])
            return kind(b) == "DeclRefExpr" and b.get("referencedDecl", {}).get("name") == self.P_CNT
        if kind(e) == "ArraySubscriptExpr":
            b = strip(kids(e)[0])
            return kind(b) == "DeclRefExpr" and b.get("referencedDecl", {}).get("name") == self.P_CNT and \
                self.fm.tu.fold(kids(e)[1]) == 0
        return False

    def const_extent(self, arr):
        return X.is_c(self.arrays[arr][2])

    def in_sizeof(self, a):
        cur = self.fm.tu.parent.get(id(a))
        while cur is not None and cur is not self.fm.f and kind(cur) not in ("CompoundStmt", "IfStmt", "ForStmt", "WhileStmt", "DoStmt"):
            if kind(cur) == "UnaryExprOrTypeTraitExpr":
                return cur.get("name") == "sizeof"
            cur = self.fm.tu.parent.get(id(cur))
        return False

    def is_cnt_term(self, t):
        """lowered `*hopp_len` / `hopp_len[0]`"""
        return t == ("call", "deref", X.V(self.P_CNT)) or t == ("idx", X.V(self.P_CNT), X.C(0))

    def ext_value(self, base, lenv):
        """extent of a buffer for bitmap length lenv"""
        if base in self.arrays:
            return ev(self.arrays[base][2], {self.P_LEN: lenv})
        if base == self.P_FREQ:
            return self.K["NFREQ"]
        if base == self.P_MA:
            return lenv
        if base == self.P_HOP:
            return MAXHOP
        if base == self.P_CNT:
            return 1
        raise AnalysisError("no extent model for `%s`" % base)

    def ext_text(self, base):
        if base in self.arrays:
            return "%s[%s]" % (base, self.arrays[base][1])
        return {self.P_FREQ: "%s[%d]" % (base, self.K["NFREQ"]), self.P_MA: "%s[%s]" % (base, self.P_LEN),
                self.P_HOP: "%s[%d]" % (base, MAXHOP)}.get(base, base)

    # -- index proofs -----------------------------------------------------------
    def nonneg(self, var):
        for w in self.fm.writes.get(var, []):
            if w.how in ("init", "assign"):
                v = self.fm.tu.fold(w.val)
                if v is None or v < 0:
                    return False
            elif w.how == "inc":
                if w.delta != 1:
                    return False
            elif w.how == "aug+=":
                v = self.fm.tu.fold(w.val)
                if v is None or v < 0:
                    return False
            else:
                return False
        return True

    def index_var(self, idx):
        """(variable, term) of an index expression; post-increment yields the old value"""
        e = strip(idx)
        if kind(e) == "UnaryOperator" and e.get("opcode") in ("++", "--"):
            t = strip(kids(e)[0])
            if kind(t) == "DeclRefExpr" and e.get("isPostfix") and e.get("opcode") == "++":
                nm = t.get("referencedDecl", {}).get("name")
                return nm, X.V(nm)
            raise AnalysisError("index `%s` has a side effect the rule cannot classify" % ctext(e))
        t = self.fm.lower(e)
        return (t[1] if t[0] == "v" else None), t

    def by_guard(self, node, var, base):
        """dominating guard `var < T` with T <= extent, var not changed between guard and use"""
        fm = self.fm
        dom = fm.domain(node, self.P_LEN)
        for (bt, atom) in fm.upper_bounds(fm.atoms(node), var):
            if not free_vars(bt) <= fm.inv_at(atom[2]) & fm.inv_at(node):
                continue
            try:
                if not all(ev(bt, vals) <= self.ext_value(base, v) for v in dom for vals in fm.vals(node, v)):
                    continue
            except Unknown:
                continue
            c = atom[2]
            stable = all(node.id not in fm.reach_succ(w.node, skip=[c]) for w in fm.writes.get(var, []))
            if stable and self.nonneg(var):
                return "guard `%s < %s`" % (var, X.show(bt))
        return None

    def counter_facts(self, node, var):
        """the store at `node` appends through counter `var`: starts at 0,
        +1 exactly at the store.  -> increment node or None"""
        fm = self.fm
        incs = [w for w in fm.writes.get(var, []) if w.how not in ("init", "assign")]
        rest = [w for w in fm.writes.get(var, []) if w.how in ("init", "assign")]
        if len(incs) != 1:
            return None
        w = incs[0]
        step = w.delta if w.how == "inc" else (fm.tu.fold(w.val) if w.how == "aug+=" else None)
        if step != 1:
            return None
        if w.node is not node:
            if len(node.succ) != 1 or node.succ[0][0] is not w.node:
                return None
        for r in rest:
            if fm.tu.fold(r.val) != 0 or r.node.id in fm.reach_succ(node):
                return None
        defs = fm.reaching_defs(var, node)
        if any(d == "undef" for d in defs):
            return None
        return w.node

    def by_counter(self, node, var, base):
        """exit-on-equality counter rule.  -> (ok, text)"""
        fm = self.fm
        incn = self.counter_facts(node, var)
        if incn is None:
            return None, "`%s` is not a counter that starts at 0 and is incremented only at the store" % var
        v = X.V(var)
        dom = fm.domain(node, self.P_LEN)
        why = "no exit test on `%s` after the store" % var
        for c in fm.g.nodes:
            if c.kind != "cond" or not getattr(c, "cond", None):
                continue
            for lab in (True, False):
                for (t, p) in fm.edge_atoms(c, lab):
                    e = None
                    if t[0] == "cmp" and t[1] == "==" and p and v in (t[2], t[3]):
                        e = t[3] if t[2] == v else t[2]
                        form = "%s == %s" % (var, X.show(e))
                    elif t[0] == "cmp" and t[1] == "<" and not p and t[2] == v:
                        e = t[3]
                        form = "%s >= %s" % (var, X.show(e))
                    if e is None or not free_vars(e) <= fm.inv_at(c) & fm.inv_at(node):
                        continue
                    # once the test holds the store is never reached again
                    if node.id in fm.reach_succ(c, label=lab):
                        continue
                    if node.id in fm.reach_succ(incn, skip=[c]):
                        why = "exit test `%s` is not passed on every path back to the store" % form
                        continue
                    bad = None
                    for (lv, vals) in [(lv, vals) for lv in dom for vals in fm.vals(node, lv)]:
                        try:
                            ex = ev(e, vals)
                        except Unknown:
                            bad = "exit bound `%s` cannot be folded" % X.show(e)
                            break
                        if ex < 1:
                            bad = "exit test `%s` can never hold for %s (bound %d): the counter runs past the array" % (
                                form, fmt_pt(vals), ex)
                            break
                        if ex > self.ext_value(base, lv):
                            bad = "exit bound %d exceeds the extent %d for %s" % (ex, self.ext_value(base, lv), fmt_pt(vals))
                            break
                    if bad:
                        why = bad
                        continue
                    return True, "counter rule: `%s` starts at 0, +1 at the store, exit on `%s`, bound >= 1" % (var, form)
        return False, why

    def prove_index(self, node, base, idx):
        """-> (ok, found text)"""
        fm = self.fm
        var, term = self.index_var(idx)
        fv = free_vars(term)
        if "<mem>" not in fv:
            try:
                n = 0
                for pt in fm.points(node, self.P_LEN, fv | {self.P_LEN}):
                    n += 1
                    val, ext = ev(term, pt), self.ext_value(base, pt[self.P_LEN])
                    if not 0 <= val < ext:
                        return False, "index %d outside extent %d at %s" % (val, ext, fmt_pt(pt))
                return True, "folded over %d points of the domain" % n
            except Unknown:
                pass
        if var is not None and var in fm.locals:
            g = self.by_guard(node, var, base)
            if g:
                return True, g
            ok, txt = self.by_counter(node, var, base)
            if not ok:
                # guarded, but by a bound that is not a function of the length (a value computed at run time):
                # the rule cannot evaluate it -- no verdict
                odd = [bt for (bt, _) in fm.upper_bounds(fm.atoms(node), var) if not free_vars(bt) <= fm.inv_at(node)]
                if odd:
                    raise AnalysisError("%s(): index `%s` of `%s` is guarded by `%s < %s`, a bound the rule cannot evaluate" % (
                        FN, var, base, var, X.show(odd[0])[:50]))
            if ok is None:
                # neither a dominating guard nor a counter the rule knows how to follow (an index that is advanced inside a
                # conditional expression, by a computed amount, ...): the access may well be guarded in a way the CFG does
                # not show -- no verdict (the witness fold interprets it)
                raise AnalysisError("%s(): index `%s` of `%s` has no dominating guard `%s < extent` and %s" % (FN, var, base, var, txt))
            return ok, txt if ok else "no dominating guard `%s < extent`; %s" % (var, txt)
        if term[0] == "idx" and term[1][0] == "v" and term[1][1] in self.arrays:
            return self.prove_element(node, term, base)
        raise AnalysisError("%s(): index `%s` of `%s` has a shape the rule cannot bound" % (FN, ctext(idx)[:50], base))

    def fill_counter(self, arr):
        """counter variable through which `arr` is filled consecutively from 0"""
        st = self.stores.get(arr, [])
        if len(st) != 1:
            return None
        w, lv = st[0]
        var, _ = self.index_var(kids(lv)[1])
        if var is None or self.counter_facts(w.node, var) is None or w.how != "assign":
            return None
        return var

    def prove_element(self, node, term, base):
        """index is an element arr[k] of a scratch list: initialised (k < fill counter) and every stored value in range"""
        fm = self.fm
        arr, sub = term[1][1], term[2]
        cnt = self.fill_counter(arr)
        if cnt is None:
            return False, "`%s` is not filled through a single 0-based counter" % arr
        if sub[0] != "v":
            raise AnalysisError("element index `%s` unclassifiable" % X.show(sub))
        init = any(a[0] == ("cmp", "<", sub, X.V(cnt)) and a[1] and fm.stable(node, a, [sub[1], cnt]) for a in fm.atoms(node))
        pre = None
        if not init:
            if arr not in self.preset:
                return False, "`%s[%s]` is read without the guard `%s < %s` (entry may be unset)" % (arr, sub[1], sub[1], cnt)
            pre = self.preset[arr]      # an entry that is not filled holds the value of the brace initialiser
            if pre is None:
                raise AnalysisError("%s(): `%s[%s]` may hold an initial value the rule cannot fold" % (FN, arr, sub[1]))
        w, lv = self.stores[arr][0]
        vt = fm.lower(w.val)
        try:
            if pre and (base == self.P_MA or base in self.arrays):
                raise AnalysisError("%s(): a brace-initialised entry `%s[%s]` indexes `%s` (extent depends on the length)" % (
                    FN, arr, sub[1], base))
            for val in sorted(pre or ()):
                for lenv in (MAXLEN,):
                    if not 0 <= val < self.ext_value(base, lenv):
                        return False, "initial value %d of `%s` outside extent %d" % (val, arr, self.ext_value(base, lenv))
            for pt in fm.points(w.node, self.P_LEN, free_vars(vt) | {self.P_LEN}):
                val, ext = ev(vt, pt), self.ext_value(base, pt[self.P_LEN])
                if not 0 <= val < ext:
                    return False, "stored value %d outside extent %d at %s" % (val, ext, fmt_pt(pt))
        except Unknown as u:
            raise AnalysisError("value stored into `%s` depends on `%s`: cannot be bounded" % (arr, u))
        if pre is not None:
            return True, "`%s[%s]` is a stored value or an initial value (%s), all in range" % (arr, sub[1], brief(sorted(pre)))
        return True, "`%s[%s]` is set (guard `%s < %s`) and every stored value is in range" % (arr, sub[1], sub[1], cnt)


def fmt_pt(pt):
    return ", ".join("%s = %d" % kv for kv in sorted(pt.items()))


# ================================================================ decoder rules

def mask_test(t):
    """term `x & mask` -> (x, mask) | None"""
    if t[0] == "mod" and X.is_c(t[2]) and t[2][1] > 0 and t[2][1] & (t[2][1] - 1) == 0:
        return t[1], t[2][1] - 1
    if t[0] == "&":
        cs = [a for a in t[1:] if X.is_c(a)]
        rest = [a for a in t[1:] if not X.is_c(a)]
        if len(cs) == 1 and len(rest) == 1:
            return rest[0], cs[0][1]
    return None


def is_freq_mask(t, freq):
    """lowered `freq[k].mask`"""
    return t[0] == "call" and t[1] == ".mask" and len(t) == 3 and t[2][0] == "idx" and t[2][1] == X.V(freq)


def r1_gate(L, D):
    fm = D.fm
    R = "C20.R1"
    seen = 0
    for (n, a, base, idx) in D.acc:
        if idx is None:
            continue
        dom = fm.domain(n, D.P_LEN)
        bad = [v for v in dom if v > MAXLEN]
        seen += 1
        L.ob(R, F_SYS, FN, "array access `%s` is reachable only for %s <= %d (length gate dominates it)" % (ctext(a), D.P_LEN, MAXLEN),
             "%s in 0..%d" % (D.P_LEN, MAXLEN), "%s in %s" % (D.P_LEN, span(dom)), not bad, fm.line(a))
    L.floor(R, "array accesses in the decoder", seen, 6)
    gates, rejected = 0, set()
    rets = [n for n in fm.g.nodes if n.kind == "stmt" and kind(n.ast) == "ReturnStmt"]
    if fm.g.exit.pred and any(kind(p.ast) != "ReturnStmt" for (p, _) in fm.g.exit.pred if p.ast is not None):
        raise AnalysisError("%s() can fall off its end without a return value" % FN)
    for r in rets:
        ks = kids(r.ast)
        val = fm.tu.fold(ks[0]) if ks else None
        if val is None:
            raise AnalysisError("%s(): return value `%s` is not a constant (unclassifiable)" % (FN, ctext(ks[0]) if ks else ""))
        dom = fm.domain(r, D.P_LEN)
        if val < 0:
            ok = all(v > MAXLEN for v in dom)
            gates += 1
            rejected |= set(dom)
            L.ob(R, F_SYS, FN, "error return (%d): only bitmaps longer than %d octets are rejected" % (val, MAXLEN),
                 "%s in %d..255" % (D.P_LEN, MAXLEN + 1), "%s in %s" % (D.P_LEN, span(dom)), ok, fm.line(r.ast))
        else:
            ok = all(v <= MAXLEN for v in dom)
            L.ob(R, F_SYS, FN, "success return (%d) is not reachable with a bitmap longer than %d octets" % (val, MAXLEN),
                 "%s in 0..%d" % (D.P_LEN, MAXLEN), "%s in %s" % (D.P_LEN, span(dom)), ok, fm.line(r.ast))
    rej = sorted(rejected)
    L.ob(R, F_SYS, FN, "every bitmap longer than %d octets is rejected with an error (the length gate)" % MAXLEN,
         "%s in %d..255 -> negative return" % (D.P_LEN, MAXLEN + 1), "%d error returns, taken for %s in %s" % (gates, D.P_LEN, span(rej)),
         rej == list(range(MAXLEN + 1, 256)))
    L.floor(R, "return statements of the decoder", len(rets), 1)


def span(dom):
    if not dom:
        return "{}"
    if dom == list(range(dom[0], dom[-1] + 1)):
        return "%d..%d" % (dom[0], dom[-1])
    return "{%s}" % ",".join(str(v) for v in dom[:12])


def r2_output(L, D):
    fm = D.fm
    R = "C20.R2"
    st = D.stores.get(D.P_HOP, [])
    L.floor(R, "stores through `%s`" % D.P_HOP, len(st), 1)
    cw = D.stores.get(D.P_CNT, [])
    resets = [w for (w, lv) in cw if w.how == "assign" and fm.tu.fold(w.val) == 0]
    incs = []
    stores = []
    for (w, lv) in st:
        idx = strip(kids(lv)[1])
        form = None
        incn = None
        if w.how == "assign" and kind(idx) == "UnaryOperator" and idx.get("opcode") == "++" and idx.get("isPostfix") \
                and D.is_cnt(kids(idx)[0]):
            form, incn = "post-increment", w.node
        elif w.how == "assign" and D.is_cnt(idx) and len(w.node.succ) == 1:
            nx = w.node.succ[0][0]
            for (w2, lv2) in cw:
                if w2.node is nx and D.is_cnt(lv2) and ((w2.how == "inc" and w2.delta == 1) or
                                                         (w2.how == "aug+=" and fm.tu.fold(w2.val) == 1)):
                    form, incn = "store, then +1", nx
        L.ob(R, F_SYS, FN, "store through `%s` appends at the output counter: `%s`" % (D.P_HOP, ctext(lv)),
             "%s[(*%s)++]" % (D.P_HOP, D.P_CNT), "%s (%s)" % (ctext(lv), form or "index is not the counter"), form is not None, fm.line(w.ast))
        if form:
            incs.append(incn)
            stores.append((w, lv, incn))
    # every write of the counter is a reset or the increment of a store
    for (w, lv) in cw:
        if not D.is_cnt(lv):
            raise AnalysisError("%s(): store `%s` through `%s` is not `*%s`" % (FN, ctext(w.ast)[:40], D.P_CNT, D.P_CNT))
        okw = w in resets or any(w.node is i for i in incs)
        L.ob(R, F_SYS, FN, "write of the output counter `%s` is the reset to 0 or the increment of the store" % ctext(w.ast)[:50],
             "`*%s = 0` | increment at the store" % D.P_CNT, ctext(w.ast)[:50], okw, fm.line(w.ast))
    for (w, lv, incn) in stores:
        dom_reset = [r for r in resets if fm.g.dominates(r.node, w.node) and r.node is not w.node]
        late = [r for r in resets if r.node.id in fm.reach_succ(w.node)]
        L.ob(R, F_SYS, FN, "output counter is reset to 0 before the decoding loop and never inside / after it",
             "a reset dominates the store, none follows it", "%d dominating, %d reachable from the store" % (len(dom_reset), len(late)),
             bool(dom_reset) and not late, fm.line(w.ast))
        loops = fm.enclosing_loops(w.node)
        if len(loops) != 1:
            L.ob(R, F_SYS, FN, "the store through `%s` is inside exactly one counted loop" % D.P_HOP, 1, len(loops), False, fm.line(w.ast))
            continue
        li = fm.loop(loops[0])
        once = w.node.id not in fm.reach_succ(w.node, skip=[li["cond"]])
        dom = fm.domain(w.node, D.P_LEN)
        trips = max([max(0, fm.loop_hi(li, vals) - li["init"]) for v in dom for vals in fm.vals(li["cond"], v)] or [0])
        L.ob(R, F_SYS, FN, "at most %d entries are stored: loop `%s` runs at most %d times, one store per iteration" % (MAXHOP, li["var"], MAXHOP),
             "<= %d stores" % MAXHOP, "<= %d stores%s" % (trips, "" if once else ", store repeatable within an iteration"),
             once and trips <= MAXHOP, fm.line(w.ast))
    # a successful return always leaves a defined list length
    for r in [n for n in fm.g.nodes if n.kind == "stmt" and kind(n.ast) == "ReturnStmt"]:
        ks = kids(r.ast)
        val = fm.tu.fold(ks[0]) if ks else None
        if val is not None and val >= 0:
            okr = bool(resets) and fm.g.must_pass(fm.g.entry, [x.node for x in resets], to=r)
            L.ob(R, F_SYS, FN, "every successful return has set the output length (reset of `*%s` on every path)" % D.P_CNT,
                 "reset on every path", "reset on every path" if okr else "a path without the reset exists", okr, fm.line(r.ast))


def r3_scratch(L, D):
    fm = D.fm
    R = "C20.R3"
    nst = 0
    for arr in sorted(D.arrays):
        typ, etxt, eterm = D.arrays[arr]
        dn = fm.g.node_of(fm.locals[arr])
        dom = fm.domain(dn, D.P_LEN)
        bad = None
        for v in dom:
            try:
                if ev(eterm, {D.P_LEN: v}) < 1:
                    bad = v
                    break
            except Unknown as u:
                raise AnalysisError("extent of `%s[%s]` depends on `%s`" % (arr, etxt, u))
        L.ob(R, F_SYS, FN, "scratch list `%s[%s]`: the array extent is at least 1 wherever the declaration is reached (a zero-length VLA is undefined)" % (arr, etxt),
             "extent >= 1", "extent >= 1" if bad is None else "extent %d for %s = %d" % (ev(eterm, {D.P_LEN: bad}), D.P_LEN, bad),
             bad is None, fm.line(fm.locals[arr]))
        for (n, a, base, idx) in D.acc:
            if base != arr:
                continue
            par = fm.parent(a)
            is_store = any(strip(kids(w.ast)[0]) is a for (w, lv) in D.stores.get(arr, []))
            ok, txt = D.prove_index(n, arr, idx)
            if is_store:
                nst += 1
                L.ob(R, F_SYS, FN, "store `%s` stays inside the scratch list `%s[%s]` (dominating guard `index < extent`, or exit-on-equality counter with extent >= 1)" % (
                    ctext(a), arr, etxt), "0 <= index < extent on every path", txt, ok, fm.line(a))
            else:
                L.ob(R, F_SYS, FN, "read `%s` stays inside the scratch list `%s[%s]`" % (ctext(a), arr, etxt),
                     "0 <= index < extent on every path", txt, ok, fm.line(a))
    L.floor(R, "stores into the scratch list", nst, 1)


def r4_order(L, D):
    fm = D.fm
    R = "C20.R4"
    N = D.K["NFREQ"]
    fills = [(a, D.stores[a]) for a in sorted(D.arrays) if D.stores.get(a)]
    if len(fills) != 1 or len(fills[0][1]) != 1:
        raise AnalysisError("%s(): expected one scratch list with one store, found %s" % (
            FN, [(a, len(s)) for a, s in fills]))
    arr, [(w, lv)] = fills[0]
    S = w.node
    cnt = D.fill_counter(arr)
    loops = fm.enclosing_loops(S)
    if len(loops) != 1:
        raise AnalysisError("%s(): the scratch store is not inside exactly one loop" % FN)
    li = fm.loop(loops[0])
    v = li["var"]
    if li["skips"]:
        raise AnalysisError("%s(): the candidate loop jumps over candidates (`%s`): which candidates are left out is not modelled" % (
            FN, ctext(li["skips"][0]["ast"])[:40]))
    if not fm.pre_increment(li, S):
        raise AnalysisError("%s(): `%s` is incremented before the scratch store" % (FN, v))
    his = {fm.loop_hi(li, vals) for x in fm.domain(S, D.P_LEN) for vals in fm.vals(li["cond"], x)} or {li["init"]}
    vt = fm.lower(w.val)
    if not free_vars(vt) <= {v}:
        raise AnalysisError("%s(): value stored into the scratch list `%s` is not a function of the loop variable" % (FN, X.show(vt)))
    want = list(range(1, N)) + [0]
    if len(his) == 1:
        hi = his.pop()
        seq = [ev(vt, {v: x}) for x in range(li["init"], min(hi, li["init"] + 4 * N))]
        found = "%d candidates: %s" % (len(seq), brief(seq))
    else:
        seq, found = None, "candidate range depends on %s" % D.P_LEN
    L.ob(R, F_SYS, FN, "the cell-allocation list is built from the candidates ARFCN 1, 2, ..., %d, 0 in this order" % (N - 1),
         "%d candidates: %s" % (len(want), brief(want)), found, seq == want, fm.line(w.ast))
    full = [x for (x, ats) in exits_of(fm, li) if not any(
        cnt and ((t[0] == "cmp" and t[1] == "==" and X.V(cnt) in t[2:] and p) or
                 (t[0] == "cmp" and t[1] == "<" and t[2] == X.V(cnt) and not p)) for (t, p) in ats)]
    L.ob(R, F_SYS, FN, "the candidate loop is left early only when the list is full (a test of the fill counter)",
         "no other early exit", "no other early exit" if not full else "exit at line %s" % fm.nline(full[0]), not full, fm.line(li["stmt"]))
    # FREQ_TYPE_SERV filter on the very ARFCN that is stored
    filt, other_tests = [], []
    known = {v, cnt, D.P_LEN, D.P_SI4} | fm.inv_at(S)
    for (t, p, c, l) in fm.atoms(S):
        mt = mask_test(t)
        if mt and is_freq_mask(mt[0], D.P_FREQ):
            filt.append((mt[0][2][2], mt[1], p))
        elif any(is_freq_mask(x, D.P_FREQ) for x in subterms(t)):
            filt.append((None, None, p))            # a test of the frequency entry that is not a test of one flag
        elif not free_vars(t) <= known:
            other_tests.append(t)
    if not filt and other_tests:
        # the store is conditional on something the rule cannot read (a value kept in memory, an opaque call):
        # it may well be the serving-cell test in a shape that is not recognised -- no verdict
        raise AnalysisError("%s(): the condition `%s` under which a candidate enters the list cannot be classified" % (
            FN, X.show(other_tests[0])[:80]))
    L.ob(R, F_SYS, FN, "a candidate enters the list only if its frequency entry has FREQ_TYPE_SERV (0x%02x)" % D.K["SERV"],
         [("mask & 0x%02x" % D.K["SERV"], True)], [("mask & 0x%02x" % m if m is not None else "mask (not a flag test)", p) for (_, m, p) in filt],
         len(filt) == 1 and filt[0][1] == D.K["SERV"] and filt[0][2], fm.line(w.ast))
    for (it, m, p) in filt[:1]:
        if it is None:
            continue
        if not free_vars(it) <= {v}:
            raise AnalysisError("%s(): filter index `%s` unclassifiable" % (FN, X.show(it)))
        bad = None
        if seq is not None:
            for x in range(li["init"], li["init"] + len(seq)):
                if ev(it, {v: x}) != ev(vt, {v: x}):
                    bad = "%s = %d: tests ARFCN %d, stores %d" % (v, x, ev(it, {v: x}), ev(vt, {v: x}))
                    break
        L.ob(R, F_SYS, FN, "the serving-cell flag is tested on the ARFCN that is stored", "same ARFCN", bad or "same ARFCN",
             bad is None, fm.line(w.ast))
    # ---- bitmap walk
    hs = D.stores.get(D.P_HOP, [])
    for (hw, hlv) in hs:
        H = hw.node
        loops = fm.enclosing_loops(H)
        if len(loops) != 1:
            raise AnalysisError("%s(): the output store is not inside exactly one loop" % FN)
        l2 = fm.loop(loops[0])
        b = l2["var"]
        if not fm.pre_increment(l2, H):
            raise AnalysisError("%s(): `%s` is incremented before the output store" % (FN, b))
        dom = fm.domain(H, D.P_LEN)
        badr = None
        dbound = sorted(fm.dvars(l2["cond"]) & set().union(*[free_vars(t) for t in l2["bounds"]]))
        for x in dom:
            # one case per highest set bit p of the x-octet bitmaps (p = -1: none).  The walk must reach p and must not
            # go past the last bit.  A bound that is a function of the length alone is the same in every case, so it
            # is 8*x; a bound derived from the bitmap may stop behind the highest set bit of *that* bitmap: every
            # index it leaves out is clear.
            for (p, vals) in fm.cases(l2["cond"], x):
                hi = fm.loop_hi(l2, vals)
                if l2["init"] != 0 or hi > 8 * x or (p >= 0 and hi <= p):
                    badr = "%s = %d%s: bits %d..%d" % (D.P_LEN, x, ", highest set bit %d (%s)" % (
                        p, ", ".join("%s = %d" % (k, vals[k]) for k in dbound)) if dbound else "", l2["init"], hi - 1)
                    break
            if badr:
                break
        goodr = "bits 0..8*%s-1" % D.P_LEN
        if dbound and not badr:
            goodr += " (up to `%s`, evaluated for every length and every highest set bit: no index at or above it is set)" % ", ".join(dbound)
        L.ob(R, F_SYS, FN, "the walk covers exactly the bit indices 0 .. 8*%s-1 in ascending order" % D.P_LEN,
             "bits 0..8*%s-1" % D.P_LEN, badr or goodr, badr is None, fm.line(l2["stmt"]))
        matoms, unread = [], []
        for (t, p, c, l) in fm.atoms(H):
            if X.V(D.P_MA) not in subterms(t):
                if not free_vars(t) <= {b, cnt, D.P_LEN, D.P_SI4} | fm.inv_at(H):
                    unread.append(t)
                continue
            if c.id not in l2["region"]:
                # a test of the bitmap in front of the walk is not a condition of one emission but a restriction of the
                # bitmaps that get here at all (an early return for an all-clear octet, the end of a search for the highest
                # set bit): what is emitted for those is not what the per-index rules below decide -- no verdict
                raise AnalysisError("%s(): the bitmap walk is reached only for bitmaps that passed the test `%s` in front of it "
                                    "(not modelled by the per-index rules)" % (FN, X.show(t)[:60]))
            matoms.append((t, p))
        word = not matoms and bool(unread)
        K1 = "an entry is emitted only under exactly one test of a bitmap bit, taken when the bit is set"
        K2 = "bit index i of the bitmap is octet %s-1-(i>>3), bit i&7 (TS 44.018 10.5.2.21: LSB of the last octet first)" % D.P_LEN
        W2 = "octet %s-1-(i>>3), bit i&7" % D.P_LEN
        shapes = [bit_shape(t, D.P_MA) for (t, p) in matoms]
        if word:
            # no condition reads the bitmap octets themselves, but one reads something the octet model cannot follow
            # (a word into which the octets were collected): decided by typed evaluation on the clang AST (C20.R7);
            # what cannot be evaluated there gives no verdict, and the other obligations of the walk are still checked
            L.stage(soft(D.pending, r7_word), L, D, H, l2, cnt, fm.line(hw.ast))
        elif len(matoms) <= 1 and None not in shapes:
            tests = [sh + (p,) for sh, (t, p) in zip(shapes, matoms)]
            L.ob(R, F_SYS, FN, K1,
                 "1 test, bit set", "%d tests%s" % (len(tests), "" if all(x[2] for x in tests) else ", taken when the bit is clear"),
                 len(tests) == 1 and tests[0][2], fm.line(hw.ast))
            for (bt, kt, p) in tests[:1]:
                bad = None
                try:
                    for pt in fm.points(H, D.P_LEN, free_vars(bt) | free_vars(kt) | {D.P_LEN, b}):
                        n, i = pt[D.P_LEN], pt[b]
                        if ev(bt, pt) != n - 1 - (i >> 3) or ev(kt, pt) != (i & 7):
                            bad = "bit index %d of a %d-octet bitmap is read from octet %d, bit %d" % (i, n, ev(bt, pt), ev(kt, pt))
                            break
                except Unknown as u:
                    raise AnalysisError("%s(): bitmap test depends on `%s`" % (FN, u))
                L.ob(R, F_SYS, FN, K2, W2, bad or W2, bad is None, fm.line(hw.ast))
        else:
            # several conditions over the bitmap dominate the store (`rest != 0` and `rest & 1`), or one in a shape that is
            # not `octet & (1 << k)`: what they test together is decided by folding them over the finite domain
            # (every accepted length x every bit index x every value of the octets they read)
            bad, n = emit_fold(fm, D, H, b, matoms)
            L.ob(R, F_SYS, FN, K1, "1 test, bit set",
                 "%d conditions over the bitmap, together %s" % (len(matoms), "true exactly when one bit is set" if bad is None else "not the test of one bit"),
                 bad is None, fm.line(hw.ast))
            L.ob(R, F_SYS, FN, K2, W2, bad or W2, bad is None, fm.line(hw.ast))
        # ---- forward jumps of the walk: only indices whose bit is clear may be left out
        for sk in l2["skips"]:
            okj, txt, exact = skip_fold(fm, D, l2, sk)
            if not okj and not exact:
                raise AnalysisError("%s(): the walk jumps over bit indices (`%s`) under a condition the rule cannot read completely" % (
                    FN, ctext(sk["ast"])[:40]))
            L.ob(R, F_SYS, FN, "a bit index the walk jumps over (`%s`) is never flagged: under every bitmap that takes the jump the bits of "
                 "the indices left out are clear, so no flagged channel is dropped and nothing is emitted out of order" % ctext(sk["ast"])[:40],
                 "every skipped bit is clear", txt, okj, fm.line(sk["ast"]))
        capacity_ob(L, D, li, l2, cnt, H, dom)
        val = fm.lower(hw.val)
        L.ob(R, F_SYS, FN, "the emitted channel is the list entry with the index of the tested bit", "%s[%s]" % (arr, b), X.show(val),
             val == ("idx", X.V(arr), X.V(b)), fm.line(hw.ast))
        # index past the list ends decoding
        lim = [(a[2], a[3]) for a in fm.atoms(H) if cnt and a[0] == ("cmp", "<", X.V(b), X.V(cnt)) and a[1] and fm.stable(H, a, [b, cnt])]
        if not lim:
            # the emitted index is bounded by a value the rule cannot relate to the number of list entries
            # (neither the fill counter nor a constant of the call): it may be that number -- no verdict
            odd = [bt for (bt, _) in fm.upper_bounds(fm.atoms(H), b) if not free_vars(bt) <= fm.inv_at(H) | {b, cnt}]
            if odd:
                raise AnalysisError("%s(): the bound `%s` on the index of an emitted entry cannot be related to the number of list entries" % (
                    FN, X.show(odd[0])[:60]))
        ends = bool(lim) and all(H.id not in fm.reach_succ(c, label=(not l)) for (c, l) in lim)
        other = []
        h_atoms = {(a[0], a[1]) for a in fm.atoms(H)}

        def by_content(ats):
            """a condition that reads an element of a brace-initialised scratch list (an unfilled slot has a defined value there,
            so "past the list" may be told by the content): what it means depends on the values stored -- not an index test"""
            return [t for (t, _) in ats if any(u[0] == "idx" and u[1][0] == "v" and u[1][1] in D.preset for u in subterms(t))]
        if not lim and by_content(h_atoms):
            raise AnalysisError("%s(): the emission is guarded by the content of the brace-initialised list (`%s`), not by an index "
                                "below the number of entries" % (FN, X.show(by_content(h_atoms)[0])[:50]))
        for (x, ats) in exits_of(fm, l2):
            if any(t == ("cmp", "<", X.V(b), X.V(cnt)) and not p for (t, p) in ats):
                continue
            if not lim and by_content(ats):
                raise AnalysisError("%s(): the bitmap walk is left on the content of the brace-initialised list (`%s`)" % (
                    FN, X.show(by_content(ats)[0])[:50]))
            caps = cap_tests(ats, D.is_cnt_term, {D.P_LEN} | fm.dvars(x))
            verdict = cap_exit(fm, D, l2, dom, caps) if caps else None
            if verdict is None or (not verdict[0] and not all(a in h_atoms or is_cap(a, D.is_cnt_term) for a in ats)):
                other.append(x)         # not a test of the output counter, or one whose other conditions are not those of the store
                continue
            L.ob(R, F_SYS, FN, "an exit of the bitmap walk on the output counter (`%s`) can be taken only when no bit is left to walk, "
                 "so no flagged channel is dropped (the list may hold as many entries as bits are walked, <= %d)" % (
                     ctext(x.cond) if getattr(x, "cond", None) else "exit", MAXHOP),
                 "exit threshold >= number of walked bits (8*%s) for every accepted %s" % (D.P_LEN, D.P_LEN), verdict[1], verdict[0],
                 fm.nline(x))
        L.ob(R, F_SYS, FN, "the bitmap walk is left early only for a set bit past the list", "no other early exit",
             "no other early exit" if not other else "exit at line %s" % fm.nline(other[0]), not other, fm.line(l2["stmt"]))
        frozen = cnt is not None and not any(wc.node.id in fm.reach_succ(l2["cond"]) for wc in fm.writes.get(cnt, []))
        L.ob(R, F_SYS, FN, "a set bit whose index is not below the number of list entries ends decoding: nothing is emitted for it or after it",
             "store guarded by `%s < %s`, the other branch never reaches the store" % (b, cnt),
             "guarded" if lim else "no guard `%s < %s` on the store" % (b, cnt), ends and frozen, fm.line(hw.ast))
    # ---- bitmap and frequency-table accesses
    nf = 0
    for (n, a, base, idx) in D.acc:
        if base == D.P_MA:
            ok, txt = D.prove_index(n, base, idx)
            L.ob(R, F_SYS, FN, "bitmap read `%s` stays inside the %s octets of the bitmap" % (ctext(a), D.P_LEN),
                 "0 <= index < %s" % D.P_LEN, txt, ok, fm.line(a))
        elif base == D.P_FREQ:
            nf += 1
            ok, txt = D.prove_index(n, base, idx)
            L.ob(R, F_SYS, FN, "frequency-table access `%s` has an index below %d" % (ctext(a), N), "0 <= index < %d" % N, txt, ok, fm.line(a))
    L.floor(R, "frequency-table accesses", nf, 3)
    for (fw, flv) in D.stores.get(D.P_FREQ, []):
        under = any(t == X.V(D.P_SI4) and p for (t, p, _, _) in fm.atoms(fw.node))
        mval = fm.tu.fold(fw.val) if fw.val is not None else None
        member = kind(strip(flv)) == "MemberExpr" and strip(flv).get("name") == "mask"
        only_hopp = member and mval is not None and (
            (fw.how == "aug|=" and mval == D.K["HOPP"]) or (fw.how == "aug&=" and (mval & 0xff) == (~D.K["HOPP"] & 0xff)))
        L.ob(R, F_SYS, FN, "write to the frequency table `%s` only maintains FREQ_TYPE_HOPP and only for SI4" % ctext(fw.ast)[:60],
             "|= / &= ~ FREQ_TYPE_HOPP under `%s`" % D.P_SI4,
             "%s%s" % (ctext(fw.ast)[:60], "" if under else " (not under `%s`)" % D.P_SI4), under and only_hopp, fm.line(fw.ast))


def capacity_ob(L, D, li, l2, cnt, H, dom):
    """C20.R4, clause "contains exactly the cell-allocation channels whose bit is set": the walk emits list entry i for a
    set bit i below the number of list entries and ends decoding at a set bit that is not below it.  That number is
    min(cell channels, capacity), the capacity being the value of the fill counter at which the candidate loop stops
    (a bound on the counter in the loop test, an exit once it reaches a threshold).  With a capacity below the number
    of walked bits a cell allocation of more channels than that loses every channel from index `capacity` on: the set
    bit there ends decoding although the channel exists.  So capacity >= walked bits must hold -- decided for every
    accepted length and, when a bound is derived from the bitmap, for every highest set bit.  A threshold the rule
    cannot evaluate gives no verdict."""
    fm = D.fm
    if cnt is None:
        return
    C = X.V(cnt)
    inv = {D.P_LEN} | (fm.dvars(li["cond"]) & fm.dvars(l2["cond"]))
    caps = []           # (threshold term, source text)
    for (bt, a) in fm.upper_bounds(fm.edge_atoms(li["cond"], True), cnt):
        caps.append((bt, "loop test `%s < %s`" % (cnt, X.show(bt)), []))
    for (x, ats) in exits_of(fm, li):
        for (t, rel) in cap_tests(ats, lambda z: z == C, free_vars_all(ats)):
            side = [(a, q) for (a, q) in ats if C not in subterms(a) and free_vars(a) <= inv]
            caps.append((t, "exit `%s`" % (ctext(x.cond)[:40] if getattr(x, "cond", None) else "on the fill counter"), side))
    worst, n = None, 0
    for v in dom:
        for (p, vals) in fm.cases(l2["cond"], v):
            walked = max(0, fm.loop_hi(l2, vals) - l2["init"])
            for (t, src, side) in caps:
                if not free_vars(t) <= inv:
                    raise AnalysisError("%s(): the number of entries at which the cell-allocation list is closed (%s) cannot be related "
                                        "to the number of walked bits" % (FN, src))
                try:
                    if not all(bool(ev(a, vals)) == q for (a, q) in side):
                        continue            # this exit cannot be taken for this length
                    T = ev(t, vals)
                except Unknown:
                    raise AnalysisError("%s(): the number of entries at which the cell-allocation list is closed (%s) cannot be folded" % (FN, src))
                n += 1
                if T < walked and (worst is None or walked - T > worst[1] - worst[0]):
                    worst = (max(T, 0), walked, v, src)
    want = "capacity >= walked bits for every accepted %s" % D.P_LEN
    found = want if worst is None else (
        "%s closes the list at %d entries while %d bits are walked for %s = %d: with a cell allocation of more than %d channels "
        "the set bit at index %d ends decoding although its channel exists" % (worst[3], worst[0], worst[1], D.P_LEN, worst[2], worst[0], worst[0]))
    L.ob("C20.R4", F_SYS, FN, "the cell-allocation list can take as many entries as bits are walked (it is closed early only at a "
         "fill count that no walked bit index reaches), so a set bit ends decoding only when it points beyond the cell allocation",
         want, found, worst is None, fm.line(li["stmt"]))


def free_vars_all(ats):
    out = set()
    for (t, _) in ats:
        out |= free_vars(t)
    return out


def abstract_reads(t, ma, vals):
    """replace every read `ma[B]` in t by the variable `@k`, k the value of B at the point `vals`
    -> (term, {k}); Unknown if an octet index is not a function of the point"""
    ks = set()

    def rec(x):
        if x[0] == "idx" and x[1] == X.V(ma):
            k = ev(x[2], vals)
            ks.add(k)
            return X.V("@%d" % k)
        if x[0] in ("c", "v"):
            return x
        return tuple(rec(y) if isinstance(y, tuple) else y for y in x)
    return rec(t), ks


def ma_models(D, atoms, vals, cache):
    """the bitmaps under which every atom holds at the point `vals`, restricted to the octets the atoms read:
    (sorted octet indices, [tuple of octet values]).  Exhaustive over 0..255 per octet.
    Unknown: an atom reads something else than the bitmap / too many octets / an octet outside the bitmap."""
    ts, ks = [], set()
    for (t, p) in atoms:
        t2, k2 = abstract_reads(t, D.P_MA, vals)
        ts.append((t2, p))
        ks |= k2
    ks = sorted(ks)
    if len(ks) > 2:
        raise Unknown("more than two bitmap octets in one condition")
    if any(not 0 <= k < vals[D.P_LEN] for k in ks):
        raise Unknown("octet outside the bitmap")
    names = ["@%d" % k for k in ks]
    # the atoms depend on the point only through the variables they mention
    fv = set()
    for (t2, _) in ts:
        fv |= free_vars(t2)
    key = (tuple(ts), tuple(sorted((k, v) for k, v in vals.items() if k in fv)))
    if key not in cache:
        out = []
        combos = [()]
        for _ in ks:
            combos = [c + (o,) for c in combos for o in range(256)]
        for combo in combos:
            env = dict(vals)
            env.update(zip(names, combo))
            if all(bool(ev(t2, env)) == p for (t2, p) in ts):
                out.append(combo)
        cache[key] = out
    return ks, cache[key]


def fmt_bitmap(n, octets):
    return "%d-octet bitmap with %s" % (n, ", ".join("octet %d = 0x%02x" % kv for kv in sorted(octets.items())) or "any octets")


def emit_fold(fm, D, H, b, matoms):
    """C20.R4, clause "contains exactly the cell-allocation channels whose bit is set": the conditions over the
    bitmap that dominate the output store hold, together, exactly when bit i&7 of octet len-1-(i>>3) is set --
    for every accepted length, every bit index of the walk and every value of the octets they read.
    -> (counterexample text | None, number of points)"""
    cache, n = {}, 0
    try:
        for pt in fm.points(H, D.P_LEN, {D.P_LEN, b}):
            v, i = pt[D.P_LEN], pt[b]
            o, bit = v - 1 - (i >> 3), 1 << (i & 7)
            ks, models = ma_models(D, matoms, pt, cache)
            n += 1
            if o not in ks:
                if models:
                    return "bit index %d of a %s: an entry is emitted although octet %d (bit %d clear) is not even read" % (
                        i, fmt_bitmap(v, dict(zip(ks, models[0]))), o, i & 7), n
                return "bit index %d of a %d-octet bitmap: no entry is ever emitted" % (i, v), n
            at = ks.index(o)
            wrong = [m for m in models if not m[at] & bit]
            if wrong:
                return "bit index %d of a %s: an entry is emitted although bit %d of octet %d is clear" % (
                    i, fmt_bitmap(v, dict(zip(ks, wrong[0]))), i & 7, o), n
            if len(models) != 128 * 256 ** (len(ks) - 1):
                return "bit index %d of a %d-octet bitmap: bit %d of octet %d is set but the entry is emitted for %d of the %d bitmaps only" % (
                    i, v, i & 7, o, len(models), 128 * 256 ** (len(ks) - 1)), n
    except Unknown as u:
        raise AnalysisError("%s(): the conditions over the bitmap under which an entry is emitted cannot be folded (%s)" % (FN, u))
    return None, n


def skip_fold(fm, D, li, sk):
    """A forward jump of the bitmap walk (FM.skip_write) leaves out the indices x .. f(x) of the iteration that takes
    it (nothing but the loop increment follows the jump).  Decided for every accepted length, every index x of the
    walk and every value of the octets the guards of the jump read: whenever the guards hold, the bit of every index
    left out is clear.  Guards that do not speak about the bitmap / the index are dropped (the jump is then assumed
    to be taken more often; a counterexample found that way is not exact).
    -> (ok, text, exact)"""
    b = li["var"]
    inside = [(a[0], a[1]) for a in fm.atoms(sk["node"]) if a[2].id in li["region"] and a[2] is not li["cond"]]
    cache, n, exact = {}, 0, True
    for (v, base) in [(v, base) for v in fm.domain(sk["node"], D.P_LEN) for base in fm.vals(li["cond"], v)]:
        hi = fm.loop_hi(li, base)
        for x in range(li["init"], hi):
            vals = dict(base)
            vals[b] = x
            use = []
            for a in inside:
                try:
                    ma_models(D, [a], vals, cache)
                    use.append(a)
                except Unknown:
                    exact = False
            try:
                ks, models = ma_models(D, use, vals, cache)
                last = min(ev(sk["term"], vals), hi - 1)
            except Unknown:
                return False, "the guards of the jump cannot be folded", False
            n += 1
            for j in range(x, last + 1):
                o, bit = v - 1 - (j >> 3), 1 << (j & 7)
                if o < 0:
                    continue
                if o in ks:
                    at = ks.index(o)
                    bad = [dict(zip(ks, m)) for m in models if m[at] & bit]
                else:
                    bad = [dict(list(zip(ks, m)) + [(o, bit)]) for m in models[:1]]
                if bad:
                    return False, "%s: at bit index %d the walk jumps to index %d, leaving out index %d whose bit is set (flagged channel dropped)" % (
                        fmt_bitmap(v, bad[0]), x, last + 1, j), exact
    return True, "every skipped bit is clear (%d index/length pairs x all octet values)" % n, exact


def cap_tests(ats, is_counter, params):
    """atoms of an exit that compare a counter with an invariant bound: [(threshold term, relation)] --
    the exit is taken only while counter >= threshold ('>=') or counter == threshold ('==')"""
    out = []
    for (t, p) in ats:
        if t[0] != "cmp":
            continue
        th = None
        if t[1] == "<" and p and is_counter(t[3]):
            th = (X.add(t[2], X.C(1)), ">=")          # T < counter
        elif t[1] == "<" and not p and is_counter(t[2]):
            th = (t[3], ">=")                          # !(counter < T)
        elif t[1] == "==" and p and (is_counter(t[2]) or is_counter(t[3])):
            th = (t[3] if is_counter(t[2]) else t[2], "==")
        if th is not None and free_vars(th[0]) <= set(params):
            out.append(th)
    return out


def is_cap(atom, is_counter):
    return bool(cap_tests([atom], is_counter, free_vars(atom[0])))


def cap_exit(fm, D, li, dom, caps):
    """C20.R4, clause "the decoded hopping list contains exactly the cell-allocation channels whose bit is set":
    decide an early exit that is taken only when the output counter has reached a threshold T.
    The counter is 0 before the walk and grows by at most 1 per iteration (C20.R2), so in iteration k it is
    <= k before the store and <= k+1 after it: with T >= number of iterations the exit can only be taken
    behind the last store (nothing is lost); with T below it, the allocation that flags the first T+1
    channels of a cell allocation of > T channels loses a channel.  -> (ok, text) | None (cannot fold)"""
    worst = None
    for (v, vals) in [(v, vals) for v in dom for vals in fm.vals(li["cond"], v)]:
        try:
            T = max(ev(t, vals) for (t, _) in caps)
            trips = max(0, fm.loop_hi(li, vals) - li["init"])
        except Unknown:
            return None
        if T < trips and (worst is None or trips - T > worst[1] - worst[0]):
            worst = (T, trips, v)
    if worst is None:
        return True, "threshold >= walked bits for %s in %s" % (D.P_LEN, span(dom))
    T, trips, v = worst
    return False, "exit once the counter is %d while %d bits are walked for %s = %d: flagged channel no. %d is dropped" % (
        max(T, 0), trips, D.P_LEN, v, max(T, 0) + 1)


def exits_of(fm, li):
    """early exits of a loop: [(node, [(term, pol)] tests inside the loop under which the exit edge is taken)]"""
    out = []
    for i in sorted(li["region"]):
        n = fm.g.nodes[i]
        if n is li["cond"]:
            continue
        for (s, lab) in n.succ:
            if s.id in li["region"]:
                continue
            ats = [(a[0], a[1]) for a in fm.atoms(n) if a[2].id in li["region"] and a[2] is not li["cond"]]
            if n.kind == "cond" and isinstance(lab, bool):
                ats += fm.edge_atoms(n, lab)
            out.append((n, ats))
    return out


def brief(seq):
    if len(seq) <= 6:
        return str(seq)
    return "%s, ..., %s" % (", ".join(str(x) for x in seq[:3]), ", ".join(str(x) for x in seq[-2:]))


def subterms(t, out=None):
    out = set() if out is None else out
    out.add(t)
    for x in t[1:]:
        if isinstance(x, tuple):
            subterms(x, out)
    return out


def bit_shape(t, ma):
    """(octet index term, bit number term) of `ma[B] & (1 << K)` or `(ma[B] >> K) & 1`"""
    def is_ma(x):
        return x[0] == "idx" and x[1] == X.V(ma)
    if t[0] == "&" and len(t) == 3:
        for a, b in ((t[1], t[2]), (t[2], t[1])):
            if is_ma(a) and b[0] == "<<" and b[1] == X.C(1):
                return (a[2], b[2])
            if is_ma(a) and X.is_c(b) and b[1] > 0 and b[1] & (b[1] - 1) == 0:
                return (a[2], X.C(b[1].bit_length() - 1))
    if t[0] == "mod" and t[2] == X.C(2):
        a = t[1]
        if a[0] == ">>" and is_ma(a[1]):
            return (a[1][2], a[2])
        if is_ma(a):
            return (a[2], X.C(0))
    return None


# ============================================================ typed word model
#
# The decoder may collect the bitmap octets into one wider integer (`bits = (bits << 8) | ma[k]`, possibly in an
# inline helper of sysinfo.h) and test that word instead of an octet.  Whether such a test selects bit i of the
# bitmap depends on the WIDTHS in which the shifts, masks and conversions are carried out: `bits & (1 << i)` with a
# 32 bit `1` is not the test of bit i of a 64 bit word.  The untyped terms of exprnf cannot express that, so these
# conditions are evaluated on the clang AST itself, in the types clang resolved (every promotion and conversion is an
# explicit ImplicitCastExpr there), over the same finite domain as the other rules -- every accepted length x every
# bit index of the walk.  A value is a vector of bits, each of them 0, 1, unknown, or the OR of a set of bitmap bits
# (octet k, bit j); shifts by a known count, & | ^ with known masks, truncation, zero- and sign-extension move such
# bits around exactly, everything else yields `unknown`.  The word itself is obtained by executing the statements in
# front of the walk for the concrete length (loops with decidable conditions are unrolled; whatever hangs on an
# undecidable condition is forgotten).  No octet value is enumerated and nothing is compiled or run.

class CannotFold(Exception):
    """the word model does not apply / cannot evaluate (-> no verdict)"""


class Undefined(Exception):
    """the evaluation executes a shift whose behaviour is undefined (negative count / count >= width of the left operand)"""


class Uncertain(Exception):
    """a jump (break / continue / return) hangs on a condition that cannot be decided"""


C_INT_TYPES = {"_Bool": (8, False), "bool": (8, False), "char": (8, True), "signed char": (8, True), "unsigned char": (8, False),
               "short": (16, True), "unsigned short": (16, False), "int": (32, True), "unsigned int": (32, False),
               "unsigned": (32, False), "long long": (64, True), "unsigned long long": (64, False),
               "int8_t": (8, True), "uint8_t": (8, False), "int16_t": (16, True), "uint16_t": (16, False),
               "int32_t": (32, True), "uint32_t": (32, False), "int64_t": (64, True), "uint64_t": (64, False)}


def int_type(tu, t):
    """(width, signed) of the integer type clang resolved for a node / declaration (type dict or text); None if it
    is not an integer type.  `long` has the width the parse target gives it (read off the typedef of uint64_t)."""
    if isinstance(t, dict):
        t = t.get("desugaredQualType") or t.get("qualType") or ""
    for _ in range(8):
        t = " ".join(re.sub(r"\b(const|volatile|register)\b", " ", t or "").split())
        if t in C_INT_TYPES:
            return C_INT_TYPES[t]
        if t in ("long", "unsigned long"):
            return (64 if _typedef_text(tu, "uint64_t") == "unsigned long" else 32, t == "long")
        td = tu.typedefs.get(t)
        if td is None:
            return None
        t = td.get("type", {}).get("desugaredQualType") or td.get("type", {}).get("qualType")
    return None


def _typedef_text(tu, name):
    """the type a typedef name stands for in the end"""
    for _ in range(8):
        td = tu.typedefs.get(name)
        if td is None:
            return name
        name = " ".join((td.get("type", {}).get("desugaredQualType") or td.get("type", {}).get("qualType") or "").split())
    return name


def b_and(x, y):
    if x == 0 or y == 0:
        return 0
    if x == 1:
        return y
    if y == 1:
        return x
    if x is None or y is None:
        return None
    return x if x == y else None


def b_or(x, y):
    if x == 1 or y == 1:
        return 1
    if x == 0:
        return y
    if y == 0:
        return x
    if x is None or y is None:
        return None
    return x | y


def b_xor(x, y):
    if x == 0:
        return y
    if y == 0:
        return x
    if x is None or y is None:
        return None
    if x == y:
        return 0            # the same function of the bitmap (1 ^ 1, S ^ S)
    return None


def b_not(x):
    return 1 - x if x in (0, 1) else None


class W:
    """integer value of width w: b[k] is bit k -- 0, 1, None (unknown) or a frozenset of bitmap bits (octet, bit)
    whose OR it is"""
    __slots__ = ("w", "s", "b")

    def __init__(self, w, s, b):
        self.w, self.s, self.b = w, s, b

    @staticmethod
    def const(t, v):
        return W(t[0], t[1], [(v >> k) & 1 for k in range(t[0])])

    @staticmethod
    def top(t):
        t = t or (64, False)
        return W(t[0], t[1], [None] * t[0])

    def concrete(self):
        return all(x is not None and not isinstance(x, frozenset) for x in self.b)

    def value(self):
        v = sum(x << k for k, x in enumerate(self.b))
        return v - (1 << self.w) if self.s and self.b[-1] else v

    def convert(self, t):
        if t is None:
            return W.top(None)
        w, s = t
        if w <= self.w:
            return W(w, s, self.b[:w])
        return W(w, s, self.b + [self.b[-1] if self.s else 0] * (w - self.w))

    def truth(self):
        """0 / 1 / None / frozenset: value != 0"""
        r = 0
        for x in self.b:
            r = b_or(r, x)
            if r == 1:
                return 1
        if any(x is None for x in self.b):
            return None
        return r


def truth_word(t):
    return W(32, True, [t] + [0] * 31)


def written_names(st):
    """locals written (or declared) somewhere inside the statement / expression"""
    out = set()
    for x in walk(st):
        k = kind(x)
        if k == "VarDecl":
            out.add(x.get("name"))
        elif (k == "BinaryOperator" and x.get("opcode") == "=") or k == "CompoundAssignOperator" or \
                (k == "UnaryOperator" and x.get("opcode") in ("++", "--")):
            t = strip(kids(x)[0])
            if kind(t) == "DeclRefExpr":
                out.add(t.get("referencedDecl", {}).get("name"))
    return out


class WordEval:
    """typed evaluation of expressions / execution of statements for one concrete bitmap length"""

    def __init__(self, fm, D, lenv, top=None):
        """top=None: every bitmap bit is symbolic.  Otherwise one case of the exhaustive split of the lenv-octet bitmaps
        by their highest set bit: top = -1 -- no bit is set; top = p >= 0 -- bit index p (TS 44.018 numbering: octet
        lenv-1-(p>>3), bit p&7) is set, every higher index is clear, the lower ones are symbolic."""
        self.fm, self.D, self.tu, self.lenv, self.top = fm, D, fm.tu, lenv, top
        self.steps = 0
        self.vtype = {}
        for nm, vd in fm.locals.items():
            self.vtype[nm] = int_type(self.tu, vd.get("type", {}))
        for p in self.tu.fparams(fm.f):
            self.vtype[p.get("name")] = int_type(self.tu, p.get("type", {}))

    def typ(self, n):
        return int_type(self.tu, n.get("type", {}))

    # -- expressions --------------------------------------------------------------
    def ev(self, e, look, store=None):
        self.steps += 1
        if self.steps > 400000:
            raise CannotFold("evaluation step limit")
        k = kind(e)
        ks = kids(e)
        if k in ("ParenExpr", "ConstantExpr"):
            return self.ev(ks[0], look, store)
        if k in ("ImplicitCastExpr", "CStyleCastExpr"):
            v = self.ev(ks[0], look, store)
            ck = e.get("castKind")
            if ck in ("LValueToRValue", "NoOp", "ToVoid"):
                return v
            if ck == "IntegralCast":
                return v.convert(self.typ(e))
            if ck == "IntegralToBoolean":
                return W(8, False, [v.truth()] + [0] * 7)
            return W.top(self.typ(e))
        if k == "IntegerLiteral":
            return W.const(self.typ(e) or (32, True), int(e.get("value", "0"), 0))
        if k == "CharacterLiteral":
            return W.const(self.typ(e) or (32, True), int(e.get("value", 0)))
        if k == "UnaryExprOrTypeTraitExpr":
            v = self.tu.fold(e)
            return W.top(self.typ(e)) if v is None else W.const(self.typ(e) or (64, False), v)
        if k == "DeclRefExpr":
            rd = e.get("referencedDecl", {})
            if rd.get("kind") == "EnumConstantDecl":
                v = self.tu.fold(e)
                return W.top(self.typ(e)) if v is None else W.const(self.typ(e) or (32, True), v)
            nm = rd.get("name")
            t = self.vtype.get(nm)
            if t is None:
                return W.top(self.typ(e))
            if nm == self.D.P_LEN:
                return W.const(t, self.lenv)
            v = look(nm)
            return W.top(t) if v is None else v.convert(t)
        if k == "ArraySubscriptExpr":
            base = strip(ks[0])
            idx = self.ev(ks[1], look, store)
            if kind(base) == "DeclRefExpr" and base.get("referencedDecl", {}).get("name") == self.D.P_MA and idx.concrete():
                return self.octet(idx.value())
            if kind(base) != "DeclRefExpr":
                self.ev(ks[0], look, store)
            return W.top(self.typ(e))
        if k == "UnaryOperator":
            return self.unary(e, ks[0], look, store)
        if k == "BinaryOperator":
            return self.binary(e, ks[0], ks[1], look, store)
        if k == "CompoundAssignOperator":
            tgt = strip(ks[0])
            r = self.ev(ks[1], look, store)
            if kind(tgt) != "DeclRefExpr":
                self.ev(ks[0], look, store)
                return W.top(self.typ(e))
            nm = tgt.get("referencedDecl", {}).get("name")
            cur = self.ev(ks[0], look, store)
            ct = int_type(self.tu, e.get("computeLHSType", {})) or self.typ(e)
            rt = int_type(self.tu, e.get("computeResultType", {})) or ct
            op = e.get("opcode", "")[:-1]
            v = self.arith(e, op, cur.convert(ct), r if op in ("<<", ">>") else r.convert(ct), rt).convert(self.vtype.get(nm))
            self.put(store, nm, v)
            return v
        if k == "ConditionalOperator":
            c = self.ev(ks[0], look, store).truth()
            if c in (0, 1):
                return self.ev(ks[1] if c else ks[2], look, store)
            a, b = self.ev(ks[1], look, None), self.ev(ks[2], look, None)
            return a if (a.w, a.b) == (b.w, b.b) else W.top(self.typ(e))
        if k in ("CallExpr", "StmtExpr"):
            raise CannotFold("`%s` is a call" % ctext(e)[:40])
        for x in ks:
            if kind(x) and kind(x).endswith(("Expr", "Operator", "Literal")):
                self.ev(x, look, store)
        return W.top(self.typ(e))

    def octet(self, k):
        if not 0 <= k < self.lenv:
            return W.top((8, False))          # the read itself is the business of the bounds obligations
        if self.top is None:
            return W(8, False, [frozenset([(k, j)]) for j in range(8)])
        bits = []
        for j in range(8):
            ix = bit_index(self.lenv, (k, j))
            bits.append(0 if ix > self.top else 1 if ix == self.top else frozenset([(k, j)]))
        return W(8, False, bits)

    def put(self, store, nm, v):
        if store is None:
            raise CannotFold("`%s` is written inside a condition" % nm)
        store(nm, v)

    def unary(self, e, x, look, store):
        op = e.get("opcode")
        t = self.typ(e)
        if op in ("++", "--"):
            tgt = strip(x)
            if kind(tgt) != "DeclRefExpr":
                self.ev(x, look, store)
                return W.top(t)
            nm = tgt.get("referencedDecl", {}).get("name")
            old = self.ev(x, look, store)
            vt = self.vtype.get(nm)
            new = W.const(vt, old.value() + (1 if op == "++" else -1)) if old.concrete() and vt else W.top(vt)
            self.put(store, nm, new)
            return old if e.get("isPostfix") else new
        if op == "*":
            tgt = strip(x)
            if kind(tgt) == "DeclRefExpr" and tgt.get("referencedDecl", {}).get("name") == self.D.P_MA:
                return self.octet(0)
            self.ev(x, look, store)
            return W.top(t)
        if op == "&":
            return W.top(t)
        v = self.ev(x, look, store)
        if op == "!":
            return truth_word(b_not(v.truth()))
        if op == "~":
            return W(v.w, v.s, [b_not(b) for b in v.b])
        if op == "-":
            return W.const(t, -v.value()) if v.concrete() and t else W.top(t)
        if op == "+":
            return v
        return W.top(t)

    def binary(self, e, a, b, look, store):
        op = e.get("opcode")
        t = self.typ(e)
        if op == "=":
            tgt = strip(a)
            v = self.ev(b, look, store)
            if kind(tgt) == "DeclRefExpr" and tgt.get("referencedDecl", {}).get("kind") in ("VarDecl", "ParmVarDecl"):
                nm = tgt.get("referencedDecl", {}).get("name")
                v = v.convert(self.vtype.get(nm)) if self.vtype.get(nm) else W.top(None)
                self.put(store, nm, v)
            else:
                self.ev(a, look, store)
            return v
        if op == ",":
            self.ev(a, look, store)
            return self.ev(b, look, store)
        if op in ("&&", "||"):
            x = self.ev(a, look, store).truth()
            if x in (0, 1) and (x == 1) == (op == "||"):
                return truth_word(x)
            if x in (0, 1):
                return truth_word(self.ev(b, look, store).truth())
            y = self.ev(b, look, None).truth()
            return truth_word(b_or(x, y) if op == "||" else (0 if y == 0 else x if y == 1 or x == y else None))
        l, r = self.ev(a, look, store), self.ev(b, look, store)
        if op in ("==", "!=", "<", ">", "<=", ">="):
            if l.concrete() and r.concrete():
                x, y = l.value(), r.value()
                return truth_word(int({"==": x == y, "!=": x != y, "<": x < y, ">": x > y, "<=": x <= y, ">=": x >= y}[op]))
            if op in ("==", "!="):
                for (p, q) in ((l, r), (r, l)):
                    if q.concrete() and q.value() == 0:
                        return truth_word(p.truth() if op == "!=" else b_not(p.truth()))
            return truth_word(None)
        return self.arith(e, op, l, r, t)

    def arith(self, e, op, l, r, t):
        if t is None:
            return W.top(None)
        if op in ("<<", ">>"):
            l = l.convert(t)
            if not r.concrete():
                return W.top(t)
            n = r.value()
            if n < 0 or n >= l.w:
                raise Undefined("`%s`: a %d bit %s operand is shifted by %d (the C standard leaves a shift by a count >= the width of "
                                "the promoted left operand undefined, 6.5.7)" % (ctext(e)[:60], l.w, "signed" if l.s else "unsigned", n))
            if op == "<<":
                return W(l.w, l.s, ([0] * n + l.b)[:l.w])
            return W(l.w, l.s, l.b[n:] + [l.b[-1] if l.s else 0] * n)
        l, r = l.convert(t), r.convert(t)
        if op in ("&", "|", "^"):
            f = {"&": b_and, "|": b_or, "^": b_xor}[op]
            return W(t[0], t[1], [f(x, y) for x, y in zip(l.b, r.b)])
        if l.concrete() and r.concrete():
            x, y = l.value(), r.value()
            if op in ("/", "%"):
                if y == 0:
                    raise CannotFold("`%s` divides by 0" % ctext(e)[:60])
                q = abs(x) // abs(y) * (1 if (x < 0) == (y < 0) else -1)
                return W.const(t, q if op == "/" else x - q * y)
            if op in ("+", "-", "*"):
                return W.const(t, x + y if op == "+" else x - y if op == "-" else x * y)
        return W.top(t)

    # -- statements in front of the walk ------------------------------------------
    def state_at(self, target):
        """values of the integer locals when `target` (a statement of the function) is reached for this length;
        None when it is not reached"""
        env = {}
        body = self.tu.body(self.fm.f)
        for x in walk(body):
            if kind(x) in ("GotoStmt", "LabelStmt", "IndirectGotoStmt"):
                raise CannotFold("the decoder uses goto")
        r = self.ex(body, env, target, False)
        if r == "reached":
            return env
        if r in ("return", "dead"):
            return None
        raise CannotFold("the bitmap walk is not reached by executing the statements in front of it")

    def has(self, st, target):
        return any(x is target for x in walk(st))

    def havoc(self, st, env):
        for nm in written_names(st):
            env[nm] = None

    def uncertain(self, st, env, inloop):
        ks = {kind(x) for x in walk(st)}
        if inloop and ks & {"BreakStmt", "ContinueStmt", "ReturnStmt"}:
            raise Uncertain()
        self.havoc(st, env)

    def ex(self, st, env, target, inloop):
        self.steps += 1
        if self.steps > 400000:
            raise CannotFold("execution step limit")
        if st is target:
            return "reached"
        k = kind(st)
        look, store = env.get, env.__setitem__
        if k == "CompoundStmt":
            for x in kids(st):
                r = self.ex(x, env, target, inloop)
                if r:
                    return r
            return None
        if k == "DeclStmt":
            for d in kids(st):
                if kind(d) != "VarDecl":
                    continue
                t = self.vtype.get(d.get("name"))
                init = [c for c in kids(d) if kind(c) and not kind(c).endswith("Attr")]
                v = self.ev(init[-1], look, store) if init and t else None
                env[d.get("name")] = v.convert(t) if v is not None else None
            return None
        if k == "IfStmt":
            inner = st["inner"]
            els = st.get("hasElse", False)
            cond, then, other = (inner[-3], inner[-2], inner[-1]) if els else (inner[-2], inner[-1], None)
            inside = self.has(st, target)
            if inside and self.has(cond, target):
                raise CannotFold("the bitmap walk stands inside a condition")
            c = self.ev(cond, look, store).truth()
            if inside:
                br, need = (then, 1) if self.has(then, target) else (other, 0)
                if c in (0, 1) and c != need:
                    return "dead"
                return self.ex(br, env, target, inloop)
            if c in (0, 1):
                br = then if c else other
                return self.ex(br, env, target, inloop) if br else None
            self.uncertain(st, env, inloop)
            return None
        if k in ("ForStmt", "WhileStmt"):
            if self.has(st, target):
                raise CannotFold("the bitmap walk is nested in another loop")
            inner = st["inner"]
            init, cond, inc, body = (inner[0], inner[2], inner[3], inner[4]) if k == "ForStmt" else (None, inner[-2], None, inner[-1])
            try:
                if init:
                    self.ex(init, env, target, inloop)
                for _ in range(5000):
                    c = self.ev(cond, look, store).truth() if cond else 1
                    if c == 0:
                        return None
                    if c != 1:
                        raise Uncertain()
                    r = self.ex(body, env, target, True)
                    if r == "break":
                        return None
                    if r == "return":
                        return r
                    if inc:
                        self.ev(inc, look, store)
                raise Uncertain()
            except Uncertain:
                self.havoc(st, env)
                return None
        if k == "ReturnStmt":
            for x in kids(st):
                self.ev(x, look, store)
            return "return"
        if k == "BreakStmt":
            return "break"
        if k == "ContinueStmt":
            return "continue"
        if k == "NullStmt":
            return None
        if k in ("DoStmt", "SwitchStmt", "CaseStmt", "DefaultStmt", "AttributedStmt"):
            if self.has(st, target):
                raise CannotFold("the bitmap walk is nested in a %s" % k)
            self.uncertain(st, env, inloop)
            return None
        self.ev(st, look, store)
        return None


def bit_index(v, src):
    """bit index (TS 44.018 10.5.2.21 numbering) of bitmap bit (octet, bit) in a v-octet bitmap"""
    return 8 * (v - 1 - src[0]) + src[1]


def fmt_bits(v, srcs):
    ix = sorted(bit_index(v, s) for s in srcs)
    if len(ix) > 2 and ix == list(range(ix[0], ix[-1] + 1)):
        return "bit indexes %d..%d" % (ix[0], ix[-1])
    return "bit index%s %s" % ("es" if len(ix) != 1 else "", ", ".join(str(x) for x in ix[:8]) + (", ..." if len(ix) > 8 else ""))


def r7_word(L, D, H, l2, cnt, hline):
    """C20.R7 -- clause "the decoded hopping list contains exactly the cell-allocation channels whose bit is set",
    for a decoder that tests a word into which the bitmap octets were collected (see "typed word model" above).
    The conditions that dominate the output store and that the octet model of C20.R4 cannot read are evaluated in
    the types clang resolved, for every accepted length v and every bit index i of the walk.  Each yields the set of
    bitmap bits whose OR it is; an entry is emitted under the conjunction of these ORs (and NORs), which equals
    "bit i&7 of octet v-1-(i>>3) is set" exactly when every OR contains that bit, one OR is that bit alone and no NOR
    is left.  Otherwise a bitmap exists for which a channel is emitted although its bit is clear, or dropped although
    it is set -- the counterexample is printed.  A shift whose count reaches the width of its (promoted) left operand
    is undefined: the test then selects no particular bit, so the decoder does not decide bit i for that bitmap
    length (violation as well; `1 << i` with a 32 bit `1` and i up to 63).  Conditions that cannot be evaluated give no
    verdict."""
    fm = D.fm
    R = "C20.R7"
    b = l2["var"]
    if l2["skips"]:
        raise AnalysisError("%s(): the walk over a collected word jumps over bit indices (`%s`): not modelled" % (
            FN, ctext(l2["skips"][0]["ast"])[:40]))
    region = l2["region"]
    known = {b, cnt, D.P_LEN, D.P_SI4} | fm.inv_at(H)
    sel = []
    for (c, l) in fm.g.guards(H):
        if c.kind != "cond" or not getattr(c, "cond", None) or not isinstance(l, bool):
            if getattr(c, "cond", None) is not None:
                raise AnalysisError("%s(): the output store is guarded by a %s on `%s` (only if / loop conditions are evaluated)" % (
                    FN, c.kind, ctext(c.cond)[:40]))
            continue
        for (e, p) in conj_atoms(c.cond, l):
            t, p2 = fm.norm(e, p)
            if fm.copies:
                t = fm.subst_temps(t, c)
            if X.V(D.P_MA) in subterms(t) or not free_vars(t) <= known:
                sel.append((e, p, c, l))
    L.floor(R, "conditions in front of the output store that are evaluated in the word model", len(sel), 1)
    inside = []
    for (e, p, c, l) in sel:
        if c is l2["cond"]:
            raise AnalysisError("%s(): the bound of the bitmap walk `%s` cannot be evaluated" % (FN, ctext(e)[:50]))
        if c.id in region:
            if not fm.pre_increment(l2, c):
                raise AnalysisError("%s(): `%s` is tested after the increment of `%s`" % (FN, ctext(e)[:50], b))
            inside.append(True)
        else:
            # tested before the walk: what it read must still hold when the walk starts
            for nm in {x.get("referencedDecl", {}).get("name") for x in walk(e) if kind(x) == "DeclRefExpr"}:
                if any(w.node.id in fm.reach_succ(c, label=l) for w in fm.writes.get(nm, [])) or nm in fm.addr:
                    raise AnalysisError("%s(): `%s` is tested before the walk and `%s` changes afterwards" % (FN, ctext(e)[:50], nm))
            inside.append(False)
    wr_in = {v for v, ws in fm.writes.items() if any(w.node.id in region for w in ws)}
    tests = " && ".join(("%s" if p else "!(%s)") % ctext(e)[:60] for (e, p, c, l) in sel)
    bad = undef = None
    npts = 0
    for v in fm.domain(H, D.P_LEN):
        M = WordEval(fm, D, v)
        try:
            env0 = M.state_at(l2["stmt"])
        except Undefined as u:
            undef = undef or "%s = %d: %s" % (D.P_LEN, v, u)
            continue
        except CannotFold as u:
            raise AnalysisError("%s(): the statements in front of the bitmap walk cannot be evaluated (%s)" % (FN, u))
        if env0 is None:
            continue
        btype = M.vtype.get(b)
        if btype is None:
            raise AnalysisError("%s(): loop variable `%s` is not an integer" % (FN, b))

        def look_at(at, i, depth=0):
            def look(nm):
                if nm == b:
                    return W.const(btype, i)
                if nm not in wr_in:
                    return env0.get(nm)
                # written inside the walk: a temporary of this iteration (one definition, in the loop, dominating the use)
                if depth > 6 or nm in fm.addr or nm in fm.dups:
                    return None
                defs = fm.reaching_defs(nm, at)
                if len(defs) != 1 or defs[0] == "undef" or defs[0].how not in ("init", "assign"):
                    return None
                d = defs[0]
                if d.node.id not in region or d.node is l2["cond"] or d.node is at or not fm.g.dominates(d.node, at) or \
                        not fm.pre_increment(l2, d.node) or not fm._readonly(d.val):
                    return None
                return M.ev(d.val, look_at(d.node, i, depth + 1))
            return look
        for i in range(l2["init"], max([fm.loop_hi(l2, vals) for vals in fm.vals(l2["cond"], v)] or [l2["init"]])):
            spec = (v - 1 - (i >> 3), i & 7)
            pos, neg, dead = [], [], False
            try:
                for (e, p, c, l), ins in zip(sel, inside):
                    # !x, x == 0, x != 0 at the top of the atom only change the polarity
                    n = e
                    while True:
                        while kind(n) in ("ParenExpr", "ConstantExpr"):
                            n = kids(n)[0]
                        if kind(n) == "UnaryOperator" and n.get("opcode") == "!":
                            n, p = kids(n)[0], not p
                            continue
                        break
                    look = look_at(c, i) if ins else env0.get
                    if kind(n) == "BinaryOperator" and n.get("opcode") in ("==", "!="):
                        x, y = M.ev(kids(n)[0], look), M.ev(kids(n)[1], look)
                        z = [q for (q, o) in ((x, y), (y, x)) if o.concrete() and o.value() == 0]
                        t = z[0].truth() if z else M.binary(n, kids(n)[0], kids(n)[1], look, None).truth()
                        if z and n.get("opcode") == "==":
                            p = not p
                    else:
                        t = M.ev(n, look).truth()
                    if t is None:
                        raise AnalysisError("%s(): the condition `%s` under which an entry is emitted cannot be evaluated as a function of "
                                            "the bitmap (for %s = %d, bit index %d)" % (FN, ctext(e)[:60], D.P_LEN, v, i))
                    if t in (0, 1):
                        if bool(t) != p:
                            dead = True
                    else:
                        (pos if p else neg).append((t, e))
            except Undefined as u:
                undef = undef or "bit index %d of a %d-octet bitmap: %s" % (i, v, u)
                continue
            except CannotFold as u:
                raise AnalysisError("%s(): the conditions `%s` under which an entry is emitted cannot be evaluated (%s)" % (FN, tests[:80], u))
            npts += 1
            if bad is not None:
                continue
            where = "bit index %d of a %d-octet bitmap" % (i, v)
            if dead:
                bad = "%s: no entry is ever emitted (the conditions cannot hold), so the channel is dropped when the bit is set" % where
            elif neg:
                t, e = neg[0]
                bad = "%s: the entry is not emitted when %s is set (`%s` must be false)" % (where, fmt_bits(v, t), ctext(e)[:50])
            elif not pos:
                bad = "%s: an entry is emitted whatever the bitmap holds" % where
            else:
                miss = [(t, e) for (t, e) in pos if spec not in t]
                if miss:
                    bad = "%s: `%s` tests %s instead -- the channel is dropped when only bit index %d is set" % (
                        where, ctext(miss[0][1])[:50], fmt_bits(v, miss[0][0]), i)
                elif not any(t == frozenset([spec]) for (t, e) in pos):
                    extra = set.intersection(*[set(t) for (t, e) in pos]) - {spec}
                    others = extra or (set(pos[0][0]) - {spec})
                    bad = "%s: `%s` also holds when the bit is clear and %s set (it is true for any of %s), so a channel whose bit is clear is emitted" % (
                        where, ctext(pos[0][1])[:50], fmt_bits(v, [sorted(others, key=lambda s: bit_index(v, s))[0]]) + " is",
                        fmt_bits(v, pos[0][0]))
    W2 = "octet %s-1-(i>>3), bit i&7, and nothing else" % D.P_LEN
    L.floor(R, "points (bitmap length x bit index) at which the emission conditions were evaluated", npts, 1)
    L.ob(R, F_SYS, FN, "the conditions over the collected bitmap word under which an entry is emitted, evaluated in the operand types "
         "clang resolved (widths of shifts, masks and conversions), hold exactly when bit i of the bitmap is set "
         "(TS 44.018 10.5.2.21: octet %s-1-(i>>3), bit i&7) -- for every accepted length and every bit index of the walk" % D.P_LEN,
         W2, bad or W2, bad is None, hline)
    L.ob(R, F_SYS, FN, "every shift executed while the bitmap word is collected and tested is defined: the count stays below the width "
         "of the promoted left operand for every accepted length and every bit index 0 .. 8*%s-1 (otherwise the test selects no "
         "particular bit)" % D.P_LEN,
         "shift count < width of the shifted operand", undef or "shift count < width of the shifted operand", undef is None, hline)


# ============================================================ witness fold (C20.R8)
#
# The structural rules above decide the property for every input, but only for decoders whose shape they
# recognise.  As a precision aid the decoder is also *folded on boundary witnesses*: its clang AST (helpers inlined)
# is interpreted -- by this module, in the integer types clang resolved; nothing of the repository is compiled or
# run -- for concrete frequency tables, bitmaps and lengths, with every array an object of its declared extent, and
# the produced return code / hopping list / frequency table are compared with the reference decoding of
# TS 44.018 10.5.2.21.  A difference is a concrete counterexample (violation); agreement on all witnesses keeps a
# decoder whose shape the structural rules do not recognise from being reported as "no verdict".

class CannotEval(Exception):
    """the interpreter meets a construct it does not model (-> the fold decides nothing)"""


class Fault(Exception):
    """the interpreted decoder accesses an object outside its extent, indexes with an indeterminate value or executes
    an undefined shift"""


FAST_OPS = {"+": operator.add, "-": operator.sub, "*": operator.mul, "&": operator.and_, "|": operator.or_, "^": operator.xor}


class _Undef(object):
    def __repr__(self):
        return "an indeterminate value"


UNDEF = _Undef()


class Buf(object):
    __slots__ = ("name", "data", "et", "struct")

    def __init__(self, name, data, et, struct=False):
        self.name, self.data, self.et, self.struct = name, data, et, struct


class Ptr(object):
    __slots__ = ("buf", "off")

    def __init__(self, buf, off):
        self.buf, self.off = buf, off


class _Ret(Exception):
    def __init__(self, v):
        self.v = v


class _Goto(Exception):
    def __init__(self, label):
        self.label = label


class _Brk(Exception):
    pass


class _Cnt(Exception):
    pass


def _wrap(v, t):
    if t is None or v is UNDEF or isinstance(v, Ptr):
        return v
    w, s = t
    v &= (1 << w) - 1
    if s and v >> (w - 1):
        v -= 1 << w
    return v


class State(object):
    __slots__ = ("loc", "steps", "depth")

    def __init__(self):
        self.loc, self.steps, self.depth = {}, 0, 0


class Conc(object):
    """closure compiler for the statements / expressions of one function (concrete interpretation)"""
    MAXSTEPS = 150000           # loop iterations per run

    def __init__(self, tu, fdecl, root=None):
        self.tu, self.f = tu, fdecl
        self.root = root or self
        if root is None:
            self.subs = {}
        self.vtype = {}
        for x in walk(fdecl):
            if kind(x) in ("VarDecl", "ParmVarDecl"):
                self.vtype[x.get("name")] = int_type(tu, x.get("type", {}))
        self.params = [p.get("name") for p in tu.fparams(fdecl)]
        rt = fdecl.get("type", {}).get("qualType", "").split("(")[0].strip()
        self.rtype = int_type(tu, rt)
        self.void = rt == "void"
        # a scalar whose address is taken lives in a one-element object, so that `&x` is a pointer like any other
        self.boxed = set()
        for x in walk(fdecl):
            if kind(x) == "VarDecl" and x.get("storageClass") in ("static", "extern"):
                raise CannotEval("%s() has a static local" % fdecl.get("name"))
            if kind(x) == "UnaryOperator" and x.get("opcode") == "&":
                t = strip(kids(x)[0])
                if kind(t) == "DeclRefExpr" and t.get("referencedDecl", {}).get("kind") in ("VarDecl", "ParmVarDecl") and \
                        "[" not in t.get("type", {}).get("qualType", ""):
                    if self.vtype.get(t["referencedDecl"].get("name")) is None:
                        raise CannotEval("address of `%s`, which is not an integer" % t["referencedDecl"].get("name"))
                    self.boxed.add(t["referencedDecl"].get("name"))
        self.body = self.stmt(tu.body(fdecl))

    def sub(self, name):
        """compiled body of a function the decoder calls (it must have a definition in the slice)"""
        root = self.root
        if name not in root.subs:
            h = self.tu.functions.get(name)
            if h is None or not any(kind(x) == "CompoundStmt" for x in kids(h)):
                raise CannotEval("call of %s(), which has no definition in the slice" % name)
            if h.get("variadic") or "..." in h.get("type", {}).get("qualType", ""):
                raise CannotEval("call of the variadic function %s()" % name)
            root.subs[name] = None          # being compiled: a recursive call finds None
            root.subs[name] = Conc(self.tu, h, root)
        if root.subs[name] is None:
            raise CannotEval("%s() is recursive" % name)
        return root.subs[name]

    def call(self, e):
        ks = kids(e)
        cal = strip(ks[0])
        rd = cal.get("referencedDecl", {}) if kind(cal) == "DeclRefExpr" else {}
        if rd.get("kind") != "FunctionDecl":
            raise CannotEval("call `%s` through something that is not a function name" % ctext(e)[:40])
        name = rd.get("name")
        sub = self.sub(name)
        args = [self.expr(a) for a in ks[1:]]
        if len(args) != len(sub.params):
            raise CannotEval("call of %s() with %d arguments" % (name, len(args)))

        def call(st):
            vals = [a(st) for a in args]
            saved = st.loc
            st.depth += 1
            if st.depth > 8:
                raise CannotEval("calls nested deeper than 8")
            st.loc = {p: _wrap(v, sub.vtype.get(p)) for p, v in zip(sub.params, vals)}
            for p in sub.boxed & set(sub.params):
                st.loc[p] = Ptr(Buf(p, [st.loc[p]], sub.vtype.get(p)), 0)
            r = UNDEF
            try:
                try:
                    sub.body(st)
                except _Ret as x:
                    r = x.v
            finally:
                st.loc = saved
                st.depth -= 1
            if sub.void or r is None:
                return 0 if sub.void else UNDEF
            return _wrap(r, sub.rtype)
        return call

    def typ(self, n):
        return int_type(self.tu, n.get("type", {}))

    # -- lvalues: closures st -> ('v', name) | ('e', Buf, index) -------------------
    def lval(self, e):
        k = kind(e)
        ks = kids(e)
        if k in ("ParenExpr", "ConstantExpr"):
            return self.lval(ks[0])
        if k in ("ImplicitCastExpr", "CStyleCastExpr") and e.get("castKind") == "NoOp":
            return self.lval(ks[0])
        if k == "DeclRefExpr":
            rd = e.get("referencedDecl", {})
            if rd.get("kind") not in ("VarDecl", "ParmVarDecl"):
                raise CannotEval("`%s` is not a variable" % ctext(e)[:40])
            nm = rd.get("name")
            if nm in self.boxed:
                return lambda st: ("e", st.loc[nm].buf, 0)
            ref = ("v", nm)
            return lambda st: ref
        if k == "ArraySubscriptExpr":
            a, b = self.expr(ks[0]), self.expr(ks[1])
            txt = ctext(e)[:50]

            def sub(st):
                p, i = a(st), b(st)
                if isinstance(i, Ptr):
                    p, i = i, p
                if i is UNDEF and isinstance(p, Ptr):
                    raise Fault("uses an indeterminate value (a variable or list entry that was never set) as the index in `%s`" % txt)
                if not isinstance(p, Ptr) or isinstance(i, Ptr):
                    raise CannotEval("`%s`: base / index is not a pointer / an integer with a definite value" % txt)
                return ("e", p.buf, p.off + i)
            return sub
        if k == "UnaryOperator" and e.get("opcode") == "*":
            a = self.expr(ks[0])
            txt = ctext(e)[:50]

            def deref(st):
                p = a(st)
                if not isinstance(p, Ptr):
                    raise CannotEval("`%s`: operand is not a pointer with a definite value" % txt)
                return ("e", p.buf, p.off)
            return deref
        if k == "MemberExpr":
            if e.get("isArrow"):
                a = self.expr(ks[0])
                txt = ctext(e)[:50]

                def arrow(st):
                    p = a(st)
                    if not isinstance(p, Ptr) or not p.buf.struct:
                        raise CannotEval("`%s`: not a pointer into the frequency table" % txt)
                    return ("e", p.buf, p.off)
                return arrow
            a = self.lval(ks[0])
            txt = ctext(e)[:50]

            def dot(st):
                r = a(st)
                if r[0] != "e" or not r[1].struct:
                    raise CannotEval("`%s`: not an element of the frequency table" % txt)
                return r
            return dot
        raise CannotEval("`%s` (%s) is not an lvalue the interpreter models" % (ctext(e)[:40], k))

    @staticmethod
    def load(st, r, structs=False):
        if r[0] == "v":
            try:
                return st.loc[r[1]]
            except KeyError:
                raise CannotEval("`%s` is read outside the scope of its declaration" % r[1])
        buf, i = r[1], r[2]
        if not 0 <= i < len(buf.data):
            raise Fault("reads %s[%d], outside the %d element%s of %s" % (buf.name, i, len(buf.data), "" if len(buf.data) == 1 else "s", buf.name))
        if buf.struct and not structs:
            raise CannotEval("an element of the frequency table is used as a whole")
        return buf.data[i]

    def store(self, st, r, v):
        if r[0] == "v":
            st.loc[r[1]] = _wrap(v, self.vtype.get(r[1]))
            return st.loc[r[1]]
        buf, i = r[1], r[2]
        if not 0 <= i < len(buf.data):
            raise Fault("writes %s[%d], outside the %d element%s of %s" % (buf.name, i, len(buf.data), "" if len(buf.data) == 1 else "s", buf.name))
        if isinstance(v, Ptr):
            raise CannotEval("a pointer is stored into %s" % buf.name)
        buf.data[i] = _wrap(v, buf.et)
        return buf.data[i]

    # -- expressions: closures st -> int | UNDEF | Ptr --------------------------------
    def expr(self, e):
        k = kind(e)
        ks = kids(e)
        if k in ("ParenExpr", "ConstantExpr"):
            return self.expr(ks[0])
        if k in ("ImplicitCastExpr", "CStyleCastExpr"):
            ck = e.get("castKind")
            if ck == "LValueToRValue":
                src = strip(ks[0])
                if kind(src) == "DeclRefExpr" and src.get("referencedDecl", {}).get("kind") in ("VarDecl", "ParmVarDecl") and \
                        src["referencedDecl"].get("name") not in self.boxed:
                    nm = src["referencedDecl"].get("name")

                    def var(st):
                        try:
                            return st.loc[nm]
                        except KeyError:
                            raise CannotEval("`%s` is read outside the scope of its declaration" % nm)
                    return var
                lv = self.lval(ks[0])
                load = self.load
                is_member = kind(src) == "MemberExpr"
                return lambda st: load(st, lv(st), is_member)
            if ck == "ArrayToPointerDecay":
                lv = self.lval(ks[0])
                load = self.load

                def decay(st):
                    p = load(st, lv(st))
                    if not isinstance(p, Ptr):
                        raise CannotEval("array `%s` has no storage" % ctext(ks[0])[:30])
                    return p
                return decay
            a = self.expr(ks[0])
            if ck in ("NoOp", "BitCast"):
                return a
            if ck == "ToVoid":
                def void(st):
                    a(st)
                    return 0
                return void
            if ck == "IntegralCast":
                t = self.typ(e)
                if t is None:
                    raise CannotEval("conversion to %r" % e.get("type", {}).get("qualType"))
                t0 = self.typ(ks[0])
                if t0 is not None and ((t[0] > t0[0] and (t[1] or not t0[1])) or t == t0):
                    return a                    # value preserving
                return lambda st: _wrap(a(st), t)
            if ck == "IntegralToBoolean":
                truth = self.truth
                return lambda st: int(truth(a(st)))
            if ck == "NullToPointer":
                raise CannotEval("null pointer constant")
            raise CannotEval("cast %s in `%s`" % (ck, ctext(e)[:40]))
        if k == "IntegerLiteral":
            v = _wrap(int(e.get("value", "0"), 0), self.typ(e) or (32, True))
            return lambda st: v
        if k == "CharacterLiteral":
            v = int(e.get("value", 0))
            return lambda st: v
        if k == "UnaryExprOrTypeTraitExpr":
            v = self.tu.fold(e)
            if v is None:
                raise CannotEval("`%s` does not fold" % ctext(e)[:40])
            return lambda st: v
        if k == "DeclRefExpr":
            if e.get("referencedDecl", {}).get("kind") == "EnumConstantDecl":
                v = self.tu.fold(e)
                if v is None:
                    raise CannotEval("enumerator `%s` does not fold" % ctext(e)[:40])
                return lambda st: v
            lv = self.lval(e)
            load = self.load
            return lambda st: load(st, lv(st))
        if k in ("ArraySubscriptExpr", "MemberExpr"):
            lv = self.lval(e)
            load = self.load
            is_member = k == "MemberExpr"
            return lambda st: load(st, lv(st), is_member)
        if k == "UnaryOperator":
            return self.unary(e, ks[0])
        if k == "BinaryOperator":
            return self.binary(e, ks[0], ks[1])
        if k == "CompoundAssignOperator":
            lv, b = self.lval(ks[0]), self.expr(ks[1])
            ct = int_type(self.tu, e.get("computeLHSType", {})) or self.typ(e)
            rt = int_type(self.tu, e.get("computeResultType", {})) or ct
            op = e.get("opcode", "")[:-1]
            f = self.arith(e, op, rt)
            load, store = self.load, self.store
            is_member = kind(strip(ks[0])) == "MemberExpr"
            shift = op in ("<<", ">>")

            def cas(st):
                r = lv(st)
                y = b(st)
                x = load(st, r, is_member)
                if isinstance(x, Ptr):
                    return store(st, r, f(x, y))
                return store(st, r, f(_wrap(x, ct), y if shift else _wrap(y, ct)))
            return cas
        if k == "ConditionalOperator":
            c, a, b = self.expr(ks[0]), self.expr(ks[1]), self.expr(ks[2])
            truth = self.truth
            return lambda st: a(st) if truth(c(st)) else b(st)
        if k == "CallExpr":
            return self.call(e)
        raise CannotEval("`%s` (%s) is not modelled by the interpreter" % (ctext(e)[:40], k))

    @staticmethod
    def truth(v):
        if v is UNDEF:
            raise CannotEval("a branch depends on an indeterminate value")
        if isinstance(v, Ptr):
            return True
        return v != 0

    def unary(self, e, x):
        op = e.get("opcode")
        t = self.typ(e)
        if op in ("++", "--"):
            lv = self.lval(x)
            d = 1 if op == "++" else -1
            post = bool(e.get("isPostfix"))
            load, store = self.load, self.store
            is_member = kind(strip(x)) == "MemberExpr"
            tgt = strip(x)
            vt = self.vtype.get(tgt.get("referencedDecl", {}).get("name")) if kind(tgt) == "DeclRefExpr" else None
            if vt is not None and tgt["referencedDecl"].get("name") in self.boxed:
                vt = None
            if vt is not None and vt[0] >= 32:
                nm = tgt["referencedDecl"].get("name")
                lo, hi = (-(1 << (vt[0] - 1)), 1 << (vt[0] - 1)) if vt[1] else (0, 1 << vt[0])

                def incv(st):
                    old = st.loc.get(nm)
                    if old.__class__ is not int or not lo <= old + d < hi:
                        return inc(st)
                    st.loc[nm] = old + d
                    return old if post else old + d

            def inc(st):
                r = lv(st)
                old = load(st, r, is_member)
                if old is UNDEF:
                    raise CannotEval("`%s` on an indeterminate value" % op)
                new = store(st, r, Ptr(old.buf, old.off + d) if isinstance(old, Ptr) else old + d)
                return old if post else new
            return incv if vt is not None and vt[0] >= 32 else inc
        if op == "*":
            lv = self.lval(e)
            load = self.load
            return lambda st: load(st, lv(st))
        if op == "&":
            lv = self.lval(x)

            def addr(st):
                r = lv(st)
                if r[0] != "e":
                    raise CannotEval("address of the variable `%s`" % r[1])
                return Ptr(r[1], r[2])
            return addr
        a = self.expr(x)
        if op == "!":
            truth = self.truth
            return lambda st: int(not truth(a(st)))
        if op in ("~", "-", "+"):
            def un(st):
                v = a(st)
                if v is UNDEF:
                    return v
                if isinstance(v, Ptr):
                    raise CannotEval("`%s` on a pointer" % op)
                return _wrap(~v if op == "~" else -v if op == "-" else v, t)
            return un
        raise CannotEval("unary `%s`" % op)

    def arith(self, e, op, t):
        slow = self.arith_slow(e, op, t)
        g = FAST_OPS.get(op)
        if g is None or t is None:
            return slow
        lo, hi = (-(1 << (t[0] - 1)), 1 << (t[0] - 1)) if t[1] else (0, 1 << t[0])

        def f(x, y):
            if x.__class__ is int and y.__class__ is int:
                r = g(x, y)
                return r if lo <= r < hi else _wrap(r, t)
            return slow(x, y)
        return f

    def arith_slow(self, e, op, t):
        txt = ctext(e)[:50]

        def f(x, y):
            if isinstance(x, Ptr) or isinstance(y, Ptr):
                if op == "+" and not (isinstance(x, Ptr) and isinstance(y, Ptr)) and x is not UNDEF and y is not UNDEF:
                    return Ptr(x.buf, x.off + y) if isinstance(x, Ptr) else Ptr(y.buf, y.off + x)
                if op == "-" and isinstance(x, Ptr) and y is not UNDEF:
                    if not isinstance(y, Ptr):
                        return Ptr(x.buf, x.off - y)
                    if y.buf is x.buf:
                        return x.off - y.off
                raise CannotEval("pointer arithmetic `%s`" % txt)
            if x is UNDEF or y is UNDEF:
                return UNDEF
            if op == "+":
                r = x + y
            elif op == "-":
                r = x - y
            elif op == "*":
                r = x * y
            elif op == "&":
                r = x & y
            elif op == "|":
                r = x | y
            elif op == "^":
                r = x ^ y
            elif op in ("<<", ">>"):
                w = t[0] if t else 32
                if y < 0 or y >= w:
                    raise Fault("evaluates `%s` with a %d bit left operand and the count %d (a shift by a negative count or by the width "
                                "of the promoted left operand is undefined, C11 6.5.7)" % (txt, w, y))
                r = x << y if op == "<<" else x >> y
            elif op in ("/", "%"):
                if y == 0:
                    raise CannotEval("`%s` divides by 0" % txt)
                q = abs(x) // abs(y) * (1 if (x < 0) == (y < 0) else -1)
                r = q if op == "/" else x - q * y
            else:
                raise CannotEval("operator `%s`" % op)
            return _wrap(r, t)
        return f

    def binary(self, e, a, b):
        op = e.get("opcode")
        t = self.typ(e)
        truth = self.truth
        if op == "=":
            lv, y = self.lval(a), self.expr(b)
            store = self.store

            def asg(st):
                v = y(st)
                return store(st, lv(st), v)
            return asg
        x, y = self.expr(a), self.expr(b)
        if op == ",":
            def comma(st):
                x(st)
                return y(st)
            return comma
        if op == "&&":
            return lambda st: int(truth(x(st)) and truth(y(st)))
        if op == "||":
            return lambda st: int(truth(x(st)) or truth(y(st)))
        if op in ("==", "!=", "<", ">", "<=", ">="):
            txt = ctext(e)[:50]

            g = {"==": operator.eq, "!=": operator.ne, "<": operator.lt, ">": operator.gt, "<=": operator.le, ">=": operator.ge}[op]

            def cmp(st):
                p, q = x(st), y(st)
                if p.__class__ is int and q.__class__ is int:
                    return 1 if g(p, q) else 0
                if p is UNDEF or q is UNDEF:
                    raise CannotEval("`%s` compares an indeterminate value" % txt)
                if isinstance(p, Ptr) or isinstance(q, Ptr):
                    if not (isinstance(p, Ptr) and isinstance(q, Ptr) and p.buf is q.buf):
                        raise CannotEval("`%s` compares pointers into different objects" % txt)
                    p, q = p.off, q.off
                return int(p == q if op == "==" else p != q if op == "!=" else p < q if op == "<" else
                           p > q if op == ">" else p <= q if op == "<=" else p >= q)
            return cmp
        f = self.arith(e, op, t)         # shifts: t is the type of the promoted left operand, the count keeps its own
        return lambda st: f(x(st), y(st))

    # -- statements: closures st -> None (jumps are exceptions) ----------------------
    def stmt(self, s):
        k = kind(s)
        if k is None:
            return lambda st: None
        if k == "CompoundStmt":
            body = [self.stmt(x) for x in kids(s)]
            labels = {x.get("declId"): i for i, x in enumerate(kids(s)) if kind(x) == "LabelStmt"}
            if not labels:
                def block(st):
                    for f in body:
                        f(st)
                return block
            limit = self.MAXSTEPS

            def lblock(st):
                # a goto to a label that is a statement of this block continues there (`goto out;` to the common exit)
                i = 0
                while i < len(body):
                    try:
                        body[i](st)
                        i += 1
                    except _Goto as g:
                        if g.label not in labels:
                            raise
                        st.steps += 1
                        if st.steps > limit:
                            raise CannotEval("more than %d jumps / loop iterations" % limit)
                        i = labels[g.label]
            return lblock
        if k == "LabelStmt":
            inner = [x for x in kids(s) if kind(x)]
            return self.stmt(inner[-1]) if inner else (lambda st: None)
        if k == "GotoStmt":
            label = s.get("targetLabelDeclId")

            def goto(st):
                raise _Goto(label)
            return goto
        if k == "DeclStmt":
            acts = []
            for d in kids(s):
                if kind(d) != "VarDecl":
                    continue
                acts.append(self.decl(d))

            def decls(st):
                for f in acts:
                    f(st)
            return decls
        if k == "IfStmt":
            inner = s["inner"]
            els = s.get("hasElse", False)
            cond, then, other = (inner[-3], inner[-2], inner[-1]) if els else (inner[-2], inner[-1], None)
            c, a = self.expr(cond), self.stmt(then)
            b = self.stmt(other) if other is not None else None
            truth = self.truth

            def ifs(st):
                if truth(c(st)):
                    a(st)
                elif b is not None:
                    b(st)
            return ifs
        if k in ("ForStmt", "WhileStmt", "DoStmt"):
            inner = s["inner"]
            if k == "ForStmt":
                init, cond, inc, body = inner[0], inner[2], inner[3], inner[4]
            elif k == "WhileStmt":
                init, cond, inc, body = None, inner[-2], None, inner[-1]
            else:
                init, cond, inc, body = None, inner[1], None, inner[0]
            fi = self.stmt(init) if init else None
            fc = self.expr(cond) if cond else None
            fn = self.expr(inc) if inc else None
            fb = self.stmt(body)
            truth = self.truth
            do = k == "DoStmt"
            limit = self.MAXSTEPS

            def loop(st):
                if fi:
                    fi(st)
                first = do
                while True:
                    if not first and fc is not None and not truth(fc(st)):
                        return
                    first = False
                    st.steps += 1
                    if st.steps > limit:
                        raise CannotEval("more than %d loop iterations" % limit)
                    try:
                        fb(st)
                    except _Brk:
                        return
                    except _Cnt:
                        pass
                    if fn:
                        fn(st)
            return loop
        if k == "ReturnStmt":
            ks = kids(s)
            v = self.expr(ks[0]) if ks else None

            def ret(st):
                raise _Ret(v(st) if v else None)
            return ret
        if k == "BreakStmt":
            def brk(st):
                raise _Brk()
            return brk
        if k == "ContinueStmt":
            def cnt(st):
                raise _Cnt()
            return cnt
        if k == "NullStmt":
            return lambda st: None
        if k.endswith("Stmt"):
            raise CannotEval("statement kind %s" % k)
        return self.expr(s)

    def decl(self, d):
        nm = d.get("name")
        qt = d.get("type", {}).get("qualType", "")
        init = [c for c in kids(d) if kind(c) and not kind(c).endswith("Attr")]
        m = re.fullmatch(r"(.+?)\s*\[(.*)\]", qt)
        if m:
            et = int_type(self.tu, m.group(1).strip())
            toks = c_tokens(m.group(2))
            if et is None or toks is None or "[" in m.group(1) or (init and kind(init[-1]) != "InitListExpr"):
                raise CannotEval("local array `%s %s`" % (qt, nm))
            first = []
            if init:
                il = init[-1]
                if any(kind(c) not in ("IntegerLiteral", "ImplicitCastExpr", "ImplicitValueInitExpr") for c in kids(il)) or \
                        any(kind(c) != "ImplicitValueInitExpr" for c in il.get("array_filler", [])[:1]):
                    raise CannotEval("initialiser of the local array `%s`" % nm)
                first = [self.expr(c) if kind(c) != "ImplicitValueInitExpr" else (lambda st: 0) for c in kids(il)]
            tu = self.tu

            def arr(st):
                def leaf(t):
                    if t in tu.enums:
                        return X.C(tu.enums[t])
                    v = st.loc.get(t)
                    if v is None or v is UNDEF or isinstance(v, Ptr):
                        raise CannotEval("extent of `%s` depends on `%s`" % (nm, t))
                    return X.C(v)
                try:
                    n = ev(cexpr_term(toks, leaf, m.group(2)), {})
                except (AnalysisError, Unknown) as u:
                    raise CannotEval("extent of `%s`: %s" % (nm, u))
                if n < 1:
                    raise Fault("declares the array `%s[%s]` with %d elements (a zero-length variable-length array is undefined)" % (nm, m.group(2), n))
                data = [UNDEF] * n
                if init:
                    data = [_wrap(f(st), et) for f in first][:n]
                    data += [0] * (n - len(data))
                st.loc[nm] = Ptr(Buf(nm, data, et), 0)
            return arr
        t = self.vtype.get(nm)
        v = self.expr(init[-1]) if init else None
        if nm in self.boxed:
            def cell(st):
                st.loc[nm] = Ptr(Buf(nm, [_wrap(v(st), t) if v else UNDEF], t), 0)
            return cell
        if init:
            def one(st):
                st.loc[nm] = _wrap(v(st), t)
            return one

        def none(st):
            st.loc[nm] = UNDEF
        return none


def _lcg(seed):
    x = seed & 0x7fffffff
    while True:
        x = (x * 1103515245 + 12345) & 0x7fffffff
        yield (x >> 16) & 0xff


def bitmap_with_top(v, p, seed):
    """v-octet bitmap whose highest set bit index is p (TS 44.018 numbering); the lower bits are pseudo-random"""
    g = _lcg(seed * 131 + 8 * v + p + 7)
    ma = [next(g) for _ in range(v)]
    for ix in range(p, 8 * v):
        o, b = v - 1 - (ix >> 3), ix & 7
        if ix == p:
            ma[o] |= 1 << b
        else:
            ma[o] &= ~(1 << b) & 0xff
    return ma


CELL_ALLOCATIONS = [
    ("64 channels, ARFCN 1..64", list(range(1, 65))),
    ("64 channels with ARFCN 0", [0] + list(range(1, 41)) + list(range(1001, 1024))),
    ("64 channels without ARFCN 0", list(range(2, 34)) + list(range(512, 544))),
    ("no channel", []),
    ("ARFCN 0 only", [0]),
    ("ARFCN 5 only", [5]),
    ("ARFCN 0, 1 and 1023", [0, 1, 1023]),
    ("9 channels with ARFCN 0", [0, 3, 10, 20, 30, 40, 50, 60, 1023]),
    ("E-GSM cell: ARFCN 5, 17, 42, 975, 1000 and 0", [5, 17, 42, 975, 1000, 0]),    # the flagged ARFCN 0 is the LAST entry (value 0)
]
LONG_LENGTHS = (9, 10, 16, 17, 32, 64, 128, 255)


def fold_witnesses(tier):
    """[(cell allocation name, ARFCNs, bitmap octets, si4)] -- every accepted length 0..8 with the empty, the full and,
    for the highest set bit at every position, a mixed bitmap against a 64 channel cell allocation; the other
    allocations (64 with ARFCN 0, which the order rule puts last, 64 without it, none, one, ARFCN 0 only, three, nine)
    with the full bitmap and two mixed ones per length; rejected lengths 9 .. 255.  (thorough: every position for
    every allocation.)"""
    out = []
    name, ca = CELL_ALLOCATIONS[0]
    for v in range(0, MAXLEN + 1):
        out.append((name, ca, [0] * v, 0))
        if v:
            out.append((name, ca, [0xff] * v, int(v in (1, 8))))
        for p in range(8 * v):
            out.append((name, ca, bitmap_with_top(v, p, 1), int(p == 8 * v - 3)))
    for (name, ca) in CELL_ALLOCATIONS[1:]:
        for v in range(0, MAXLEN + 1):
            if v:
                out.append((name, ca, [0xff] * v, int(v == 2)))
                out.append((name, ca, bitmap_with_top(v, 8 * v - 1, 2), 0))
                out.append((name, ca, bitmap_with_top(v, (8 * v) // 2, 3), 0))
            else:
                out.append((name, ca, [], 1))
    if tier == "thorough":
        for (name, ca) in (CELL_ALLOCATIONS[1], CELL_ALLOCATIONS[2], CELL_ALLOCATIONS[6]):
            for v in range(1, MAXLEN + 1):
                for p in range(8 * v):
                    out.append((name, ca, bitmap_with_top(v, p, 4), p & 1))
    name, ca = CELL_ALLOCATIONS[1]
    for v in LONG_LENGTHS:
        out.append((name, ca, [0xff] * v, 0))
        out.append((name, ca, [0x00] * (v - 1) + [0x01], 1))
    return out


def reference_decoding(ca, ma):
    """TS 44.018 10.5.2.21 as the property states it: the cell channels in ascending order with ARFCN 0 last; bit
    index i is octet len-1-(i>>3), bit i&7; a set bit beyond the cell allocation ends decoding.  None: rejected."""
    v = len(ma)
    if v > MAXLEN:
        return None
    cells = sorted(a for a in set(ca) if a != 0) + ([0] if 0 in ca else [])
    out = []
    for i in range(8 * v):
        if ma[v - 1 - (i >> 3)] & (1 << (i & 7)):
            if i >= len(cells):
                break
            out.append(cells[i])
    return out


def fmt_witness(name, ma, si4):
    return "%d-octet bitmap %s, cell allocation: %s%s" % (len(ma), ("".join("%02x" % o for o in ma[:10]) + ("..." if len(ma) > 10 else "")) or "(empty)",
                                                     name, ", si4" if si4 else "")


def r8_fold(L, fm, K, tier):
    """C20.R8 -- the decoder folded on boundary witnesses against the reference decoding.
    -> ("agree" | "differ" | "undecided", text).  Obligations are recorded unless the fold is undecided (a construct
    the interpreter does not model): then it says nothing, and whether there is a verdict is up to the structural rules."""
    R = "C20.R8"
    tu = fm.tu
    want = ["struct gsm_sysinfo_freq *", "const uint8_t *", "uint8_t", "uint16_t *", "uint8_t *", "int"]
    if len(fm.params) != 6 or [" ".join(fm.ptype[p].split()) for p in fm.params] != want:
        return "undecided", "the decoder's signature changed"
    P_FREQ, P_MA, P_LEN, P_HOP, P_CNT, P_SI4 = fm.params
    SERV, HOPP, N = K["SERV"], K["HOPP"], K["NFREQ"]
    if SERV == HOPP or not (0 < SERV < 256 and 0 < HOPP < 256) or SERV & (SERV - 1) or HOPP & (HOPP - 1):
        return "undecided", "FREQ_TYPE_SERV / FREQ_TYPE_HOPP are not two distinct flag bits of the mask octet"
    try:
        prog = Conc(tu, fm.f)
    except CannotEval as u:
        return "undecided", "the decoder cannot be interpreted: %s" % u
    except (TypeError, KeyError, IndexError, AttributeError, ValueError, RecursionError) as u:
        return "undecided", "the decoder cannot be interpreted (AST shape not expected: %s)" % (str(u)[:80] or type(u).__name__)
    noise = [b for b in (0x04, 0x08, 0x10, 0x20, 0x40, 0x80) if b not in (SERV, HOPP)]
    diff = fault = gate = table = None
    n = nlists = 0
    outcomes = {}           # (return value, refused by the reference, non-empty reference list) -> first witness (C20.R12)
    base = [(noise[0] if a % 3 == 0 else 0) | (noise[1] if a % 7 == 1 else 0) | (HOPP if a % 5 == 2 else 0) for a in range(N)]
    for (name, ca, ma, si4) in fold_witnesses(tier):
        masks = list(base)
        if any(not 0 <= a < N for a in ca):
            return "undecided", "the frequency table has %d entries" % N
        for a in ca:
            masks[a] |= SERV
        before = list(masks)
        hop = Buf(P_HOP, [0xeeee] * K["NHOP"], (16, False))
        cnt = Buf("*" + P_CNT, [0xa5], (8, False))
        st = State()
        st.loc = {P_FREQ: Ptr(Buf(P_FREQ, masks, (8, False), True), 0), P_MA: Ptr(Buf(P_MA, list(ma), (8, False)), 0),
                  P_LEN: len(ma), P_HOP: Ptr(hop, 0), P_CNT: Ptr(cnt, 0), P_SI4: si4}
        for p in prog.boxed & set(fm.params):
            st.loc[p] = Ptr(Buf(p, [st.loc[p]], prog.vtype.get(p)), 0)
        where = fmt_witness(name, ma, si4)
        ret = None
        try:
            try:
                prog.body(st)
            except _Ret as r:
                ret = r.v
            except (_Brk, _Cnt, _Goto):
                return "undecided", "break / continue / goto to a place the interpreter does not model"
        except Fault as f:
            n += 1
            fault = fault or "%s: the decoder %s" % (where, f)
            continue
        except CannotEval as u:
            return "undecided", "%s: %s" % (where, u)
        except RecursionError:
            return "undecided", "expression nesting too deep for the interpreter"
        except (TypeError, KeyError, IndexError, AttributeError, ValueError, OverflowError) as u:
            return "undecided", "%s: a value the interpreter does not model (%s)" % (where, str(u)[:80] or type(u).__name__)
        n += 1
        ref = reference_decoding(ca, ma)
        if ret is None or ret is UNDEF or isinstance(ret, Ptr):
            L.__dict__.pop("_c20_outcomes", None)
            return "undecided", "%s: the decoder returns no definite value" % where
        outcomes.setdefault((ret, ref is None, bool(ref)), "%d-octet bitmap %s%s" % (
            len(ma), "".join("%02x" % x for x in ma[:9]) or "(empty)", "" if ref is None else ": %d channel%s" % (len(ref), "s"[:len(ref) != 1])))
        if ref is None:
            if ret >= 0:
                gate = gate or "%s: accepted (return value %d)" % (where, ret)
            continue
        if ret < 0:
            gate = gate or "%s: rejected (return value %d)" % (where, ret)
            continue
        nlists += 1
        got_n = cnt.data[0]
        got = hop.data[:got_n] if got_n is not UNDEF and got_n <= len(hop.data) else None
        if got != ref:
            if diff is None:
                diff = "%s: the decoder yields %s, the reference decoding %s" % (
                    where, "a list of %s entries" % got_n if got is None else "%d entries %s" % (len(got), brief(got)),
                    "%d entries %s" % (len(ref), brief(ref)))
        changed = [a for a in range(N) if masks[a] is UNDEF or (masks[a] ^ before[a]) & ~HOPP & 0xff]
        if changed and table is None:
            table = "%s: mask of ARFCN %d changes from 0x%02x to %s" % (where, changed[0], before[changed[0]],
                                                                   "0x%02x" % masks[changed[0]] if masks[changed[0]] is not UNDEF else masks[changed[0]])
    if n < 100:
        return "undecided", "only %d witnesses were folded" % n
    L.__dict__["_c20_outcomes"] = outcomes
    L.floor(R, "boundary witnesses on which the decoder was folded", n, 400)
    dom = "%d witnesses: every length 0..%d x {empty, full, highest set bit at every position} against a 64 channel cell allocation; " \
          "cell allocations of 0, 1, 3, 9 and 64 channels with / without ARFCN 0; lengths %d..255" % (n, MAXLEN, MAXLEN + 1)
    ok_txt = "as the reference decoding on all %d witnesses" % n
    L.ob(R, F_SYS, FN, "folded on boundary witnesses (the clang AST of the decoder is interpreted for concrete frequency tables and bitmaps), "
         "the decoder yields exactly the hopping list of the reference decoding: the cell channels whose bit is set, in the order "
         "ARFCN 1, ..., %d, 0, up to the first set bit beyond the cell allocation" % (N - 1), "same list and length on every witness",
         diff or "same list and length on every witness", diff is None)
    L.ob(R, F_SYS, FN, "folded on boundary witnesses, the decoder never reads or writes outside an object (frequency table, bitmap of "
         "`%s` octets, %d-entry output list, output length, its own arrays), never indexes with a value that was not set and executes "
         "no undefined shift" % (P_LEN, K["NHOP"]), "no access outside an object",
         fault or "no access outside an object", fault is None)
    L.ob(R, F_SYS, FN, "folded on boundary witnesses, bitmaps of up to %d octets (an empty one included) are decoded and longer ones are "
         "rejected with a negative return value" % MAXLEN, "0..%d accepted, longer rejected" % MAXLEN,
         gate or "0..%d accepted, longer rejected" % MAXLEN, gate is None)
    L.ob(R, F_SYS, FN, "folded on boundary witnesses, the decoder changes nothing in the frequency table but FREQ_TYPE_HOPP marks "
         "(the cell allocation it decodes against stays what it was)", "only FREQ_TYPE_HOPP changes", table or "only FREQ_TYPE_HOPP changes", table is None)
    L.extra["c20_fold"] = {"witnesses": n, "decoded": nlists, "domain": dom}
    bad = [x for x in (diff, fault, gate, table) if x]
    return ("differ", bad[0]) if bad else ("agree", ok_txt)


# ============================================================== caller slices
#
# The callers live in layer23 files that cannot be parsed as translation units.  Their definitions are
# sliced out and parsed behind a *synthesised* prelude: everything the function mentions but does not
# declare is declared opaquely (K&R prototypes for callees, `extern const int` for upper-case constants,
# structs that hold just the members the function touches -- with the real scalar type when the struct is
# found in a header of the tree, `int` otherwise).  The rules interpret nothing but integer literals, the
# function's own locals (whose declarations are real source text) and the guards between them; whatever
# comes from the synthesised declarations stays an opaque leaf.

C_KEYWORDS = set("""if else for while do switch case default break continue return goto sizeof struct union enum const
static int unsigned signed char short long void volatile register typedef extern inline float double
uint8_t uint16_t uint32_t uint64_t int8_t int16_t int32_t int64_t size_t ssize_t bool NULL""".split())
SCALAR = re.compile(r"(const\s+)?(u?int(8|16|32|64)_t|int|unsigned int|unsigned|char|unsigned char|signed char|short|"
                    r"unsigned short|long|unsigned long|size_t|bool)")


class HeaderIndex:
    """struct definitions found by the lexer in the headers of the tree (layer23 includes, bundled libosmocore gsm/)"""
    DIRS = ("src/host/layer23/include", "src/shared/libosmocore/include/osmocom/gsm")

    def __init__(self, L):
        self.L = L
        self.files = None
        self.cache = {}

    def _load(self):
        self.files = []
        for d in self.DIRS:
            for dp, dn, fns in os.walk(os.path.join(self.L.repo, d)):
                dn.sort()
                for fn in sorted(fns):
                    if fn.endswith(".h"):
                        path = os.path.join(dp, fn)
                        with open(path, "r", encoding="utf-8", errors="surrogateescape") as f:
                            self.files.append((os.path.relpath(path, self.L.repo), f.read()))

    def define(self, name):
        """value of the object-like macro `name` when exactly one integer value is #defined for it in the headers"""
        if self.files is None:
            self._load()
        vals = set()
        for rel, raw in self.files:
            if re.search(r"^[ \t]*#[ \t]*define[ \t]+%s\b" % re.escape(name), raw, re.M):
                mac = read_defines(blank_strings(strip_comments(raw)))
                if name in mac:
                    self.L.unit(rel)
                    vals.add(c_fold(mac[name], dict(mac)))
        return vals.pop() if len(vals) == 1 else None

    def struct(self, name):
        """(relpath, members {name: (type, extent)}, ordered member names, macros of the header) | None"""
        if name in self.cache:
            return self.cache[name]
        if self.files is None:
            self._load()
        hit = None
        for rel, raw in self.files:
            if not re.search(r"\bstruct\s+%s\s*\{" % re.escape(name), raw):
                continue
            clean = blank_strings(strip_comments(raw))
            if not re.search(r"\bstruct\s+%s\s*\{" % re.escape(name), clean):
                continue
            self.L.unit(rel)
            mem = struct_members(clean, name)
            hit = (rel, mem, list(mem), read_defines(clean))
            break
        self.cache[name] = hit
        return hit


def _chain_tree(txt, var, node):
    """record the member-access chains that start at variable `var` in the tree `node`"""
    for m in re.finditer(r"(?<![\w.>])%s\b" % re.escape(var), txt):
        if txt[:m.start()].rstrip().endswith(("->", ".")):
            continue
        cur, i = node, m.end()
        while True:
            while i < len(txt) and txt[i] in " \t\r\n":
                i += 1
            if txt.startswith("->", i) or (txt.startswith(".", i) and not txt.startswith("...", i)):
                arrow = txt.startswith("->", i)
                i += 2 if arrow else 1
                mm = re.match(r"\s*([A-Za-z_]\w*)", txt[i:])
                if not mm:
                    break
                i += mm.end()
                if arrow:
                    cur["arrow"] = True
                cur = cur["kids"].setdefault(mm.group(1), {"kids": {}, "arrow": False, "array": False})
            elif txt.startswith("[", i):
                cur["array"] = True
                i = match_close(txt, i, "[", "]") + 1
            else:
                break


def _emit_members(node, real, macros, ind):
    out = []
    order = list(real) if real else []
    for nm, sub in sorted(node["kids"].items(), key=lambda kv: order.index(kv[0]) if kv[0] in order else len(order)):
        if sub["kids"]:
            body = " ".join(_emit_members(sub, None, None, ind + 1))
            decl = "struct { %s } %s%s%s;" % (body, "*" if sub["arrow"] else "", nm, "[1]" if sub["array"] and not sub["arrow"] else "")
        else:
            decl = None
            if real and nm in real:
                typ, ext = real[nm]
                typ = " ".join(typ.split())
                if SCALAR.fullmatch(typ):
                    if ext is None:
                        decl = "%s %s;" % (typ, nm)
                    else:
                        e = 0 if not ext.strip() else c_fold(ext, macros)
                        if e is not None:
                            decl = "%s %s[%d];" % (typ, nm, e)
            if decl is None:
                decl = "int %s%s;" % (nm, "[1]" if sub["array"] else "")
        out.append(decl)
    return out


def synth_prelude(L, H, body, fname, mac_names, mac_lines, also=()):
    """declarations for everything the sliced function `fname` (and the helpers `also` defined in `body`) uses but
    does not declare"""
    txt = blank_strings(strip_comments(body))
    # struct types and the variables declared with them
    trees = {}
    for m in re.finditer(r"\bstruct\s+(\w+)", txt):
        trees.setdefault(m.group(1), {"kids": {}, "arrow": False, "array": False})
    for m in re.finditer(r"\bstruct\s+(\w+)\b\s*\*?\s*(?:const\s+)?\b(\w+)\s*(?=[\[;,=)])", txt):
        _chain_tree(txt, m.group(2), trees[m.group(1)])
    # further declarators of one declaration (`struct msgb *msg, *nmsg;`)
    for m in re.finditer(r"\bstruct\s+(\w+)\b\s*\*?\s*\w+\s*(?:=[^;,(){}]*)?((?:,\s*\*?\s*\w+\s*(?:=[^;,(){}]*)?)+);", txt):
        for d in re.finditer(r",\s*\*?\s*(\w+)", m.group(2)):
            _chain_tree(txt, d.group(1), trees[m.group(1)])
    pre = ["#include <stdint.h>", "#include <stddef.h>", "#define LOGP(ss, level, fmt, args...) ((void)(0, ## args))"]
    pre += mac_lines
    real_used = {}
    for nm in sorted(trees):
        hit = H.struct(nm)
        real, macros = (hit[1], dict(hit[3])) if hit else (None, None)
        if hit:
            real_used[nm] = hit
        mem = _emit_members(trees[nm], real, macros, 1)
        pre.append("struct %s { %s };" % (nm, " ".join(mem) if mem else "char vsa_opaque_;"))
    # callees and upper-case constants
    declared = set(C_KEYWORDS) | set(mac_names) | {"LOGP", fname} | set(also)
    funs, consts, labels = [], [], set(re.findall(r"\bcase\s+([A-Z][A-Z0-9_]*)\s*:", txt))
    for m in re.finditer(r"(?<![\w.>])([A-Za-z_]\w*)\b(\s*\()?", txt):
        nm = m.group(1)
        if nm in declared or txt[:m.start()].rstrip().endswith(("->", ".", "struct", "goto")):
            continue
        if m.group(2):
            declared.add(nm)
            funs.append(nm)
        elif re.fullmatch(r"[A-Z][A-Z0-9_]*", nm) and not (re.match(r"\s*:", txt[m.end():]) and
                                                          txt[:m.start()].rstrip()[-1:] in (";", "{", "}")):
            declared.add(nm)
            consts.append(nm)
    # a callee whose result is the operand of a unary `*` yields a pointer (`*TLVP_VAL(&tp, IE)`): what it points to
    # stays opaque octets
    pre += [("const unsigned char *%s();" if _deref_callee(txt, f) else "int %s();") % f for f in funs]
    lab = {c: H.define(c) for c in sorted(labels)}
    pre += [("enum { %s = %d };" % (c, lab[c])) if lab.get(c) is not None else "extern const int %s;" % c for c in consts]
    return pre, real_used, funs


def _deref_callee(txt, f):
    """the call `f(...)` is the operand of a unary `*` somewhere in the text (the token in front of the `*` cannot end
    an operand, so the `*` is not a multiplication)"""
    for m in re.finditer(r"\*\s*%s\s*\(" % re.escape(f), txt):
        prev = txt[:m.start()].rstrip()
        if not prev or not (prev[-1].isalnum() or prev[-1] in "_)]") or re.search(r"\breturn$", prev):
            return True
    return False


def file_scope_array(src, name):
    """declaration of the file-scope array `name` of scalars / strings that the file defines with an initialiser list
    (extent written or counted from the list), else None"""
    clean = blank_strings(strip_comments(src))
    m = re.search(r"^(?:static\s+)?((?:const\s+)?(?:%s)\s*\*?(?:\s*const\b)?)\s*%s\s*\[([^\]]*)\]\s*=\s*\{" % (
        SCALAR.pattern, re.escape(name)), clean, re.M)
    if not m or len(re.findall(r"^[^\s#].*\b%s\s*\[[^\]]*\]\s*=" % re.escape(name), clean, re.M)) != 1:
        return None
    o = m.end() - 1
    ext = c_fold(m.group(m.lastindex), read_defines(clean)) if m.group(m.lastindex).strip() else \
        len([a for a in split_args(clean[o + 1:match_close(clean, o, "{", "}")]) if a.strip()])
    return "extern %s %s[%d];" % (" ".join(m.group(1).split()), name, ext) if ext else None


def caller_slice(L, H, rel, fname, hdr_clean, inline=()):
    """FM of function `fname` of layer23 file `rel`, parsed behind a synthesised prelude.
    `inline`: private helpers of the file (callee first) whose bodies replace their calls (inline_private)"""
    with open(L.unit(rel), "r", encoding="utf-8", errors="surrogateescape") as f:
        src = f.read()
    body, first = slice_function(src, fname)
    own_body, own_first, helpers = body, first, []
    for hn in inline:
        ht, hfirst = slice_function(src, hn)
        helpers.append((hn, ht, hfirst))
    if helpers:
        body = "\n".join([h[1] for h in helpers] + [own_body])
        first = min([own_first] + [h[2] for h in helpers])
    mac, mac_lines, _ = const_macros(hdr_clean, src, first)
    ulines, unames = util_macros(L, body)
    pre, real_used, funs = synth_prelude(L, H, body, fname, set(mac) | unames, mac_lines + ulines, also=[h[0] for h in helpers])
    tmp = tempfile.mkdtemp(prefix="vsa-c20-", dir=os.environ.get("TMPDIR") or "/var/tmp")
    try:
        path = os.path.join(tmp, "caller.c")
        opaque = []
        while True:
            with open(path, "w", encoding="utf-8", errors="surrogateescape") as f:
                f.write("\n".join(pre) + "\n" + body + "\n")
            try:
                tu = TU(L.repo, "plain", "caller.c", abs_file=path, extra_flags=("-std=gnu89",), L=L)
                break
            except AnalysisError as e:
                # objects of file scope the function names (`&gsm48_rr_att_tlvdef`): clang says which identifiers have no
                # declaration; they are declared as objects of an incomplete type, so nothing but their address can be used
                new = [x for x in re.findall(r"use of undeclared identifier '(\w+)'", str(e)) if x not in opaque]
                if not new or len(opaque) > 12:
                    raise
                for x in new:
                    if x not in opaque:
                        opaque.append(x)
                        pre.append("#define %s %d" % (x, x == "true") if x in ("true", "false") else
                                   file_scope_array(src, x) or "extern struct vsa_opaque_object_ %s;" % x)
    finally:
        shutil.rmtree(tmp, ignore_errors=True)
    fd = tu.func(fname)
    L.fn(rel, fname)
    # real line = slice line + offset of the function the line belongs to (the helpers stand in front of `fname`)
    offs, at = {}, len(pre) + 1
    for (hn, ht, hfirst) in helpers:
        offs[hn] = hfirst - at
        at += ht.count("\n") + 1
    offs[fname] = own_first - at
    for (hn, site) in (inline_private(tu, fd, fname, [h[0] for h in helpers], offs) if helpers else []):
        L.fn(rel, hn)
        L.ob("C20.R0", rel, fname, "private helper %s() is analysed as part of its caller: its body replaces the call `%s` (value "
             "parameters stand for side-effect-free arguments, `*p` for the local whose address is handed over, locals and "
             "labels renamed apart, every return becomes the assignment of the result and a jump behind the body)" % (hn, site),
             "inlined", "inlined", True)
    fm = FM(tu, fd, line_off=offs[fname], dup_ok=True)
    fm.real_structs = real_used
    fm.opaque_callees = set(funs)
    return fm


def leaves(t, out=None):
    """maximal opaque subterms (variables, memory reads, calls) of a term"""
    out = set() if out is None else out
    if t[0] in ("v", "idx", "call"):
        out.add(t)
    elif t[0] != "c":
        for x in t[1:]:
            if isinstance(x, tuple):
                leaves(x, out)
    return out


def subst(t, m):
    if t in m:
        return X.C(m[t])
    if t[0] in ("c", "v"):
        return t
    return tuple(subst(x, m) if isinstance(x, tuple) else x for x in t)


def consts_of(t, out):
    if t[0] == "c":
        out.add(abs(t[1]))
    else:
        for x in t[1:]:
            if isinstance(x, tuple):
                consts_of(x, out)
    return out


def unit_linear(t, allowed):
    """t is a sum of constants and +-1 * leaf for leaves in `allowed`"""
    terms = t[1:] if t[0] == "+" else (t,)
    for x in terms:
        if X.is_c(x):
            continue
        if x[0] == "*" and len(x) == 3 and X.is_c(x[1]) and x[1][1] in (1, -1):
            x = x[2]
        if x not in allowed:
            return False
    return True


def ptr_split(fm, e):
    """pointer expression -> (base AST node, constant element offset) | None"""
    e = strip(e)
    k = kind(e)
    if k == "BinaryOperator" and e.get("opcode") in ("+", "-"):
        a, b = kids(e)
        vb, va = fm.tu.fold(b), fm.tu.fold(a)
        if vb is not None:
            r = ptr_split(fm, a)
            return None if r is None else (r[0], r[1] + (vb if e.get("opcode") == "+" else -vb))
        if va is not None and e.get("opcode") == "+":
            r = ptr_split(fm, b)
            return None if r is None else (r[0], r[1] + va)
        return None
    if k == "UnaryOperator" and e.get("opcode") == "&":
        t = strip(kids(e)[0])
        if kind(t) == "ArraySubscriptExpr":
            vi = fm.tu.fold(kids(t)[1])
            r = ptr_split(fm, kids(t)[0])
            return None if r is None or vi is None else (r[0], r[1] + vi)
        return None
    if k in ("DeclRefExpr", "MemberExpr"):
        return (e, 0)
    return None


def qt_of(n):
    return " ".join((n.get("type", {}).get("qualType", "") or "").replace("const ", "").split())


def r6_readable(L, tier):
    """C20.R6 -- caller half of the clause "no bitmap makes the decoder read ... outside its buffers".
    The decoder reads ma[0 .. len-1] for every accepted length (C20.R4 proves exactly these indices, C20.R1
    that nothing is read for len > 8).  So at every call site the octets [bitmap, bitmap + len) must exist:
      * bitmap inside a fixed array (`cd->mob_alloc_lv + 1`): offset + len <= extent for every len in 1..8 the
        dominating guards admit (extent from the real struct declaration);
      * bitmap behind a message cursor (`data + 2`, length `data[1]`) that is advanced in lock-step with a
        remaining-octets counter (`payload_len`): the guards dominating the call must imply
        offset + len <= remaining.  The guard atoms over {remaining, length octet} are unit-coefficient linear
        inequalities; they are folded over the finite box (remaining in -C..C+300, length octet in 0..255) which
        contains a counterexample whenever one exists.
    A counterexample is a message the parser accepts and for which the decoder reads behind the message, so the
    rule is a necessary condition of the property; anything it cannot classify is an ANALYSIS-ERROR."""
    R = "C20.R6"
    with open(L.unit(F_HDR), "r", encoding="utf-8", errors="surrogateescape") as f:
        hdr = blank_strings(strip_comments(f.read()))
    H = HeaderIndex(L)
    nsites = 0
    for rel in caller_files(L, tier):
        cf = CFile(L, rel)
        for fname in sorted({fi[0] for (fi, pos, args) in cf.calls(FN)}):
            nsites += r6_function(L, R, H, cf, rel, fname, hdr, (fname,))
    L.floor(R, "call sites of %s analysed for readable bitmap octets" % FN, nsites, 2)


def r6_function(L, R, H, cf, rel, fname, hdr, chain):
    """the decoder calls inside `fname` (chain[:-1]: private helpers analysed as a part of it).  A private helper that cannot be
    classified on its own -- its cursor belongs to its callers -- is analysed as a part of each function that calls it."""
    fm = slice_of(L, H, rel, fname, hdr, inline=chain[:-1])
    k = 0
    try:
        for (n, c) in fm.calls:
            if ctext(kids(c)[0]) == FN:
                r6_site(L, R, fm, rel, fname, n, c)     # obligations are recorded once every shape question is settled
                k += 1
        return k
    except AnalysisError as e:
        hosts = private_helper(cf, fname) if k == 0 and len(chain) < 3 else []
        if not hosts:
            raise
        try:
            return sum(r6_function(L, R, H, cf, rel, h, hdr, chain[:-1] + (fname, h)) for h in hosts)
        except AnalysisError as e2:
            raise AnalysisError("%s; as a part of its caller: %s" % (e, e2))


def r6_site(L, R, fm, rel, fname, n, c):
    args = kids(c)[1:]
    if len(args) != 6:
        raise AnalysisError("call of %s() in %s() with %d arguments" % (FN, fname, len(args)))
    sp = ptr_split(fm, args[1])
    if sp is None or sp[1] < 0:
        raise AnalysisError("%s(): bitmap argument `%s` is not `buffer + constant` (unclassifiable)" % (fname, ctext(args[1])[:50]))
    base, off = sp
    bname = ctext(base)
    lt = fm.lower(args[2])
    lconst = fm.tu.fold(args[2])
    lnode, ldef = strip(args[2]), None
    if lconst is None and lt[0] == "v" and lt[1] in fm.locals and lt[1] not in fm.dups and lt[1] not in fm.addr:
        defs = fm.reaching_defs(lt[1], n)
        if len(defs) != 1 or defs[0] == "undef" or defs[0].how not in ("init", "assign"):
            raise AnalysisError("%s(): length variable `%s` has no single definition at the call" % (fname, lt[1]))
        ldef = defs[0]
        lnode = strip(ldef.val)
    if lconst is None and qt_of(lnode) not in ("uint8_t", "unsigned char"):
        raise AnalysisError("%s(): length argument `%s` is a value of type %r (only an octet or a constant is modelled)" % (
            fname, ctext(args[2])[:40], qt_of(lnode)))
    xdom = [lconst] if lconst is not None else list(range(0, 256))
    bt = qt_of(base)
    m = re.fullmatch(r"(.+?)\s*\[(\d+)\]", bt)
    where = "call of %s() in %s()" % (FN, fname)
    if m:
        # ---- fixed array
        if _SIZE1.fullmatch(m.group(1)) is None:
            raise AnalysisError("%s(): bitmap buffer `%s` has element type %r (octets expected)" % (fname, bname, m.group(1)))
        ext = int(m.group(2))
        if kind(base) == "MemberExpr":
            st = re.sub(r"[\s\*]+$", "", qt_of(strip(kids(base)[0]))).replace("struct ", "")
            real = fm.real_structs.get(st)
            if real is None or base.get("name") not in real[1] or not SCALAR.fullmatch(" ".join(real[1][base.get("name")][0].split())):
                raise AnalysisError("%s(): extent of `%s` unknown (struct %s not found in the headers of the tree)" % (fname, bname, st))
            decl = "%s %s[%d] in struct %s (%s)" % (m.group(1), base.get("name"), ext, st, real[0])
        else:
            nm = base.get("referencedDecl", {}).get("name")
            if nm not in fm.locals or nm in fm.dups:
                raise AnalysisError("%s(): bitmap buffer `%s` is not a local array (unclassifiable)" % (fname, bname))
            decl = "%s %s[%d]" % (m.group(1), nm, ext)
        xl = {lt} | ({fm.lower(ldef.val)} if ldef is not None else set())
        use = usable_atoms(fm, fname, n, xl, set(), [lt[1]] if ldef is not None else [])
        bad = None
        for x in xdom:
            if 1 <= x <= MAXLEN and holds(use, {k: x for k in xl}) and off + x > ext:
                bad = x
                break
        L.ob(R, rel, fname, "%s: the bitmap `%s` of `%s` octets lies inside %s for every length the decoder reads (1..%d)" % (
            where, ctext(args[1]), ctext(args[2]), decl, MAXLEN),
            "%d + len <= %d" % (off, ext), "holds for len in 1..%d" % MAXLEN if bad is None else
            "len = %d needs %d octets, the array has %d" % (bad, off + bad, ext), bad is None, fm.line(c))
        return
    # ---- message cursor with a remaining-octets counter
    if kind(base) != "DeclRefExpr" or "*" not in bt or _SIZE1.fullmatch(bt.replace("*", "").strip()) is None:
        raise AnalysisError("%s(): bitmap buffer `%s` (%s) is neither an octet array nor an octet cursor" % (fname, bname, bt))
    P = base.get("referencedDecl", {}).get("name")
    if P not in fm.locals or P in fm.dups or P in fm.addr:
        raise AnalysisError("%s(): cursor `%s` is not a plain local pointer (unclassifiable)" % (fname, P))
    Rv, pairs = remaining_of(fm, fname, P)
    if qt_of(fm.locals[Rv]) not in ("int", "long", "ssize_t", "int32_t", "int16_t"):
        raise AnalysisError("%s(): the remaining-octets counter `%s` has type %r (signed arithmetic is modelled)" % (fname, Rv, qt_of(fm.locals[Rv])))
    # no opaque macro gets hold of the cursor / counter by name
    for (cn, cc) in fm.calls:
        cal = ctext(kids(cc)[0])
        if re.fullmatch(r"[A-Z][A-Z0-9_]*", cal) and cal in fm.opaque_callees:
            for x in walk(cc):
                if kind(x) == "DeclRefExpr" and x.get("referencedDecl", {}).get("name") in (P, Rv):
                    raise AnalysisError("%s(): `%s` is handed to the unknown macro %s()" % (fname, x["referencedDecl"]["name"], cal))
    for w in fm.memwrites:
        if X.V(P) in subterms(fm.norm(kids(w.ast)[0], True)[0]):
            raise AnalysisError("%s(): store through the message cursor `%s`" % (fname, P))
    # the length octet: P[b], directly or through a local that holds it
    xl, extra, src = {lt}, [], lt
    if ldef is not None:
        src = fm.lower(ldef.val)
        if any(n.id in fm.reach_succ(w.node, skip=[ldef.node]) for v in (P, lt[1]) for w in fm.writes.get(v, []) if w is not ldef):
            raise AnalysisError("%s(): `%s` or `%s` changes between the definition of the length and the call" % (fname, P, lt[1]))
        xl.add(src)
        extra = [lt[1]]
    if lconst is None and not (src[0] == "idx" and src[1] == X.V(P) and X.is_c(src[2]) and src[2][1] >= 0):
        raise AnalysisError("%s(): length argument `%s` is not an octet read through the cursor `%s`" % (fname, ctext(args[2])[:40], P))
    use = usable_atoms(fm, fname, n, xl, {X.V(Rv)}, [P, Rv] + extra, cursor=P)
    cs = {off, MAXLEN}
    for (t, p) in use:
        consts_of(t, cs)
    C = max(cs) + 2
    bad = None
    for r in list(range(0, C + 300)) + list(range(-1, -C - 1, -1)):
        for x in xdom:
            if 1 <= x <= MAXLEN and off + x > r:
                vals = {X.V(Rv): r}
                vals.update({k: x for k in xl})
                if holds(use, vals):
                    bad = (r, x)
                    break
        if bad:
            break
    gtxt = " && ".join(sorted({("%s" if p else "!%s") % X.show(t) for (t, p) in use})) or "none"
    L.floor(R, "advances of the message cursor `%s` paired with `%s` in %s()" % (P, Rv, fname), pairs, 1)
    for txt in getattr(fm, "assumed", []):
        L.assume(txt)
    L.ob(R, rel, fname, "%s: the guards dominating the call imply that the bitmap `%s` of `%s` octets lies inside the `%s` octets "
         "left at the message cursor `%s`" % (where, ctext(args[1]), ctext(args[2]), Rv, P),
         "%d + %s <= %s for every admitted value" % (off, ctext(args[2]), Rv),
         "implied by %s (cursor and counter advance together at %d places)" % (gtxt, pairs) if bad is None else
         "guards (%s) admit %s = %d with %s = %d: the decoder reads %d octet(s) behind the message" % (
             gtxt, Rv, bad[0], ctext(args[2]), bad[1], off + bad[1] - max(bad[0], 0)),
         bad is None, fm.line(c))


_SIZE1 = re.compile(r"(uint8_t|unsigned char|char|int8_t|signed char)")


def holds(use, vals):
    for (t, p) in use:
        try:
            if bool(ev(subst(t, vals), {})) != p:
                return False
        except Unknown as u:
            raise AnalysisError("guard `%s` cannot be folded (%s)" % (X.show(t), u))
    return True


def usable_atoms(fm, fname, n, xleaves, rleaves, names, cursor=None):
    """guard atoms at `n` that speak only about the length octet / the remaining counter: [(term, pol)].
    Atoms about other things are independent of the claim and dropped; atoms that mix, that are not
    unit-coefficient linear comparisons, or that tested a value which changed since, end the analysis."""
    out = []
    mine = set(xleaves) | set(rleaves)
    mnames = {y[1] for x in mine for y in subterms(x) if y[0] == "v"} | set(names)
    for (c, l) in fm.g.guards(n):
        if (c.kind != "cond" or not isinstance(l, bool)) and getattr(c, "cond", None) is not None:
            if any(kind(x) == "DeclRefExpr" and x.get("referencedDecl", {}).get("name") in mnames for x in walk(c.cond)):
                raise AnalysisError("%s(): the call is guarded by a %s on `%s` (only if-conditions are folded)" % (
                    fname, c.kind, ctext(c.cond)[:40]))
    for a in fm.atoms(n):
        t, p = a[0], a[1]
        lv = leaves(t)
        rel = lv & mine
        for x in lv - mine:
            if subterms(x) & mine:
                raise AnalysisError("%s(): guard `%s` uses the length inside `%s`, which the rule cannot fold" % (fname, X.show(t), X.show(x)))
        if rel:
            for x in walk(a[2].cond):
                if kind(x) in ("ImplicitCastExpr", "CStyleCastExpr") and x.get("castKind") in ("IntegralCast", None) and \
                        re.search(r"\b(unsigned|size_t|uint\d+_t)\b", x.get("type", {}).get("qualType", "")) and \
                        any(kind(y) == "DeclRefExpr" and y.get("referencedDecl", {}).get("name") in names for y in walk(x)):
                    raise AnalysisError("%s(): guard `%s` compares after a conversion to %s (wrap-around not modelled)" % (
                        fname, ctext(a[2].cond)[:50], x.get("type", {}).get("qualType")))
        if cursor is not None:
            for x in lv - mine:
                if X.V(cursor) in subterms(x) and not (x[0] == "idx" and x[1] == X.V(cursor) and X.is_c(x[2])):
                    raise AnalysisError("%s(): guard `%s` reads the message in a way the rule cannot classify" % (fname, X.show(t)))
        if not rel:
            continue
        if lv - mine:
            raise AnalysisError("%s(): guard `%s` mixes the length with other values (unclassifiable)" % (fname, X.show(t)))
        if t[0] == "cmp":
            if not (unit_linear(t[2], mine) and unit_linear(t[3], mine)):
                raise AnalysisError("%s(): guard `%s` is not a unit-coefficient linear comparison" % (fname, X.show(t)))
        elif t not in mine:
            raise AnalysisError("%s(): guard `%s` has a shape the rule cannot fold" % (fname, X.show(t)))
        mentioned = set()
        for x in rel:
            for y in subterms(x):
                if y[0] == "v" and y[1] in names:
                    mentioned.add(y[1])
        if mentioned and not fm.stable(n, a, sorted(mentioned)):
            raise AnalysisError("%s(): guard `%s` tests a value that changes before the call" % (fname, X.show(t)))
        out.append((t, p))
    return out


def remaining_of(fm, fname, P):
    """the integer local that counts the octets left at cursor P: every advance `P += k` stands next to
    `R -= k` with the same k, every other write of R is its initialisation from the message length.
    -> (R, number of paired advances)"""
    adv = [w for w in fm.writes.get(P, []) if w.how not in ("init",)]
    inits = [w for w in fm.writes.get(P, []) if w.how == "init"]
    if len(inits) != 1 or not adv:
        raise AnalysisError("%s(): cursor `%s` has %d initialisations and %d advances: the remaining-octets counter cannot be identified" % (
            fname, P, len(inits), len(adv)))
    Rn, used = None, set()
    for w in adv:
        if w.how != "aug+=":
            raise AnalysisError("%s(): cursor `%s` is changed by `%s` (only `+=` is modelled)" % (fname, P, ctext(w.ast)[:40]))
        k = fm.lower(w.val)
        part = None
        nb = []
        if len(w.node.succ) == 1 and len(w.node.succ[0][0].pred) == 1:
            nb.append((w.node.succ[0][0], "after"))
        if len(w.node.pred) == 1 and len(w.node.pred[0][0].succ) == 1:
            nb.append((w.node.pred[0][0], "before"))
        for (q, side) in nb:
            for v, ws in fm.writes.items():
                for w2 in ws:
                    if w2.node is q and w2.how == "aug-=" and v in fm.locals and v not in fm.dups and v not in fm.addr and \
                            "*" not in qt_of(fm.locals[v]) and fm.lower(w2.val) == k:
                        first_writes = P if side == "after" else v
                        if X.V(first_writes) in subterms(k):
                            raise AnalysisError("%s(): the amount `%s` is re-evaluated after `%s` changed" % (fname, X.show(k), first_writes))
                        part = (v, w2)
        if part is None:
            raise AnalysisError("%s(): advance `%s` has no matching decrement of a remaining-octets counter next to it" % (
                fname, ctext(w.ast)[:40]))
        if Rn is not None and part[0] != Rn:
            raise AnalysisError("%s(): cursor `%s` is paired with two counters (%s, %s)" % (fname, P, Rn, part[0]))
        Rn = part[0]
        used.add(id(part[1]))
    rest = [w for w in fm.writes.get(Rn, []) if id(w) not in used]
    if len(rest) != 1 or rest[0].how != "init":
        raise AnalysisError("%s(): counter `%s` is written at places that are not paired with the cursor" % (fname, Rn))
    anchor(fm, fname, P, inits[0], Rn, rest[0])
    return Rn, len(adv)


def anchor(fm, fname, P, wp, Rn, wr, depth=0):
    """initial pairing: P = msg->tail and R = len - sizeof(*msg), tail being the trailing flexible member; or
    P = P0 and R = R0, copies of another cursor / counter pair (P0, R0) of the function (the working copies of an inlined
    helper) that still hold their own initial pairing where the copies are taken: the initialisation is the only definition of
    P0 that reaches the copy of P0, and likewise for R0 (both are expressions of never-written parameters, so the order of the
    two copies does not matter)"""
    pv = strip(wp.val, casts=True)
    rv = strip(wr.val)
    if kind(pv) == "DeclRefExpr" and kind(rv) == "DeclRefExpr" and depth < 3:
        P0, R0 = pv.get("referencedDecl", {}).get("name"), rv.get("referencedDecl", {}).get("name")
        if all(v in fm.locals and v not in fm.dups and v not in fm.addr for v in (P0, R0)) and \
                qt_of(fm.locals[P0]) == qt_of(fm.locals[P]) and qt_of(fm.locals[R0]) == qt_of(fm.locals[Rn]):
            dp, dr = fm.reaching_defs(P0, wp.node), fm.reaching_defs(R0, wr.node)
            if len(dp) != 1 or len(dr) != 1 or "undef" in dp + dr or dp[0].how != "init" or dr[0].how != "init":
                raise AnalysisError("%s(): cursor `%s` / counter `%s` are copies of `%s` / `%s`, which were already changed (or "
                                    "are not yet set) where the copies are taken" % (fname, P, Rn, P0, R0))
            return anchor(fm, fname, P0, dp[0], R0, dr[0], depth + 1)
    ok = kind(pv) == "MemberExpr" and pv.get("isArrow") and kind(strip(kids(pv)[0])) == "DeclRefExpr" and \
        strip(kids(pv)[0]).get("referencedDecl", {}).get("kind") == "ParmVarDecl"
    if not ok:
        raise AnalysisError("%s(): cursor `%s` does not start at a member of the message parameter (`%s`)" % (fname, P, ctext(wp.val)[:40]))
    Q = strip(kids(pv)[0]).get("referencedDecl", {}).get("name")
    st = re.sub(r"[\s\*]+$", "", qt_of(strip(kids(pv)[0])))
    rv = strip(wr.val)
    ok = kind(rv) == "BinaryOperator" and rv.get("opcode") == "-"
    if ok:
        a, b = strip(kids(rv)[0]), strip(kids(rv)[1], casts=True)
        ok = kind(a) == "DeclRefExpr" and a.get("referencedDecl", {}).get("kind") == "ParmVarDecl" and \
            fm.never_written(a.get("referencedDecl", {}).get("name")) and fm.never_written(Q) and \
            kind(b) == "UnaryExprOrTypeTraitExpr" and b.get("name") == "sizeof" and \
            " ".join((sizeof_type(b) or "").replace("const ", "").split()) == st
    if not ok:
        raise AnalysisError("%s(): counter `%s` does not start as `length - sizeof(*%s)` (`%s`)" % (fname, Rn, Q, ctext(wr.val)[:50]))
    sn = st.replace("struct ", "")
    real = fm.real_structs.get(sn)
    if real is None:
        fm_assume = "struct %s: `%s` is its trailing flexible member (struct not found in the tree)" % (sn, pv.get("name"))
        fm.assumed = getattr(fm, "assumed", []) + [fm_assume]
        return
    order, mem = real[2], real[1]
    ext = mem.get(pv.get("name"), (None, None))[1]
    if not order or order[-1] != pv.get("name") or ext is None or (ext.strip() and c_fold(ext, real[3]) != 0):
        raise AnalysisError("%s(): `%s` is not the trailing flexible member of struct %s (%s): sizeof(*%s) is not its offset" % (
            fname, pv.get("name"), sn, real[0], Q))


def sizeof_type(n):
    if "argType" in n:
        return n["argType"].get("qualType")
    ks = kids(n)
    return strip(ks[0]).get("type", {}).get("qualType") if ks else None


def caller_files(L, tier):
    rels = [F_SYS, F_RR]
    if tier == "thorough":
        top = os.path.join(L.repo, "src/host/layer23/src")
        for dp, dn, fns in os.walk(top):
            for fn in sorted(fns):
                if fn.endswith(".c"):
                    rel = os.path.relpath(os.path.join(dp, fn), L.repo)
                    if rel not in rels:
                        with open(os.path.join(dp, fn), "r", encoding="utf-8", errors="surrogateescape") as f:
                            if FN in f.read():
                                rels.append(rel)
    return rels


# ============================================== callers: both inputs present

def slice_of(L, H, rel, fname, hdr, inline=()):
    """caller_slice, parsed once per run"""
    memo = L.__dict__.setdefault("_c20_slices", {})
    key = (rel, fname) + tuple(inline)
    if key not in memo:
        memo[key] = caller_slice(L, H, rel, fname, hdr, inline=tuple(inline))
    return memo[key]


def private_helper(cf, name):
    """`name` is a function of the file with internal linkage that is only ever called (its address is not taken): it runs
    as a part of the functions of this file that call it, nowhere else.  -> names of these callers ([] if not private)"""
    try:
        text, _ = slice_function(cf.src, name)
    except AnalysisError:
        return []
    head = blank_strings(strip_comments(text)).split("(", 1)[0]
    if not re.search(r"\bstatic\b", head):
        return []
    for m in re.finditer(r"\b%s\b" % re.escape(name), cf.clean):
        if not re.match(r"\s*\(", cf.clean[m.end():]) or cf.clean[:m.start()].rstrip().endswith(("&", "->", ".")):
            return []
    return sorted({fi[0] for (fi, pos, args) in cf.calls(name)} - {name})


_STORE_OPS = r"(?:=(?!=)|\+\+|--|[-+*/%&|^]=|<<=|>>=)"


def ready_states(fm, fname, n):
    """What the object handed to `fname` must look like for the decoder call at CFG node `n` to be made: the guard
    atoms that dominate the call and read a member of a structure parameter of `fname` (`s->si1`), resolved from the
    conditions themselves (tested temporaries replaced by the value they hold).
    -> [{"param", "pidx", "path", "var", "term", "pol", "cond"}]; a condition on the structure that is not a test of one
    plain member ends the analysis."""
    sp = [p for p in fm.params if "*" in fm.ptype.get(p, "") and "struct" in fm.ptype.get(p, "") and fm.never_written(p)]
    out = []
    for (c, l) in fm.g.guards(n):
        if getattr(c, "cond", None) is None:
            continue
        named = {x.get("referencedDecl", {}).get("name") for x in walk(c.cond) if kind(x) == "DeclRefExpr"}
        if c.kind != "cond" or not isinstance(l, bool):
            if named & set(sp):
                raise AnalysisError("%s(): the decoder call is guarded by a %s on `%s` (only if-conditions are resolved)" % (
                    fname, c.kind, ctext(c.cond)[:40]))
            continue
        for (e, p) in conj_atoms(c.cond, l):
            t, p2 = fm.norm(e, p)
            t2 = fm.subst_temps(t, c)
            if t2 != t:
                t, p2 = fm.norm_term(t2, p2)
            fv = free_vars(t)
            mine = {v for v in fv if any(v.startswith(q + "->") for q in sp)}
            if any(v.startswith("<opaque") for v in fv) and named & set(sp):
                mine = set()            # could not be lowered: decided on the AST below
            elif not mine and not fv & set(sp):
                continue
            if len(mine) != 1 or (fv - mine):
                # not a test of one member of the object: evaluated for the arguments of each re-run (RerunEval)
                out.append({"complex": True, "expr": e, "pol": p, "cond": c, "text": ctext(e)})
                continue
            var = mine.pop()
            q, path = var.split("->", 1)
            if not re.fullmatch(r"\w+(\.\w+)*", path):
                raise AnalysisError("%s(): tested state `%s` is not a plain member of the object" % (fname, var))
            try:
                for v in (0, 1):
                    ev(t, {var: v})
            except Unknown as u:
                raise AnalysisError("%s(): condition `%s` on the object cannot be folded (%s)" % (fname, ctext(e)[:60], u))
            for w in fm.memwrites:
                if ctext(kids(w.ast)[0]) == var and (n.id in fm.reach_succ(w.node) or w.node is n):
                    raise AnalysisError("%s(): `%s` is written inside the function before the decoder call" % (fname, var))
            out.append({"param": q, "pidx": fm.params.index(q), "path": path, "var": var, "term": t, "pol": p2, "cond": c})
    return out


def stmt_text(a):
    t = ctext(a)
    return t[1:-1] if t.startswith("(") and match_close(t, 0) == len(t) - 1 else t


def reaching_stores(fm, lv, node):
    """stores into the lvalue with canonical text `lv` whose value can still be there at `node` (+ "entry" when `node`
    is reachable without passing any of them)"""
    at = {}
    for w in fm.memwrites:
        if ctext(kids(w.ast)[0]) == lv:
            at.setdefault(w.node.id, []).append(w)
    out, seen = [], set()
    work = [p for (p, _) in node.pred]
    while work:
        x = work.pop()
        if x.id in seen:
            continue
        seen.add(x.id)
        if x.id in at:
            out.append(at[x.id][-1])
            continue
        if x is fm.g.entry:
            out.append("entry")
            continue
        work += [p for (p, _) in x.pred]
    return out


CMP_FNS = ("memcmp", "__builtin_memcmp", "bcmp", "__builtin_bcmp")


class RerunEval(object):
    """Three-valued value of a condition of the parser `pm` in the state it is entered in by the call `c` at CFG node
    `n` of the function `g` (the re-run of the parser for the stored message).  Values: ("i", int), ("t", truth),
    ("p", object, octet offset) with the object in the caller's normal form (lvalue_object); None = not determined.
      parameters      the call's arguments, evaluated in the caller (constants folded by clang; pointers resolved to
                      the object they designate: a member of the structure parameter, a local array)
      members         of the structure handed on: arrays are their address; scalars have the constant every store
                      reaching the call gives them, else the truth value a guard dominating the call established
      p == q          equal for one object, different for objects that cannot overlap
      memcmp(p, q, k) 0 for one object; 0 when one side is a local array of the caller that was filled, as a whole, by
                      a copy from the other side's object, nothing was stored in between and k does not exceed the copy"""

    def __init__(self, pm, g, n, c, writes_member):
        self.pm, self.g, self.n, self.c = pm, g, n, c
        self.bind = dict(zip(pm.params, kids(c)[1:]))
        self.writes_member = writes_member
        self.notes = []
        self.at, self.dirty = None, set()       # CFG node of the parser the expression is evaluated at; nodes behind its first write

    # ---- caller side
    def _sizes_ok(self, fm, e):
        for x in walk(e):
            if kind(x) == "UnaryExprOrTypeTraitExpr":
                a = strip(kids(x)[0]) if kids(x) else None
                if a is not None and kind(a) == "DeclRefExpr" and a.get("referencedDecl", {}).get("name") in fm.locals and \
                        re.fullmatch(r"(%s)\s*\[\d+\]" % SCALAR.pattern, qt_of(a)):
                    continue
                if not sizeof_ok(fm, x):
                    return False
        return True

    def caller(self, e):
        g = self.g
        v = g.tu.fold(e)
        if v is not None:
            return ("i", v) if self._sizes_ok(g, e) else None
        if "*" in qt_of(strip(e)) or "[" in qt_of(strip(e)) or "*" in qt_of(strip(e, casts=True)):
            try:
                return ("p", pointer_object(g, e, self.n), 0)
            except AnalysisError:
                return None
        return None

    def member(self, obj, qt):
        """value of the scalar member `obj` of the caller's object when the call is made"""
        g, lv = self.g, fmt_obj(obj)
        name = obj[1][-1]
        if self.writes_member(name):
            return None
        for w in g.memwrites:
            l = strip(kids(w.ast)[0])
            if kind(l) == "MemberExpr" and l.get("name") == name and ctext(l) != lv:
                return None
        rs = reaching_stores(g, lv, self.n)
        vals = {g.tu.fold(w.val) if w != "entry" and w.how == "assign" and w.val is not None else None for w in rs if w != "entry"}
        if "entry" not in rs and len(vals) == 1 and None not in vals:
            return ("i", vals.pop())
        if rs == ["entry"]:
            for (t, p, c0, l) in g.atoms(self.n):
                if t == X.V(lv):
                    self.notes.append("`%s` is %s at the call (guard)" % (lv, "set" if p else "clear"))
                    return ("t", p)
        return None

    # ---- callee side
    def val(self, e, depth=0):
        pm = self.pm
        if e is None or depth > 40:
            return None
        k, ks = kind(e), kids(e)
        if k in ("ParenExpr", "ConstantExpr"):
            return self.val(ks[0], depth + 1)
        if k in ("ImplicitCastExpr", "CStyleCastExpr"):
            v = self.val(ks[0], depth + 1)
            if v is not None and v[0] == "t" and e.get("castKind") == "IntegralCast":
                # a widening conversion keeps zero / non-zero
                t0, t1 = int_type(pm.tu, ks[0].get("type", {})), int_type(pm.tu, e.get("type", {}))
                return v if t0 is not None and t1 is not None and t1[0] >= t0[0] else None
            if v is None or v[0] != "i":
                return v if e.get("castKind") in ("LValueToRValue", "NoOp", "BitCast", "ArrayToPointerDecay", "IntegralToBoolean",
                                                  "PointerToBoolean") else None
            if e.get("castKind") in ("LValueToRValue", "NoOp"):
                return v
            it = int_type(pm.tu, e.get("type", {}))
            return ("i", _wrap(v[1], it)) if it is not None else None
        if k == "UnaryExprOrTypeTraitExpr" or (k == "IntegerLiteral"):
            v = pm.tu.fold(e)
            return ("i", v) if v is not None and self._sizes_ok(pm, e) else None
        if k == "DeclRefExpr":
            nm = e.get("referencedDecl", {}).get("name")
            if e.get("referencedDecl", {}).get("kind") == "EnumConstantDecl":
                v = pm.tu.fold(e)
                return ("i", v) if v is not None else None
            if nm in self.bind and nm in pm.params and pm.never_written(nm) and nm not in pm.dups:
                return self.caller(self.bind[nm])
            if nm in pm.locals and nm not in pm.addr and nm not in pm.dups and self.at is not None:
                # a temporary: its one reaching definition, evaluated where it stands
                defs = pm.reaching_defs(nm, self.at)
                if len(defs) == 1 and defs[0] != "undef" and defs[0].how in ("init", "assign") and defs[0].val is not None and \
                        defs[0].node is not self.at and pm._readonly(defs[0].val) and defs[0].node.id not in self.dirty:
                    keep, self.at = self.at, defs[0].node
                    try:
                        v = self.val(defs[0].val, depth + 1)
                    finally:
                        self.at = keep
                    it = int_type(pm.tu, pm.locals[nm].get("type", {}))
                    return ("i", _wrap(v[1], it)) if v is not None and v[0] == "i" and it is not None else (v if v is None or v[0] == "p" else None)
            return None
        if k == "MemberExpr":
            try:
                b, p = lvalue_object(pm, e, pm.g.entry)
            except AnalysisError:
                return None
            q = b[1:] if b.startswith("*") else None
            base = self.caller(self.bind[q]) if q in self.bind and pm.never_written(q) else None
            if base is None or base[0] != "p" or base[2] != 0:
                return None
            obj = (base[1][0], base[1][1] + p)
            if "[" in qt_of(e):
                return ("p", obj, 0)
            if "*" in qt_of(e) or qt_of(e).startswith(("struct ", "union ")):
                return None
            return self.member(obj, qt_of(e))
        if k == "UnaryOperator":
            op = e.get("opcode")
            if op == "!":
                t = self.truth(ks[0], depth + 1)
                return None if t is None else ("i", int(not t))
            if op == "&":
                x = strip(ks[0])
                if kind(x) == "MemberExpr" and "[" in qt_of(x):
                    return self.val(x, depth + 1)
                if kind(x) == "ArraySubscriptExpr" and pm.tu.fold(kids(x)[1]) == 0:
                    return self.val(kids(x)[0], depth + 1)
            return None
        if k == "ConditionalOperator":
            t = self.truth(ks[0], depth + 1)
            if t is None:
                a, b = self.val(ks[1], depth + 1), self.val(ks[2], depth + 1)
                return a if a is not None and a == b else None
            return self.val(ks[1] if t else ks[2], depth + 1)
        if k == "BinaryOperator":
            op = e.get("opcode")
            if op in ("&&", "||"):
                a, b = self.truth(ks[0], depth + 1), self.truth(ks[1], depth + 1)
                if op == "&&":
                    r = False if a is False or b is False else (True if a and b else None)
                else:
                    r = True if a or b else (False if a is False and b is False else None)
                return None if r is None else ("i", int(r))
            a, b = self.val(ks[0], depth + 1), self.val(ks[1], depth + 1)
            if a is None or b is None:
                return None
            if a[0] == "p" and b[0] == "p" and op in ("==", "!="):
                if a[1] == b[1]:
                    eq = a[2] == b[2]
                else:
                    d = objects_differ(a[1], b[1])
                    if d is not True:
                        return None
                    eq = False
                return ("i", int(eq == (op == "==")))
            if a[0] == "i" and b[0] == "i":
                x, y = a[1], b[1]
                f = {"+": lambda: x + y, "-": lambda: x - y, "*": lambda: x * y, "<": lambda: int(x < y), ">": lambda: int(x > y),
                     "<=": lambda: int(x <= y), ">=": lambda: int(x >= y), "==": lambda: int(x == y), "!=": lambda: int(x != y),
                     "&": lambda: x & y, "|": lambda: x | y}.get(op)
                it = int_type(pm.tu, e.get("type", {}))
                return ("i", _wrap(f(), it)) if f is not None and it is not None else None
            if op in ("==", "!=") and {a[0], b[0]} == {"t", "i"}:
                t, i = (a, b) if a[0] == "t" else (b, a)
                if i[1] == 0:
                    return ("i", int((not t[1]) == (op == "==")))
            return None
        if k == "CallExpr" and _callee(e) in CMP_FNS and len(ks) == 4:
            return self.compare(ks[1], ks[2], ks[3], depth)
        return None

    def truth(self, e, depth=0):
        v = self.val(e, depth)
        if v is None:
            return None
        return True if v[0] == "p" else (v[1] if v[0] == "t" else v[1] != 0)

    def compare(self, ea, eb, ek, depth):
        a, b, k = self.val(ea, depth + 1), self.val(eb, depth + 1), self.val(ek, depth + 1)
        if a is None or b is None or a[0] != "p" or b[0] != "p":
            return None
        if a[1] == b[1] and a[2] == b[2]:
            return ("i", 0)
        if k is None or k[0] != "i" or a[2] or b[2]:
            return None
        for (loc, other) in ((a[1], b[1]), (b[1], a[1])):
            m = self.copy_of(loc, other)
            if m is not None and 0 <= k[1] <= m:
                self.notes.append("the local `%s` holds a copy of `%s` (%d octets, %d compared)" % (loc[0], fmt_obj(other), m, k[1]))
                return ("i", 0)
        return None

    def copy_of(self, loc, other):
        """number of leading octets of the caller's local array `loc` that equal those of the object `other` at the call"""
        g = self.g
        if loc[0].startswith("*") or loc[1] or loc[0] not in g.locals or not re.fullmatch(
                r"(%s)\s*\[\d+\]" % _SIZE1.pattern, qt_of(g.locals[loc[0]])):
            return None
        nm = loc[0]
        fills = []
        for (n, c) in g.calls:
            if c is self.c or not any(_mentions(x, name=nm) for x in kids(c)[1:]):
                continue
            fills.append((n, c))
        alias = {v for v, ws in g.writes.items() for w in ws if w.val is not None and _mentions(w.val, name=nm)}
        if len(fills) != 1 or any(g.store_base(kids(w.ast)[0]) in alias | {nm} for w in g.memwrites) or any(
                c2 is not self.c and any(_mentions(x, name=v) for x in kids(c2)[1:] for v in alias) for (_, c2) in g.calls):
            return None
        (n, c) = fills[0]
        args = kids(c)[1:]
        if _callee(c) not in COPY_FNS or len(args) < 3 or not g.g.dominates(n, self.n) or n is self.n:
            return None
        try:
            d, s = pointer_object(g, args[0], n), pointer_object(g, args[1], n)
        except AnalysisError:
            return None
        m = g.tu.fold(args[2])
        if d != loc or s != other or m is None or not self._sizes_ok(g, args[2]):
            return None
        # nothing is stored into either side between the copy and the call
        after = g.reach_succ(n)
        mid = {x.id for x in g.g.nodes if x.id in after and x is not self.n and self.n.id in g.reach_succ(x)}
        for w in g.memwrites:
            if w.node.id in mid and (g.store_base(kids(w.ast)[0]) == nm or
                                     any(kind(x) == "MemberExpr" and x.get("name") == other[1][-1] for x in walk(kids(w.ast)[0]))):
                return None
        for (n2, c2) in g.calls:
            cal = _callee(c2)
            if n2.id in mid and (cal is None or cal in COPY_FNS or cal in ("memset", "bzero", "__builtin_memset") or
                                 self.writes_member(None, cal)):
                return None
        return m


def member_store_pat(member):
    """source text of a store into the member `member` of some object"""
    return re.compile(r"(?:->|\.)\s*%s\s*%s|(?:\+\+|--)\s*\w+(?:\s*(?:->|\.)\s*\w+)*\s*(?:->|\.)\s*%s\b(?!\s*(?:->|\.|\[|\())" % (
        re.escape(member), _STORE_OPS, re.escape(member)))


def r9_rerun(L, R, cf, pm, pname, g, gname, runs, cplx):
    """The parser's conditions, evaluated (RerunEval) for the arguments of each re-run for the stored message, must leave
    its decoder call reachable.  Conditions that are tested before the parser has written anything (no store, no copy,
    no call of a function of the file on any way to them) are evaluated in the state of the call; the CFG is walked from
    the entry along the branches they select (both branches where the value is not determined, and behind the first
    write).  `cplx`: conditions in front of the decoder call that are not a test of one member (`the message is a
    repetition of the stored one`) -- these must be determined."""
    files = {f[0]: (f[2], f[3]) for f in cf.funcs}
    effect = {w.node.id for w in pm.memwrites} | {
        n2.id for (n2, c2) in pm.calls if _callee(c2) is None or _callee(c2) in files or _callee(c2) in COPY_FNS or
        _callee(c2) in ("memset", "bzero", "__builtin_memset")}
    dirty = set()
    for x in pm.g.nodes:
        if x.id in effect:
            dirty |= pm.reach_succ(x) | {x.id}
    targets = {n.id for (n, c) in pm.calls if ctext(kids(c)[0]) == FN}
    for r in cplx:
        if r["cond"].id in dirty:
            raise AnalysisError("%s(): the decoder call waits for `%s`, which is tested after the object / the message was "
                                "written: not evaluated" % (pname, r["text"][:60]))
    for k, (n, c) in enumerate(runs):
        def writes_member(member, callee=None, n=n):
            if callee is not None:
                return callee in files
            pat = member_store_pat(member)
            return any(n2 is not n and n.id in g.reach_succ(n2) and _callee(c2) in files and _callee(c2) != gname and
                       pat.search(cf.clean[files[_callee(c2)][0]:files[_callee(c2)][1]]) for (n2, c2) in g.calls)
        if len(kids(c)) - 1 != len(pm.params):
            raise AnalysisError("call of %s() in %s() with %d arguments" % (pname, gname, len(kids(c)) - 1))
        ev3 = RerunEval(pm, g, n, c, writes_member)
        ev3.dirty = dirty
        for r in cplx:
            ev3.at = r["cond"]
            if ev3.truth(r["expr"]) is None:
                raise AnalysisError("%s(): the decoder call waits for `%s`; whether that holds when %s() re-runs the parser (`%s`) "
                                    "cannot be determined" % (pname, r["text"][:80], gname, stmt_text(c)[:60]))
        seen, work, decided = set(), [pm.g.entry], []
        while work:
            x = work.pop()
            if x.id in seen:
                continue
            seen.add(x.id)
            t = None
            if x.kind == "cond" and x.id not in dirty and getattr(x, "cond", None) is not None:
                ev3.at = x
                t = ev3.truth(x.cond)
                if t is not None:
                    decided.append((x, t))
            work += [y for (y, l) in x.succ if t is None or not isinstance(l, bool) or l == t]
        ok = bool(targets & seen)
        why = "; ".join(dict.fromkeys(ev3.notes))
        dtxt = "; ".join("`%s` %s" % (ctext(x.cond)[:140], "holds" if t else "fails") for (x, t) in decided)
        L.ob(R, F_SYS, gname, "re-run of %s() for the stored message%s: with the parser's conditions evaluated for the arguments of "
             "the re-run, its call of %s() stays reachable" % (pname, " (#%d)" % (k + 1) if len(runs) > 1 else "", FN),
             "%s() reachable for `%s`" % (FN, stmt_text(c)[:60]),
             ("reachable (%s)" % (dtxt or "no condition is tested before the parser's first write")) if ok else
             "%s%s: %s() leaves before %s(), the hopping list is not computed again from the cell allocation that %s() has just "
             "stored (channels of the previous allocation stay in it; a bitmap that arrived first is never decoded)" % (
                 dtxt, " (%s)" % why if why else "", pname, FN, gname),
             ok, g.line(c))


def r9_ready(L, tier):
    """C20.R9 -- caller half of the clause "the decoded hopping list contains exactly the cell-allocation channels whose
    bit is set": it speaks about the list once the cell allocation (SI1) and the bitmap (SI4) are both present, in
    whichever order they arrived.  The parser that feeds the decoder (gsm48_decode_sysinfo4) makes the decoder call only
    in a certain state of the object (`s->si1` set: the guard atoms dominating the call, resolved by name from its
    conditions); a function of sysinfo.c that establishes this state itself (stores the member) and re-runs the parser
    for the stored message is the only place where a bitmap that arrived first gets decoded.  So at that re-run the
    state must already be established: every store of the member that can reach the call holds a value for which the
    parser's guard is passed, and the call cannot be reached without such a store (dominance of the store over the
    call on the statement CFG).  If no store reaches the call the member still has the value it had before the first
    message (clear), the parser skips the decoder and the list stays empty although bits are set: violation.  A call
    that fails is tolerated when another re-run on the same object that passes lies on every way from it to the exit.
    Mixed situations (some paths with, some without a store; stored values that are not constants; the member written
    through another name or inside another function of sysinfo.c called from here) are not classified: ANALYSIS-ERROR.
    The same clause demands that the re-run really gets to the decoder: r9_rerun evaluates the conditions the parser tests
    before its first write for the arguments of the re-run (a test `this message repeats the stored one` holds for the
    stored message itself and for a copy of it) and walks the parser's CFG along the decided branches; a re-run that
    cannot reach the decoder call leaves the list computed from the previous cell allocation: violation."""
    R = "C20.R9"
    with open(L.unit(F_HDR), "r", encoding="utf-8", errors="surrogateescape") as f:
        hdr = blank_strings(strip_comments(f.read()))
    H = HeaderIndex(L)
    cf = CFile(L, F_SYS)
    nsites, nflags, nruns, ncplx = 0, 0, 0, 0
    work = [(pname,) for pname in sorted({fi[0] for (fi, pos, args) in cf.calls(FN)})]
    while work:
        chain = work.pop(0)
        pname = chain[-1]
        fm = slice_of(L, H, F_SYS, pname, hdr, inline=chain[:-1])
        reqs, cplx = [], []
        for (n, c) in fm.calls:
            if ctext(kids(c)[0]) != FN:
                continue
            nsites += 1
            for r in ready_states(fm, pname, n):
                if r.get("complex"):
                    if (r["text"], r["pol"]) not in [(x["text"], x["pol"]) for x in cplx]:
                        cplx.append(r)
                elif (r["var"], r["pol"], r["term"]) not in [(x["var"], x["pol"], x["term"]) for x in reqs]:
                    reqs.append(r)
        callers = sorted({fi[0] for (fi, pos, args) in cf.calls(pname)} - {pname})
        # a private helper (static, only ever called) awaits the state as a part of the functions that call it: when none of
        # them stores an awaited member, the parser that the establishing function re-runs is the caller with the helper's
        # body in the place of the call
        hosts = private_helper(cf, pname) if reqs and len(chain) < 3 else []
        if hosts:
            members = {r["path"].split(".")[-1] for r in reqs}
            stores = [gn for gn in callers for w in slice_of(L, H, F_SYS, gn, hdr).memwrites
                      if kind(strip(kids(w.ast)[0])) == "MemberExpr" and strip(kids(w.ast)[0]).get("name") in members]
            if not stores:
                nsites -= sum(1 for (n, c) in fm.calls if ctext(kids(c)[0]) == FN)
                work += [chain[:-1] + (pname, h) for h in hosts]
                continue
        nflags += len(reqs)
        ncplx += len(cplx)
        for gname in callers:
            g = slice_of(L, H, F_SYS, gname, hdr)
            runs = [(n, c) for (n, c) in g.calls if ctext(kids(c)[0]) == pname]
            L.stage(r9_rerun, L, R, cf, fm, pname, g, gname, runs, cplx)
            for r in reqs:
                member = r["path"].split(".")[-1]
                pat = member_store_pat(member)
                # the member is written by another function of the file that is called from here: order unknown
                called = {ctext(kids(c)[0]) for (_, c) in g.calls}
                for (hn, _, b0, b1) in cf.funcs:
                    if hn != gname and hn in called and pat.search(cf.clean[b0:b1]):
                        raise AnalysisError("%s(): `%s` is written by %s(), which is called here: whether it is set when %s() "
                                            "is re-run cannot be classified" % (gname, member, hn, pname))
                verdicts = []
                for (n, c) in runs:
                    args = kids(c)[1:]
                    if r["pidx"] >= len(args):
                        raise AnalysisError("call of %s() in %s() with %d arguments" % (pname, gname, len(args)))
                    a = strip(args[r["pidx"]], casts=True)
                    nm = a.get("referencedDecl", {}).get("name") if kind(a) == "DeclRefExpr" else None
                    if nm is None or not g.never_written(nm) or nm not in g.params:
                        raise AnalysisError("%s(): the object handed to %s() is `%s`, not a parameter that is never "
                                            "reassigned (unclassifiable)" % (gname, pname, ctext(args[r["pidx"]])[:40]))
                    lv = "%s->%s" % (nm, r["path"])
                    mine = [w for w in g.memwrites if ctext(kids(w.ast)[0]) == lv]
                    other = [w for w in g.memwrites if w not in mine and kind(strip(kids(w.ast)[0])) == "MemberExpr" and
                             strip(kids(w.ast)[0]).get("name") == member]
                    if other:
                        raise AnalysisError("%s(): member `%s` is also written as `%s` (aliasing not modelled)" % (
                            gname, member, ctext(kids(other[0].ast)[0])[:40]))
                    if not mine:
                        continue            # this function does not establish the state: nothing to order
                    rs = reaching_stores(g, lv, n)
                    good, bad, unk = [], [], []
                    for w in rs:
                        if w == "entry":
                            v = 0           # not received yet: the state the object has before the first message
                        else:
                            v = g.tu.fold(w.val) if w.how == "assign" and w.val is not None else None
                        if v is None:
                            unk.append(w)
                        elif bool(ev(r["term"], {r["var"]: v})) == r["pol"]:
                            good.append(w)
                        else:
                            bad.append(w)
                    verdicts.append((n, c, lv, mine, good, bad, unk))
                passing = [v[0] for v in verdicts if v[4] and not v[5] and not v[6]]
                for (n, c, lv, mine, good, bad, unk) in verdicts:
                    nruns += 1
                    if unk or (good and bad):
                        if any(g.g.must_pass(n, [p]) for p in passing if p is not n):
                            continue
                        raise AnalysisError("%s(): whether `%s` is set when %s() is re-run depends on the path / on a value "
                                            "that is not a constant (unclassifiable)" % (gname, lv, pname))
                    ok = bool(good) or any(g.g.must_pass(n, [p]) for p in passing if p is not n)
                    if not ok and any(g.g.reachable(n, p) for p in passing if p is not n):
                        raise AnalysisError("%s(): %s() is re-run with `%s` not yet established, and once more with it on some of the "
                                            "ways from there to the exit: whether the second run always follows cannot be classified" % (
                                                gname, pname, lv))
                    want = "`%s` %s" % (lv, "set" if r["pol"] else "clear")
                    if good:
                        found = "%s: `%s` precedes the call on every path" % (want, "`, `".join(sorted({stmt_text(w.ast) for w in good})))
                    elif ok:
                        found = "not yet, but a later re-run of %s() on every way to the exit is made in that state" % pname
                    else:
                        later = sorted({stmt_text(w.ast) for w in mine if w not in bad})
                        found = "%s reaches the call%s: %s() skips %s(), the hopping list stays empty although the cell " \
                                "allocation and the bitmap are both present (message order: bitmap first)" % (
                                    "only `%s`" % "`, `".join(sorted({stmt_text(w.ast) for w in bad if w != "entry"})) if [w for w in bad if w != "entry"]
                                    else "no store of `%s`" % lv,
                                    "; `%s` comes after it" % "`, `".join(later) if later else "", pname, FN)
                    L.ob(R, F_SYS, gname, "re-run of %s() for the stored message: the state that %s() tests in front of its call of "
                         "%s() (`%s` %s) is established before the call is made" % (
                             pname, pname, FN, r["var"], "set" if r["pol"] else "clear"),
                         want, found, ok, g.line(c))
    L.floor(R, "call sites of %s in sysinfo.c whose dominating guards were resolved" % FN, nsites, 1)
    # a parser that makes the decoder call whatever the state of the object awaits nothing: no order to check then
    L.floor(R, "states of the object the parser tests in front of the decoder call (s->si1; none: nothing is awaited)", nflags, 0)
    L.floor(R, "re-runs of the parser by the function that establishes the awaited state (gsm48_decode_sysinfo1)", nruns, 1 if nflags else 0)
    L.floor(R, "conditions on the message / on several members in front of the decoder call (evaluated for every re-run)", ncplx, 0)
    L.assume("C20.R9: the received-flags of struct gsm48_sysinfo are clear before the first message of a cell (the object is "
             "zeroed when a cell is selected); functions outside sysinfo.c that are called between the store of a flag and the "
             "re-run of the parser do not write it")


# ===================================== callers: the LV buffer handed to the decoder

COPY_FNS = ("memcpy", "memmove", "__builtin_memcpy", "__builtin_memmove", "__builtin___memcpy_chk")


def canon_mem(t):
    """`*p` and `p[0]` are the same octet: ("call", "deref", p) -> ("idx", p, 0)"""
    if t[0] in ("c", "v"):
        return t
    t = tuple(canon_mem(x) if isinstance(x, tuple) else x for x in t)
    if t[0] == "call" and t[1] == "deref" and len(t) == 3:
        return ("idx", t[2], X.C(0))
    return t


def struct_of(e):
    """name of the struct type the object expression `e` has (None: anonymous / not a struct)"""
    m = re.fullmatch(r"struct (\w+)", re.sub(r"[\s\*]+$", "", qt_of(e)))
    return m.group(1) if m else None


def field_ptr(fm, e):
    """pointer expression -> (MemberExpr | DeclRefExpr the pointer points into, constant octet/element offset) | None.
    Like ptr_split, and `&x.arr` (pointer to the whole array: same address as its first element)."""
    e = strip(e, casts=True)
    if kind(e) == "UnaryOperator" and e.get("opcode") == "&":
        t = strip(kids(e)[0])
        if kind(t) in ("MemberExpr", "DeclRefExpr") and "[" in qt_of(t):
            return (t, 0)
    return ptr_split(fm, e)


def lv_fields(L, H, hdr, tier):
    """Struct members the decoder is fed from in LV form: call sites `decoder(.., x->M + 1, x->M[0], ..)` with M an
    octet array of struct S  ->  {(S, M): call-site text}"""
    out = {}
    for rel in caller_files(L, tier):
        cf = CFile(L, rel)
        for fname in sorted({fi[0] for (fi, pos, args) in cf.calls(FN)}):
            fm = slice_of(L, H, rel, fname, hdr)
            for (n, c) in fm.calls:
                if ctext(kids(c)[0]) != FN or len(kids(c)) != 7:
                    continue
                args = kids(c)[1:]
                sp = ptr_split(fm, args[1])
                if sp is None or sp[1] != 1 or kind(sp[0]) != "MemberExpr":
                    continue
                base = sp[0]
                ln = strip(args[2], casts=True)
                if not (kind(ln) == "ArraySubscriptExpr" and ctext(kids(ln)[0]) == ctext(base) and fm.tu.fold(kids(ln)[1]) == 0):
                    continue
                m = re.fullmatch(r"(.+?)\s*\[(\d+)\]", qt_of(base))
                S = struct_of(strip(kids(base)[0]))
                if not m or _SIZE1.fullmatch(m.group(1)) is None or S is None:
                    continue
                out.setdefault((S, base.get("name")), fname)
    return out


def sizeof_ok(fm, e):
    """every sizeof inside the expression is the size of an octet array member whose declaration was read from the
    tree (a synthesised member has a made-up type)"""
    for x in walk(e):
        if kind(x) == "UnaryExprOrTypeTraitExpr":
            ks = kids(x)
            a = strip(ks[0]) if ks else None
            if x.get("name") != "sizeof" or a is None or kind(a) != "MemberExpr":
                return False
            real = fm.real_structs.get(struct_of(strip(kids(a)[0])) or "")
            if real is None or a.get("name") not in real[1] or not SCALAR.fullmatch(" ".join(real[1][a.get("name")][0].split())):
                return False
    return True


def tlv_length_alias(fm, n, sp):
    """Terms that denote the same octet as the length octet of the copied LV.  A source `p + k` whose pointer p is a
    local with exactly one reaching definition `p = TLVP_VAL(dec, ie) + j` (j + k == -1: the octet in front of the
    value of information element `ie`) reads the length octet tlv_parse() stored as TLVP_LEN(dec, ie) for a TLV
    element (trusted: libosmocore's parser; recorded as an assumption).  -> {term: True}"""
    base, off = sp
    nm = base.get("referencedDecl", {}).get("name") if kind(base) == "DeclRefExpr" else None
    if nm is None or nm not in fm.locals or nm in fm.addr:
        return {}
    defs = fm.reaching_defs(nm, n)          # by name: a write to any local of that name counts
    if len(defs) != 1 or defs[0] == "undef" or defs[0].how != "init" or defs[0].val is None or \
            defs[0].ast.get("id") != base.get("referencedDecl", {}).get("id"):
        return {}                           # (the initialiser of the very declaration the source refers to)
    try:
        t = fm.lower(defs[0].val)
    except AnalysisError:
        return {}
    terms = t[1:] if t[0] == "+" else (t,)
    calls = [x for x in terms if not X.is_c(x)]
    k = sum(x[1] for x in terms if X.is_c(x))
    if len(calls) != 1 or calls[0][0] != "call" or calls[0][1] != "TLVP_VAL" or len(calls[0]) != 4 or k + off != -1:
        return {}
    # the decoded table is not rewritten between the definition and the copy by a second run of the parser
    return {("call", "TLVP_LEN") + tuple(calls[0][2:]): True}


def _replace(t, m, by):
    if t in m:
        return by
    if t[0] in ("c", "v"):
        return t
    return tuple(_replace(x, m, by) if isinstance(x, tuple) else x for x in t)


def octet_atoms(fm, fname, n, xt, what, alias=None):
    """Guard atoms dominating `n` that constrain the octet `xt`: the atoms over `xt` alone and, transitively, the atoms
    that relate it to other values (`remaining < len + 2`) with the atoms over those.  -> ([(term, pol)], other leaves,
    exact): exact is False when an atom of that component cannot be folded (it is left out, so the admitted set can
    only grow: a proof over it stands, a counterexample does not).  An atom that tests a local which changes before
    `n` ends the analysis."""
    ats = []
    for a in fm.atoms(n):
        t = canon_mem(a[0])
        t2 = canon_mem(fm.subst_temps(t, a[2]))
        p = a[1]
        if t2 != t:
            t, p = fm.norm_term(t2, p)
            t = canon_mem(t)
        if alias:
            t = _replace(t, alias, xt)
        ats.append((t, p, a, leaves(t)))
    comp, grown = {xt}, True
    while grown:
        grown = False
        for (t, p, a, lv) in ats:
            if lv & comp and not lv <= comp:
                comp |= lv
                grown = True
    out, exact = [], True
    for (t, p, a, lv) in ats:
        if not lv & comp:
            if any(xt in subterms(x) for x in lv):
                exact = False
            continue
        names = sorted({y[1] for x in lv for y in subterms(x) if y[0] == "v" and (y[1] in fm.locals or y[1] in fm.params)})
        if names and not fm.stable(n, a, names):
            raise AnalysisError("%s(): guard `%s` tests a value that changes before the copy" % (fname, X.show(t)))
        lin = t in comp or (t[0] == "cmp" and unit_linear(t[2], comp) and unit_linear(t[3], comp))
        if not lin or any(xt in subterms(x) and x != xt for x in lv):
            exact = False
            continue
        out.append((t, p))
    return out, sorted(comp - {xt}), exact


def admits(use, extra, xt, v, top=0):
    """some assignment of the other leaves satisfies all atoms together with octet value v.  Folded in the integers,
    which is what C computes as long as no compared operand is negative (an unsigned conversion would change a
    negative one): assignments with a negative operand are not counted."""
    if len(extra) > 2:
        raise AnalysisError("guards relate the length octet to %d other values (at most 2 are folded)" % len(extra))
    cs = {MAXLEN + 1, top}
    for (t, p) in use:
        consts_of(t, cs)
    C = 3 * max(cs) + 20
    box = list(range(0, C + 1)) + list(range(-1, -C - 1, -1))

    def ok(m):
        for (t, p) in use:
            tt = subst(t, m)
            try:
                if tt[0] == "cmp" and (ev(tt[2], {}) < 0 or ev(tt[3], {}) < 0):
                    return False
                if bool(ev(tt, {})) != p:
                    return False
            except Unknown as u:
                raise AnalysisError("guard `%s` cannot be folded (%s)" % (X.show(t), u))
        return True
    if not extra:
        return ok({xt: v})
    if len(extra) == 1:
        return any(ok({xt: v, extra[0]: a}) for a in box)
    return any(ok({xt: v, extra[0]: a, extra[1]: b}) for a in box for b in box)


def r11_lv_copies(L, tier):
    """C20.R11 -- caller half of the clause "the decoded hopping list contains exactly the cell-allocation channels
    whose bit is set", at the assignment / handover / frequency-redefinition callers.  There the decoder does not read
    the received message but a struct member M in LV form (`cd->mob_alloc_lv`: call site `decoder(.., cd->M + 1,
    cd->M[0], ..)`, found on the clang AST of the caller): octet 0 is the length L, octets 1..L the bitmap, and bit
    index 0 (the first cell-allocation channel) is the LSB of the LAST octet.  Every copy that constructs such a
    buffer (memcpy / memmove whose destination is member M at offset 0, in any function of the caller's file) takes an
    LV from its source; what the decoder later reads is the received bitmap only if the copy transports the length
    octet and all L bitmap octets: size >= 1 + L for every L in 1..8 (the lengths for which the decoder reads
    octets) that the guard atoms dominating the copy admit.  The size expression is lowered to a term (tested
    temporaries resolved), must be a function of the source's length octet alone (`*lv + 1`, `x->len + 1`, a
    `sizeof` of an octet array member whose declaration is read from the tree) and is folded for each L.  A copy of
    `lv[0]` octets leaves bitmap octet L at what the buffer held before, so the channels of bit indexes 0..7 are decoded
    from stale data: a violation with that L as counterexample.  A copy at another offset, a size that reads
    anything else, or a sizeof of a synthesised member is not classified (ANALYSIS-ERROR)."""
    R = "C20.R11"
    with open(L.unit(F_HDR), "r", encoding="utf-8", errors="surrogateescape") as f:
        hdr = blank_strings(strip_comments(f.read()))
    H = HeaderIndex(L)
    fields = lv_fields(L, H, hdr, tier)
    L.floor(R, "struct members handed to %s in LV form (gsm48_rr_cd.mob_alloc_lv)" % FN, len(fields), 1)
    ncopies = nroom = 0
    for (S, M) in sorted(fields):
        rels = caller_files(L, tier)
        if tier == "thorough":
            top = os.path.join(L.repo, "src/host/layer23/src")
            for dp, dn, fns in os.walk(top):
                dn.sort()
                for fn in sorted(fns):
                    rel = os.path.relpath(os.path.join(dp, fn), L.repo)
                    if fn.endswith(".c") and rel not in rels:
                        with open(os.path.join(dp, fn), "r", encoding="utf-8", errors="surrogateescape") as f:
                            if re.search(r"\b%s\b" % re.escape(M), f.read()):
                                rels.append(rel)
        for rel in rels:
            cf = CFile(L, rel)
            fnames = sorted({fi[0] for cp in COPY_FNS for (fi, pos, args) in cf.calls(cp)
                             if args and re.search(r"\b%s\b" % re.escape(M), args[0])})
            for fname in fnames:
                # one group per function: a copy that cannot be classified in one does not hide a wrong one in another
                k = L.stage(r11_function, L, R, H, hdr, rel, fname, S, M, fields[(S, M)])
                ncopies += 0 if k is STAGE_FAILED else k[0]
                nroom += 0 if k is STAGE_FAILED else k[1]
    L.floor(R, "copies that construct a Mobile Allocation LV buffer of the decoder's callers", ncopies, 3)
    L.floor(R, "copies into a Mobile Allocation LV buffer whose size was compared with the declared extent of the member", nroom, 3)
    L.assume("C20.R11: between a guard on an LV's length octet and the copy of that LV no callee / logging macro modifies the "
             "source buffer; an LV source holds 1 + L readable octets (the parsers that produce it are outside this rule)")


def r11_function(L, R, H, hdr, rel, fname, S, M, site):
    fm = slice_of(L, H, rel, fname, hdr)
    seen, k = {}, 0
    for (n, c) in fm.calls:
        if ctext(kids(c)[0]) not in COPY_FNS or len(kids(c)) < 4:
            continue
        if not any(kind(x) == "MemberExpr" and x.get("name") == M for x in walk(kids(c)[1])):
            continue
        k += r11_copy(L, R, fm, rel, fname, n, c, S, M, site, seen, H)
    return (k, seen.get("#room", 0))


def r11_copy(L, R, fm, rel, fname, n, c, S, M, site, seen, H=None):
    args = kids(c)[1:]
    cal = ctext(kids(c)[0])
    dp = field_ptr(fm, args[0])
    de = strip(args[0], casts=True)
    if dp is None and kind(de) == "UnaryOperator" and de.get("opcode") == "&" and kind(strip(kids(de)[0])) == "MemberExpr" and \
            strip(kids(de)[0]).get("name") == M and struct_of(strip(kids(strip(kids(de)[0]))[0])) is None:
        dp = (strip(kids(de)[0]), 0)        # `&x.inner.M` behind a synthesised (anonymous) inner struct: the member's type is made up
    if dp is None or kind(dp[0]) != "MemberExpr" or dp[0].get("name") != M:
        raise AnalysisError("%s(): destination `%s` of %s() names the LV member %s in a way the rule cannot resolve" % (
            fname, ctext(args[0])[:50], cal, M))
    dst, doff = dp
    owner = struct_of(strip(kids(dst)[0]))
    if owner is not None and owner != S:
        return 0                    # a member of the same name in another struct
    if doff != 0:
        raise AnalysisError("%s(): %s() into `%s` at offset %d: the LV is put together piecewise (unclassifiable)" % (
            fname, cal, ctext(dst), doff))
    # the source LV and its length octet
    se = strip(args[1], casts=True)
    so = strip(kids(se)[0]) if kind(se) == "UnaryOperator" and se.get("opcode") == "&" else None
    if so is not None and kind(so) in ("MemberExpr", "DeclRefExpr") and "[" not in qt_of(so):
        xt = canon_mem(fm.lower(so))            # `&msg->len`: the LV starts at that octet
        sobj, xq, sp = so, qt_of(so), None
    else:
        sp = field_ptr(fm, se)
        if sp is None or sp[1] < 0:
            raise AnalysisError("%s(): source `%s` of the copy into `%s` is not `buffer + constant` (unclassifiable)" % (
                fname, ctext(args[1])[:50], ctext(dst)))
        xt = ("idx", canon_mem(fm.lower(sp[0])), X.C(sp[1]))
        sobj, xq = sp[0], re.sub(r"\s*(\*|\[\d*\])$", "", qt_of(sp[0]))
    synthesised = kind(sobj) == "MemberExpr" and sobj.get("name") == M and struct_of(strip(kids(sobj)[0])) is None
    if _SIZE1.fullmatch(xq.strip()) is None and not synthesised:
        raise AnalysisError("%s(): source `%s` of the copy into `%s` is not made of octets (%s)" % (fname, ctext(args[1])[:50], ctext(dst), xq))
    # the size as a function of the length octet
    if not sizeof_ok(fm, args[2]):
        raise AnalysisError("%s(): size `%s` of the copy into `%s` takes a sizeof the rule cannot trust (member not read from the tree)" % (
            fname, ctext(args[2])[:50], ctext(dst)))
    try:
        nt = canon_mem(fm.subst_temps(canon_mem(fm.lower(args[2])), n))
    except AnalysisError as e:
        raise AnalysisError("%s(): size `%s` of the copy into `%s` is not understood (%s)" % (fname, ctext(args[2])[:50], ctext(dst), e))
    if leaves(nt) - {xt}:
        raise AnalysisError("%s(): size `%s` of the copy into `%s` is not a function of the source's length octet `%s` alone" % (
            fname, ctext(args[2])[:50], ctext(dst), X.show(xt)))
    alias = tlv_length_alias(fm, n, sp) if sp is not None else {}
    if alias:
        L.assume("C20.R11: for a TLV information element tlv_parse() stores as TLVP_LEN() the octet in front of TLVP_VAL() "
                 "(libosmocore's parser, outside the tree analysed here)")
    use, extra, exact = octet_atoms(fm, fname, n, xt, "the length octet", alias)
    same_kind = kind(sobj) == "MemberExpr" and sobj.get("name") == M and struct_of(strip(kids(sobj)[0])) in (None, S) and \
        sp is not None and sp[1] == 0
    r11_room(L, R, H, fm, rel, fname, n, c, S, M, dst, owner, xt, nt, use, extra, exact, seen, same_kind)
    bad, admitted = None, []
    for x in range(1, MAXLEN + 1):
        if not admits(use, extra, xt, x):
            continue
        admitted.append(x)
        try:
            sz = ev(subst(nt, {xt: x}), {})
        except Unknown as u:
            raise AnalysisError("%s(): size `%s` cannot be folded (%s)" % (fname, ctext(args[2])[:50], u))
        if sz < 1 + x and bad is None:
            bad = (x, sz)
    if bad is not None and not exact:
        raise AnalysisError("%s(): size `%s` of the copy into `%s` is %d for L = %d, but a guard on the length octet could not be folded: "
                            "whether that length reaches the copy is open" % (fname, ctext(args[2])[:50], ctext(dst), bad[1], bad[0]))
    k = seen[(ctext(dst), ctext(args[1]))] = seen.get((ctext(dst), ctext(args[1])), 0) + 1
    gtxt = " && ".join(sorted({("%s" if p else "!(%s)") % X.show(t) for (t, p) in use})) or "none"
    if bad is None:
        found = "size `%s` >= 1 + L for L in %s (guards on the length octet: %s)" % (stmt_text(args[2]), span(admitted), gtxt)
    else:
        x, sz = bad
        lost = list(range(max(sz, 1), x + 1))
        found = "size `%s` is %d for L = %d: bitmap octet%s of the LV %s not copied -- the decoder reads bit indexes 0..%d (the first " \
                "cell-allocation channels) from what `%s` held before" % (
                    stmt_text(args[2]), sz, x, " %d" % lost[0] if len(lost) == 1 else "s %d..%d" % (lost[0], lost[-1]),
                    "is" if len(lost) == 1 else "are", 8 * len(lost) - 1, ctext(dst))
    L.ob(R, rel, fname, "copy of a Mobile Allocation LV into `%s` from `%s`%s (%s() hands that member to %s): the length octet and all L "
         "bitmap octets the decoder reads are copied" % (ctext(dst), ctext(args[1]), " (#%d)" % k if k > 1 else "", site, FN),
         "size >= 1 + L for every admitted L in 1..%d" % MAXLEN, found, bad is None, fm.line(c))
    return 1


def member_extent(fm, H, S, M, dst, owner):
    """declared number of octets of the LV member `dst` (member M of struct S) | None.  From the member's array type
    when the struct declaration in the slice was read from the tree; for `p->f.M` behind a synthesised inner struct
    from the headers: p's struct (read from the tree) declares `struct S f`, and struct S declares `octet M[N]`."""
    real = fm.real_structs.get(owner or "")
    m = re.fullmatch(r"(.+?)\s*\[(\d+)\]", qt_of(dst))
    if owner == S and real is not None and M in real[1] and m and _SIZE1.fullmatch(m.group(1).strip()) and \
            SCALAR.fullmatch(" ".join(real[1][M][0].split())):
        return int(m.group(2))
    inner = strip(kids(dst)[0])
    if owner is not None or H is None or kind(inner) != "MemberExpr":
        return None
    P = struct_of(strip(kids(inner)[0]))
    hp = H.struct(P) if P is not None and P in fm.real_structs else None
    f = hp[1].get(inner.get("name")) if hp else None
    hs = H.struct(S) if f is not None and " ".join(f[0].split()) == "struct %s" % S and f[1] is None else None
    d = hs[1].get(M) if hs else None
    if d is None or _SIZE1.fullmatch(" ".join(d[0].split())) is None or d[1] is None:
        return None
    try:
        return c_fold(d[1], dict(hs[3]))
    except AnalysisError:
        return None


def r11_room(L, R, H, fm, rel, fname, n, c, S, M, dst, owner, xt, nt, use, extra, exact, seen, same_kind=False):
    """C20.R11 (room) -- caller half of the clauses "longer bitmaps are rejected with an error" and "no bitmap makes the
    decoder read or write outside its buffers".  The LV member M the decoder is fed from has a fixed extent (uint8_t
    mob_alloc_lv[9]: length octet + 8 bitmap octets); a copy into it writes `size` octets, where size is the function of
    the source's length octet folded above.  For EVERY value 0..255 of that octet which the guard atoms dominating the
    copy admit, size <= extent of M must hold: otherwise the copy writes behind M (into the neighbouring member) and M[0]
    holds a length > 8 whose bitmap the decoder is then handed.  The comparison is between the folded size and the
    declared extent, whatever quantity the guard is written over (`*lv + 1 > sizeof`, `*lv >= sizeof`, a TLVP_LEN of the
    same element): a guard that bounds the value length by the extent admits L = extent, whose copy is extent + 1
    octets.  The extent is taken from the member declaration read from the tree (member_extent); when it cannot be
    read no room obligation is formed for the copy (the floor counts the formed ones)."""
    args = kids(c)[1:]
    cap = member_extent(fm, H, S, M, dst, owner)
    if cap is None:
        return
    alone = [(t, p) for (t, p) in use if leaves(t) <= {xt}]
    bad, over, budget = None, 0, 6
    top = 256
    if same_kind:
        # the source is itself member M of a struct S: by induction over the writers of such members (each subject to
        # this obligation: the octets written, length octet first, fit the member) its length octet is < extent
        top = cap
        L.assume("C20.R11: a %s.%s that is copied from holds an LV that fits it (length octet < %d): every copy into such a member "
                 "is subject to the room obligation, other stores into it are outside the rule" % (S, M, cap))
    for x in range(0, top):
        try:
            sz = ev(subst(nt, {xt: x}), {})
        except Unknown as u:
            raise AnalysisError("%s(): size `%s` cannot be folded (%s)" % (fname, ctext(args[2])[:50], u))
        if sz <= cap:
            continue
        over += 1
        try:
            if any(bool(ev(subst(t, {xt: x}), {})) != p for (t, p) in alone):
                continue
        except Unknown as u:
            raise AnalysisError("%s(): guard on the length octet cannot be folded (%s)" % (fname, u))
        if len(extra) >= 2:
            budget -= 1
            if budget < 0:
                raise AnalysisError("%s(): the guards of the copy into `%s` bound the length octet only through %d other values: "
                                    "not folded for every length" % (fname, ctext(dst), len(extra)))
        if admits(use, extra, xt, x, top=x):
            bad = (x, sz)
            break
    if bad is not None and not exact:
        raise AnalysisError("%s(): size `%s` of the copy into `%s` is %d for L = %d, but a guard on the length octet could not be folded: "
                            "whether that length reaches the copy is open" % (fname, ctext(args[2])[:50], ctext(dst), bad[1], bad[0]))
    key = (ctext(dst), ctext(args[1]), "room")
    k = seen[key] = seen.get(key, 0) + 1
    gtxt = " && ".join(sorted({("%s" if p else "!(%s)") % X.show(t) for (t, p) in use})) or "none"
    if bad is None:
        found = "size `%s` <= %d for every admitted value of the length octet (%d of the values 0..%d would need more; guards: %s)" % (
            stmt_text(args[2]), cap, over, top - 1, gtxt)
    else:
        found = "length octet %d passes the guards (%s) and size `%s` is %d: %d octet%s written behind `%s`, which then holds a " \
                "length of %d (> %d bitmap octets) for the decoder" % (
                    bad[0], gtxt, stmt_text(args[2]), bad[1], bad[1] - cap, "" if bad[1] - cap == 1 else "s", ctext(dst), bad[0], cap - 1)
    L.ob(R, rel, fname, "copy of a Mobile Allocation LV into `%s` from `%s`%s: the copied octets (length octet + value) fit the %d octets "
         "of the member for every length the guards admit" % (ctext(dst), ctext(args[1]), " (#%d)" % k if k > 1 else "", cap),
         "size <= %d for every admitted length octet 0..255" % cap, found, bad is None, fm.line(c))
    seen["#room"] = seen.get("#room", 0) + 1


# ========================================== callers: what is done with the result

def fold_outcomes(L, fmD):
    """The decoder's results as the callers can see them: [{"ret", "refused", "nonempty", "where"}] -- from the witness
    fold (C20.R8: actual return values for concrete bitmaps, classified by the reference decoding); when the decoder
    cannot be interpreted, from its return statements (constants, classified by the lengths that reach them)."""
    outs = L.__dict__.get("_c20_outcomes")
    if outs:
        return [dict(zip(("ret", "refused", "nonempty"), k), where=w) for (k, w) in sorted(outs.items(), key=lambda kv: (kv[0][1], kv[0][2], kv[0][0]))], "witness fold"
    out = []
    lenp = fmD.params[2] if len(fmD.params) == 6 else None
    for r in [n for n in fmD.g.nodes if n.kind == "stmt" and kind(n.ast) == "ReturnStmt"]:
        ks = kids(r.ast)
        val = fmD.tu.fold(ks[0]) if ks else None
        if val is None or lenp is None or not fmD.never_written(lenp):
            raise AnalysisError("%s(): the set of return values cannot be folded (`%s`), and the decoder could not be interpreted on "
                                "witnesses" % (FN, ctext(r.ast)[:40]))
        dom = fmD.domain(r, lenp)
        if dom and all(v > MAXLEN for v in dom):
            out.append({"ret": val, "refused": True, "nonempty": False, "where": "`%s` for a bitmap of %d octets" % (ctext(r.ast), dom[0])})
        elif dom and all(v <= MAXLEN for v in dom):
            for ne in (False, True):
                out.append({"ret": val, "refused": False, "nonempty": ne, "where": "`%s` after decoding %s list" % (ctext(r.ast), "a non-empty" if ne else "an empty")})
        elif dom:
            raise AnalysisError("%s(): `%s` is reached by accepted and by rejected lengths" % (FN, ctext(r.ast)[:40]))
    return out, "return statements"


def eval3(t, m):
    """three-valued truth / value of a term under the binding m (leaf -> int): None when it hangs on something else"""
    k = t[0]
    if k == "not":
        v = eval3(t[1], m)
        return None if v is None else int(not v)
    if k in ("and", "or"):
        a, b = eval3(t[1], m), eval3(t[2], m)
        if k == "and":
            return 0 if (a is not None and not a) or (b is not None and not b) else (None if a is None or b is None else 1)
        return 1 if (a is not None and a) or (b is not None and b) else (None if a is None or b is None else 0)
    try:
        return ev(subst(t, m), {})
    except (Unknown, AnalysisError):
        return None


def r12_result(L, sl, tier):
    """C20.R12 -- caller half of the clause "the decoded hopping list contains exactly the cell-allocation channels
    whose bit is set" (observe points: hopping[] / hopp_len / return code): what a caller does with the decoder's return
    value must fit what the decoder returns.  The decoder's results are folded first -- the witness fold C20.R8 yields the
    actual return value for concrete bitmaps (refused: longer than 8 octets; decoded: empty / non-empty list), so the set
    is right whether the decoder says `return 0` or returns the number of channels.  At each call site (clang AST of the
    caller's slice) the result is discarded, tested in place, or held in a local whose only reaching definition is the
    call; every condition over it that can be reached from the call is decided for each result (converted to the
    local's type; a condition that mixes it with other values, or compares it after an unsigned conversion, is not
    classified), which prunes the caller's CFG per result.  Two necessary conditions:
      (b) a caller that lets the decoder fill its own local list publishes it only by reading that local: for every
          decoded non-empty list a statement reading the local list (and the local length) must remain reachable --
          otherwise the list is thrown away for that bitmap (`if (!rc) memcpy(s->hopping, ...)` with rc = number of channels);
      (a) a decoded non-empty list must not be handled exactly like a refused bitmap while another decoded result is
          handled differently, where "handled" is the set of reachable statements that read the decoder's output objects
          and the reachable return statements (with the value they return).
    The counterexample is the witness bitmap of the result.  A result that is passed on in another way is not classified."""
    R = "C20.R12"
    fmD, K = sl
    outs, how = fold_outcomes(L, fmD)
    ne = [o for o in outs if not o["refused"] and o["nonempty"]]
    if not ne or not [o for o in outs if o["refused"]]:
        raise AnalysisError("results of %s(): no %s among the folded results (%s)" % (FN, "decoded non-empty list" if not ne else "refusal", how))
    with open(L.unit(F_HDR), "r", encoding="utf-8", errors="surrogateescape") as f:
        hdr = blank_strings(strip_comments(f.read()))
    H = HeaderIndex(L)
    nsites = 0
    for rel in caller_files(L, tier):
        cf = CFile(L, rel)
        for fname in sorted({fi[0] for (fi, pos, args) in cf.calls(FN)}):
            fm = slice_of(L, H, rel, fname, hdr)
            for (n, c) in fm.calls:
                if ctext(kids(c)[0]) == FN:
                    nsites += 1
                    L.stage(r12_site, L, R, fm, rel, fname, n, c, outs, how)
    L.floor(R, "call sites of %s whose use of the result was resolved" % FN, nsites, 2)
    L.floor(R, "distinct results of the decoder the callers' tests are decided for (refusal, empty list, non-empty list)", len(outs), 3)


def _mentions(e, name=None, node=None):
    for x in walk(e):
        if node is not None and x is node:
            return True
        if name is not None and kind(x) == "DeclRefExpr" and x.get("referencedDecl", {}).get("name") == name:
            return True
    return False


def r12_site(L, R, fm, rel, fname, n, c, outs, how):
    args = kids(c)[1:]
    if len(args) != 6:
        raise AnalysisError("call of %s() in %s() with %d arguments" % (FN, fname, len(args)))
    where = "call of %s() in %s()" % (FN, fname)
    ctxt = ctext(c)

    def show(e):
        return stmt_text(e).replace(ctxt, "%s(...)" % FN)[:70]
    # ---- how the result is taken
    rc, wdef, asg = None, None, None
    top = n.ast if n.kind == "stmt" else getattr(n, "cond", None)
    par = fm.parent(c)
    while par is not None and kind(par) == "CStyleCastExpr":
        par = fm.parent(par)
    if n.kind == "stmt" and strip(top, casts=True) is c:
        mode = "discarded"
    elif n.kind == "stmt" and kind(top) == "ReturnStmt" and kids(top) and strip(kids(top)[0], casts=True) is c:
        # a wrapper: what its callers do with the value is not followed
        L.ob(R, rel, fname, "%s: a bitmap that decodes to a non-empty list is not handled exactly like a refused bitmap while another "
             "decoded result is handled differently" % where, "non-empty lists are not treated as refusals",
             "the result is returned to the callers of %s() (not followed); the list goes to %s whatever the return value" % (
                 fname, " / ".join("`%s`" % ctext(a) for a in args[3:5])), True, fm.line(c))
        return
    elif n.kind == "cond" and par is not None and kind(par) == "BinaryOperator" and par.get("opcode") == "=" and \
            strip(kids(par)[1], casts=True) is c and kind(strip(kids(par)[0])) == "DeclRefExpr":
        # `if ((rc = decoder(...)) < 0)`: the assignment is the tested value
        v = strip(kids(par)[0]).get("referencedDecl", {}).get("name")
        ws = [w for w in fm.writes.get(v, []) if w.node is n and w.ast is par]
        if len(ws) != 1 or v not in fm.locals or v in fm.dups or v in fm.addr:
            raise AnalysisError("%s: the result is passed on in a way the rule cannot follow (`%s`)" % (where, show(top)))
        rc, wdef, asg = v, ws[0], par
        mode = "assigned to `%s` inside the condition" % rc
    elif n.kind == "cond" and _mentions(top, node=c):
        mode = "tested in place"
    else:
        for v, ws in fm.writes.items():
            for w in ws:
                if w.node is n and w.val is not None and strip(w.val, casts=True) is c and w.how in ("init", "assign"):
                    rc, wdef = v, w
        if rc is None or rc not in fm.locals or rc in fm.dups or rc in fm.addr:
            raise AnalysisError("%s: the result is passed on in a way the rule cannot follow (`%s`)" % (where, show(top) if top is not None else "?"))
        mode = "held in `%s`" % rc
    it = int_type(fm.tu, fm.locals[rc].get("type", {})) if rc else (32, True)
    if it is None:
        raise AnalysisError("%s: `%s` is not an integer (%s)" % (where, rc, qt_of(fm.locals[rc])))

    def conv(v):
        w, sg = it
        v &= (1 << w) - 1
        return v - (1 << w) if sg and v >> (w - 1) else v
    leaf = X.V(rc) if rc else canon_mem(fm.lower(c))

    def bound(q):
        """condition node q tests the result of this call: True / False (it does not) / None (on some ways only)"""
        e = getattr(q, "cond", None)
        if e is None:
            return False
        if rc is None or (asg is not None and q is n):
            return q is n
        if not _mentions(e, name=rc):
            return False
        defs = fm.reaching_defs(rc, q)
        if all(d is wdef for d in defs):
            return True
        return False if all(d is not wdef for d in defs) else None

    def unsigned_cast(e):
        for x in walk(e):
            if kind(x) in ("ImplicitCastExpr", "CStyleCastExpr") and x.get("castKind") in ("IntegralCast", None):
                tt = int_type(fm.tu, x.get("type", {}))
                if tt is not None and not tt[1] and (_mentions(x, name=rc) if rc else _mentions(x, node=c)):
                    return True
        return False

    tests, open_tests = [], []

    def reach(o):
        """CFG nodes that can follow the call when it returns o["ret"]: conditions over the result are decided, all others
        keep both ways -> (node ids, binding, exact); exact is False when a condition over the result could not be
        decided (it keeps both ways, so the set can only be too large)"""
        m = {leaf: conv(o["ret"])}
        seen, work, exact = set(), [(n, True)], True
        while work:
            q, first = work.pop()
            if not first:
                if q.id in seen:
                    continue
                seen.add(q.id)
            nxt = [s for (s, _) in q.succ]
            b = bound(q) if (not first or q.kind == "cond") else False
            if b is None:
                exact = False
            elif b:
                v = None
                if q.kind == "cond" and all(isinstance(l, bool) for (_, l) in q.succ) and not unsigned_cast(q.cond):
                    try:
                        if asg is not None and q is n:
                            fm.LW.env[ctext(asg)] = leaf
                        v = eval3(canon_mem(fm.lower(q.cond)), m)
                    except AnalysisError:
                        v = None
                    finally:
                        if asg is not None:
                            fm.LW.env.pop(ctext(asg), None)
                if v is None:
                    exact = False
                    if show(q.cond) not in open_tests:
                        open_tests.append(show(q.cond))
                else:
                    if show(q.cond) not in tests:
                        tests.append(show(q.cond))
                    nxt = [s for (s, l) in q.succ if l == bool(v)]
            work += [(s, False) for s in nxt if s.id not in seen]
        return seen, m, exact

    # ---- the decoder's output objects at this site
    objs = []
    for a in (args[3], args[4]):
        sp = field_ptr(fm, a)
        if sp is None:
            t = strip(a, casts=True)
            if kind(t) == "UnaryOperator" and t.get("opcode") == "&" and kind(strip(kids(t)[0])) in ("MemberExpr", "DeclRefExpr"):
                sp = (strip(kids(t)[0]), 0)
        if sp is None:
            raise AnalysisError("%s: output argument `%s` is not an object the rule can name" % (where, ctext(a)[:40]))
        objs.append(sp[0])
    otext = [ctext(x) for x in objs]
    onames = " / ".join("`%s`" % t for t in otext)

    def reads(q):
        return q is not n and any(kind(x) in ("MemberExpr", "DeclRefExpr") and ctext(x) in otext for e in fm.exprs_of(q) for x in walk(e))
    byid = {q.id: q for q in fm.g.nodes}
    R_all = fm.reach_succ(n)
    sig = None
    if mode != "discarded":
        sig = []
        for o in outs:
            seen, m, exact = reach(o)
            cons = set()
            for i in seen:
                q = byid[i]
                if reads(q):
                    cons.add(("read", i, None))
                if q.kind == "stmt" and q.ast is not None and kind(q.ast) == "ReturnStmt":
                    ks = kids(q.ast)
                    val = None
                    if ks and rc and _mentions(ks[0], name=rc) and any(d is wdef for d in fm.reaching_defs(rc, q)):
                        try:
                            val = eval3(canon_mem(fm.lower(ks[0])), m) if all(d is wdef for d in fm.reaching_defs(rc, q)) else None
                        except AnalysisError:
                            val = None
                        if val is None:
                            exact = False
                    cons.add(("ret", i, val))
            sig.append((o, seen, frozenset(cons), exact))
    ttxt = ("`%s`" % "`, `".join(tests)) if tests else "no condition over the result"
    if open_tests:
        ttxt += " (not decided: `%s`)" % "`, `".join(open_tests)

    def fmt_o(o):
        return "return value %d (%s)" % (o["ret"], o["where"])

    def node_text(q):
        if q.kind == "stmt" and kind(q.ast) == "ReturnStmt":
            return "`return %s`" % (show(kids(q.ast)[0]) if kids(q.ast) else "")
        return "`%s`" % show(q.ast if q.kind == "stmt" else q.cond)
    # ---- (b) a list decoded into the caller's own locals must be read for every non-empty result
    local_out = [x.get("referencedDecl", {}).get("name") for x in objs if kind(x) == "DeclRefExpr" and
                 x.get("referencedDecl", {}).get("name") in fm.locals and x.get("referencedDecl", {}).get("name") not in fm.dups]
    dropped = None
    if local_out:
        users = {}
        for nm in local_out:
            us = [q for q in fm.g.nodes if q is not n and any(_mentions(e, name=nm) for e in fm.exprs_of(q))
                  and not (q.ast is not None and any(kind(y) == "VarDecl" and y.get("name") == nm for y in walk(q.ast)))]
            for q in us:
                if q.id not in R_all and not _only_fills(fm, q, nm):
                    raise AnalysisError("%s: the local `%s` that receives the decoder's output is used in front of the call (`%s`): "
                                        "aliasing not modelled" % (where, nm, show(q.ast if q.kind == "stmt" else q.cond)))
            users[nm] = [q for q in us if q.id in R_all]
            if not users[nm]:
                raise AnalysisError("%s: the local `%s` that receives the decoder's output is never read: the call is not one that hands the "
                                    "list on (unclassifiable)" % (where, nm))
        if sig is not None:
            for (o, seen, cons, exact) in sig:
                if not o["refused"] and o["nonempty"] and dropped is None:
                    for nm in local_out:
                        if not any(q.id in seen for q in users[nm]):       # `seen` can only be too large: the readers are excluded for sure
                            dropped = (o, nm)
                            break
        lo = " / ".join("`%s`" % x for x in local_out)
        L.ob(R, rel, fname, "%s decodes into the caller's own %s: for every bitmap that decodes to a non-empty list a statement reading "
             "them stays reachable behind the caller's tests of the result" % (where, lo),
             "read for every non-empty list",
             "read for every non-empty list (result %s; %s decided for %d results from the %s)" % (mode, ttxt, len(outs), how) if dropped is None else
             "%s: %s excludes every statement that reads `%s` (%s) -- the decoded list is thrown away" % (
                 fmt_o(dropped[0]), ttxt, dropped[1], ", ".join(node_text(q) for q in users[dropped[1]][:2])),
             dropped is None, fm.line(c))
    if dropped is not None:
        return          # (a) would report the same defect once more
    # ---- (a) a non-empty list is not handled like a refusal while another decoded result is handled differently
    bad = None
    nopen = 0
    if sig is not None:
        nopen = sum(1 for s0 in sig if not s0[3])
        ref = [s0 for s0 in sig if s0[0]["refused"] and s0[3]]
        dec = [s0 for s0 in sig if not s0[0]["refused"] and s0[3]]
        for s1 in dec:
            if not s1[0]["nonempty"] or bad:
                continue
            other = [s2 for s2 in dec if s2[2] != s1[2]]
            for s0 in ref:
                if s0[2] == s1[2] and other:
                    diff = sorted({(x[0] != "ret", x[1]) for x in other[0][2] ^ s1[2]})
                    bad = (s1[0], s0[0], other[0][0], [byid[i] for (_, i) in diff])
                    break
    L.ob(R, rel, fname, "%s: a bitmap that decodes to a non-empty list is not handled exactly like a refused bitmap while another decoded "
         "result is handled differently (per result: reachable statements reading %s, reachable returns)" % (where, onames),
         "non-empty lists are not treated as refusals",
         ("result not tested: the list goes to %s whatever the return value" % onames) if sig is None else
         ("result %s; %s decided for %d results from the %s%s: consistent" % (
             mode, ttxt, len(outs), how, " (%d left open)" % nopen if nopen else "")) if bad is None else
         "%s is handled exactly like the refusal, %s, but unlike %s: %s decides %s" % (
             fmt_o(bad[0]), fmt_o(bad[1]), fmt_o(bad[2]), ttxt, ", ".join(node_text(q) for q in bad[3][:3])),
         bad is None, fm.line(c))


# ========================================== callers: the list handed on belongs to the description handed on

def _callee(c):
    f = strip(kids(c)[0], casts=True)
    return f.get("referencedDecl", {}).get("name") if kind(f) == "DeclRefExpr" else None


def _ref_name(e):
    e = strip(e, casts=True)
    return e.get("referencedDecl", {}).get("name") if e is not None and kind(e) == "DeclRefExpr" else None


def _norm_type(t):
    t = re.sub(r"\bconst\b|\bregister\b", " ", t)
    return re.sub(r"\s*\*\s*", "*", " ".join(t.split()))


def renderers_of(L, H, hdr, cf):
    """Functions of gsm48_rr.c that render a hopping list for their callers: they call the decoder with their own
    parameters as output list / output length and read the bitmap from one structure parameter (the channel description).
    -> {name: {"cd": index, "buf": index, "len": index, "cdtype": text}}; a function that only forwards three such
    parameters to a renderer is a renderer itself (fixpoint over the resolved calls)."""
    out = {}

    def own(fm, e):
        v = _ref_name(e)
        return fm.params.index(v) if v in fm.params and fm.never_written(v) and v not in fm.dups else None
    work = [(FN, {"cd": None, "buf": 3, "len": 4})]
    while work:
        callee, sig = work.pop()
        for fname in sorted({fi[0] for (fi, pos, args) in cf.calls(callee)}):
            if fname in out or fname == callee:
                continue
            fm = slice_of(L, H, cf.rel, fname, hdr)
            for (n, c) in fm.calls:
                if _callee(c) != callee:
                    continue
                args = kids(c)[1:]
                if len(args) <= max(sig["buf"], sig["len"]):
                    raise AnalysisError("call of %s() in %s() with %d arguments" % (callee, fname, len(args)))
                pb, pl = own(fm, args[sig["buf"]]), own(fm, args[sig["len"]])
                if pb is None or pl is None:
                    continue                # fills a buffer of its own: a caller, analysed as such
                src = args[1] if sig["cd"] is None else args[sig["cd"]]
                ps = sorted({fm.params.index(x.get("referencedDecl", {}).get("name")) for x in walk(src)
                             if kind(x) == "DeclRefExpr" and x.get("referencedDecl", {}).get("name") in fm.params})
                ps = [p for p in ps if "*" in fm.ptype.get(fm.params[p], "") and "struct" in fm.ptype.get(fm.params[p], "")]
                if len(ps) != 1 or not fm.never_written(fm.params[ps[0]]):
                    raise AnalysisError("%s() renders a hopping list for its callers, but the channel description it reads the bitmap "
                                        "from (`%s`) is not one structure parameter" % (fname, ctext(src)[:50]))
                rec = {"cd": ps[0], "buf": pb, "len": pl, "cdtype": _norm_type(fm.ptype[fm.params[ps[0]]])}
                if fname in out and out[fname] != rec:
                    raise AnalysisError("%s() renders hopping lists from different parameters" % fname)
                out[fname] = rec
            if fname in out:
                work.append((fname, out[fname]))
    return out


def obj_path(fm, e):
    """(base variable, member path) of an lvalue that names an object inside what one stable variable designates
    (`rr->cd_now`, `rr->vgcs.cd_group`, `*cd`): the only dereference is the one of the base variable, and that variable
    has one value for the whole function (parameter never written / local written once, address not taken)."""
    path = []
    e = strip(e, casts=True)
    deref = False
    while kind(e) == "MemberExpr":
        if deref:
            raise AnalysisError("channel description `%s` is reached through a pointer stored in memory (not followed)" % ctext(e)[:50])
        path.append(e.get("name"))
        deref = bool(e.get("isArrow"))
        e = strip(kids(e)[0], casts=True)
    if kind(e) == "UnaryOperator" and e.get("opcode") == "*" and not deref:
        deref = True
        e = strip(kids(e)[0], casts=True)
    v = _ref_name(e)
    if v is None:
        raise AnalysisError("channel description `%s` is not a member path of a variable" % ctext(e)[:50])
    stable = v not in fm.dups and v not in fm.addr and (
        (v in fm.params and not fm.writes.get(v)) or
        (v in fm.locals and len(fm.writes.get(v, [])) == 1 and fm.writes[v][0].how in ("init", "assign")))
    if not stable:
        raise AnalysisError("channel description is named through `%s`, which does not keep one value in the function" % v)
    return (("*" if deref else "") + v, tuple(reversed(path)))


def desc_object(fm, e, at, depth=0):
    """the object a channel-description pointer argument designates at CFG node `at`"""
    e = strip(e, casts=True)
    if kind(e) == "UnaryOperator" and e.get("opcode") == "&":
        return obj_path(fm, kids(e)[0])
    v = _ref_name(e)
    if v is not None and v in fm.params and fm.never_written(v) and v not in fm.dups:
        return ("*" + v, ())
    if v is not None and v in fm.locals and v not in fm.addr and v not in fm.dups and depth < 3:
        defs = fm.reaching_defs(v, at)
        if len(defs) == 1 and defs[0] != "undef" and defs[0].how in ("init", "assign") and defs[0].val is not None:
            return desc_object(fm, defs[0].val, defs[0].node, depth + 1)
    raise AnalysisError("channel description argument `%s` cannot be resolved to one object" % ctext(e)[:50])


def fmt_obj(o):
    base, path = o
    if base.startswith("*"):
        return base[1:] + "->" + ".".join(path) if path else base
    return ".".join((base,) + path)


def arg_objects(fm, e):
    """objects named by the member reads inside an argument (`rr->cd_now.maio` names rr->cd_now.maio and rr->cd_now)"""
    out = set()
    for x in walk(e):
        if kind(x) == "MemberExpr":
            try:
                b, p = obj_path(fm, x)
            except AnalysisError:
                continue
            for k in range(1, len(p) + 1):
                out.add((b, p[:k]))
            if b.startswith("*"):
                out.add((b, ()))
    return out


def r13_pairing(L, tier):
    """C20.R13 -- caller half of the clause "the decoded hopping list contains exactly the cell-allocation channels whose
    bit is set" (mechanism: callers feeding the hopping list to L1 on assignment / handover): the list a caller hands on
    together with a channel description is the one decoded from THAT description's Mobile Allocation.  The renderers
    are resolved from the call graph (functions of gsm48_rr.c that pass their own list / length parameters to the decoder
    and read the bitmap from one structure parameter, and functions that forward such parameters).  In every function
    that calls a renderer with a local list, each other call that is handed the list (or the length) is a consumer; the
    channel description it is given is the argument at the position of its description-typed parameter(s) (signature in
    gsm48_rr.c), else the descriptions whose members it is passed.  Reaching definitions on the statement CFG: every
    render call into the list (and into the length) that reaches the consumer must have rendered the description the
    consumer is given.  Two descriptions are different only when they are different member paths of the same stable
    variable; anything else (possible aliases, an unrendered path, lists written by hand, correlated branches) is not
    classified."""
    R = "C20.R13"
    with open(L.unit(F_HDR), "r", encoding="utf-8", errors="surrogateescape") as f:
        hdr = blank_strings(strip_comments(f.read()))
    H = HeaderIndex(L)
    cf = CFile(L, F_RR)
    rend = renderers_of(L, H, hdr, cf)
    if not rend:
        raise AnalysisError("no function of %s renders a hopping list through %s() for its callers" % (F_RR, FN))
    callers = sorted({fi[0] for r in rend for (fi, pos, args) in cf.calls(r)} - set(rend))
    nsites = ncons = 0
    for fname in callers:
        fm = slice_of(L, H, F_RR, fname, hdr)
        a, b = L.stage(r13_function, L, R, cf, fm, fname, rend) or (0, 0)
        nsites, ncons = nsites + a, ncons + b
    L.floor(R, "render calls (list, length, channel description resolved) in the callers of %s" % " / ".join(sorted(rend)), nsites, 6)
    L.floor(R, "calls that are handed a rendered hopping list together with a channel description", ncons, 4)


def r13_function(L, R, cf, fm, fname, rend):
    sites = []                  # (cfg node, call, description object, list local, length local)
    for (n, c) in fm.calls:
        sig = rend.get(_callee(c))
        if sig is None:
            continue
        args = kids(c)[1:]
        if len(args) <= max(sig["cd"], sig["buf"], sig["len"]):
            raise AnalysisError("call of %s() in %s() with %d arguments" % (_callee(c), fname, len(args)))
        buf = _ref_name(args[sig["buf"]])
        la = strip(args[sig["len"]], casts=True)
        ln = _ref_name(kids(la)[0]) if kind(la) == "UnaryOperator" and la.get("opcode") == "&" else None
        for v, what in ((buf, "list"), (ln, "length")):
            if v is None or v not in fm.locals or v in fm.dups:
                raise AnalysisError("%s(): the %s argument of %s() is not a local of the function (`%s`)" % (
                    fname, what, _callee(c), ctext(args[sig["buf" if what == "list" else "len"]])[:40]))
        if "[" not in fm.locals[buf].get("type", {}).get("qualType", ""):
            raise AnalysisError("%s(): the list `%s` rendered by %s() is not a local array" % (fname, buf, _callee(c)))
        sites.append((n, c, desc_object(fm, args[sig["cd"]], n), buf, ln))
    if not sites:
        return 0, 0
    bufs, lens = {s[3] for s in sites}, {s[4] for s in sites}
    # every other mention of the list / the length is an argument of a call: a consumer
    rcalls = {id(s[1]) for s in sites}
    cons = {}
    for v in sorted(bufs | lens):
        for (un, x) in fm.uses.get(v, []):
            p, call = x, None
            while p is not None:
                q = fm.tu.parent.get(id(p))
                if q is not None and kind(q) == "CallExpr" and kids(q)[0] is not p:
                    call = q
                    break
                p = q
            if call is not None and id(call) in rcalls:
                continue
            par = fm.parent(x)
            if v in lens:
                if call is not None and par is not None and kind(par) == "UnaryOperator" and par.get("opcode") == "&":
                    raise AnalysisError("%s(): the address of the length `%s` goes to %s(), which is not a renderer" % (fname, v, _callee(call)))
                if call is None:
                    continue            # read in a condition, or stored directly (a reaching definition, see r13_consumer)
            elif call is None:
                raise AnalysisError("%s(): the list `%s` is accessed outside a call (`%s`): lists put together by hand are not followed" % (
                    fname, v, stmt_text(par if par is not None else x)[:50]))
            cons.setdefault(id(call), (un, call, set()))[2].add(v)
    ncons = 0
    seen_keys = {}
    for (n, c, used) in sorted(cons.values(), key=lambda t: (fm.line(t[1]) or 0)):
        if not (used & bufs):
            continue                    # only the length: no list is handed on
        ncons += r13_consumer(L, R, cf, fm, fname, rend, sites, n, c, used, seen_keys)
    return len(sites), ncons


def r13_consumer(L, R, cf, fm, fname, rend, sites, n, c, used, seen_keys):
    callee = _callee(c)
    args = kids(c)[1:]
    if callee is None or callee in COPY_FNS or callee in ("memset", "__builtin_memset", "bzero"):
        raise AnalysisError("%s(): the rendered list is handed to `%s` (%s): not followed" % (fname, ctext(kids(c)[0])[:30], "a copy / fill"))
    if any(s[0] is n for s in sites):
        raise AnalysisError("%s(): a render call and %s() reading the list are parts of one statement" % (fname, callee))
    # ---- the description(s) the consumer is given
    cdtypes = {r["cdtype"] for r in rend.values()}
    defs = [f for f in cf.funcs if f[0] == callee and len(split_args(f[1])) == len(args)]
    given, how = set(), None
    if len(defs) == 1:
        for k, p in enumerate(split_args(defs[0][1])):
            m = re.match(r"(.*?)(\w+)\s*$", p.strip(), re.S)
            if m and _norm_type(m.group(1)) in cdtypes:
                given.add(desc_object(fm, args[k], n))
        how = "description parameter of %s()" % callee
    if not given:
        univ = {s[2] for s in sites}
        for a in args:
            if not any(_mentions(a, name=v) for v in used):
                given |= arg_objects(fm, a) & univ
        how = "members passed to %s()" % callee
    if not given:
        return 0                        # a list that travels without a description: nothing to pair
    # ---- render calls that reach the consumer, per local
    bad, via, unk = None, [], None
    for v in sorted(used):
        idx = 3 if any(s[3] == v for s in sites) else 4
        at = {}
        for s in sites:
            if s[idx] == v:
                at.setdefault(s[0].id, []).append(s)
        wr = {w.node.id for w in fm.writes.get(v, [])}
        seen, work = set(), [p for (p, _) in n.pred]
        while work:
            x = work.pop()
            if x.id in seen:
                continue
            seen.add(x.id)
            if x.id in at:
                if len(at[x.id]) > 1:
                    raise AnalysisError("%s(): two render calls into `%s` in one statement" % (fname, v))
                via.append((v, at[x.id][0]))
                continue
            if x.id in wr:
                unk = "`%s` is also stored directly (`%s`)" % (v, stmt_text(x.ast if x.ast is not None else x.cond)[:40])
                continue
            if x is fm.g.entry:
                unk = "`%s` reaches %s() unrendered on some path" % (v, callee)
                continue
            work += [p for (p, _) in x.pred]
    gl = fm.g.guard_lits(n)
    for (v, s) in via:
        if s[2] in given:
            continue
        same = [g for g in given if g[0] == s[2][0]]
        prefix = [g for g in same if g[1][:len(s[2][1])] == s[2][1] or s[2][1][:len(g[1])] == g[1]]
        if not same or prefix:
            unk = unk or "`%s` rendered from `%s` may or may not be the description `%s` given to %s()" % (
                v, fmt_obj(s[2]), " / ".join(sorted(fmt_obj(g) for g in given)), callee)
            continue
        if any((t, not p) in gl for (t, p) in fm.g.guard_lits(s[0])):
            unk = unk or "the render call from `%s` and %s() stand under opposite branch conditions (correlation not followed)" % (fmt_obj(s[2]), callee)
            continue
        bad = bad or (v, s)
    gtxt = " / ".join(sorted(fmt_obj(g) for g in given))
    key = "%s() handed the list with channel description `%s` in %s()" % (callee, gtxt, fname)
    seen_keys[key] = seen_keys.get(key, 0) + 1
    if seen_keys[key] > 1:
        key += " (#%d)" % seen_keys[key]
    key += ": every render call that reaches it rendered that description (%s)" % how
    if bad is None and unk is not None:
        raise AnalysisError("%s(): %s" % (fname, unk))
    srcs = sorted({fmt_obj(s[2]) for (_, s) in via})
    L.ob(R, F_RR, fname, key, "list and length rendered from `%s`" % gtxt,
         ("`%s` rendered from `%s`" % ("`, `".join(sorted(used)), "`, `".join(srcs))) if bad is None else
         "`%s` holds the list rendered from `%s` (%s() call at line %s): the hopping list of another Mobile Allocation goes to L1 with `%s`" % (
             bad[0], fmt_obj(bad[1][2]), _callee(bad[1][1]), fm.line(bad[1][1]), gtxt),
         bad is None, fm.line(c))
    return 1


# ========================================== callers: the cell allocation the message carries is the one decoded against

def _decl_id(e):
    return e.get("referencedDecl", {}).get("id") if e is not None and kind(e) == "DeclRefExpr" else None


def _writes_of(fm, name, did):
    """writes to the variable DECLARED as `did` (names are shared by shadowing block-locals; clang's declaration id
    tells them apart)"""
    out = []
    for w in fm.writes.get(name, []):
        wid = w.ast.get("id") if w.how == "init" else _decl_id(strip(kids(w.ast)[0]))
        if wid == did:
            out.append(w)
    return out


def scoped_defs(fm, name, did, at):
    """definitions of the variable declared as `did` that reach CFG node `at` ('undef': the entry does)"""
    wn = {}
    for w in _writes_of(fm, name, did):
        wn.setdefault(w.node.id, []).append(w)
    out, seen, work = [], set(), [p for (p, _) in at.pred]
    while work:
        x = work.pop()
        if x.id in seen:
            continue
        seen.add(x.id)
        if x.id in wn:
            out += wn[x.id]
            continue
        if x is fm.g.entry:
            out.append("undef")
            continue
        work += [p for (p, _) in x.pred]
    return out


def _is_array(fm, e):
    """the lvalue is an array (decays to the address of the object): by its type, or -- for a member whose declaration
    the slice synthesised with a made-up type -- by the member declaration in the headers of the tree (fm.headers)"""
    if kind(e) not in ("MemberExpr", "DeclRefExpr"):
        return False
    if "[" in qt_of(e):
        return True
    H = getattr(fm, "headers", None)
    owner = struct_of(strip(kids(e)[0])) if kind(e) == "MemberExpr" else None
    if H is None or owner is None or owner not in fm.real_structs:
        return False
    hs = H.struct(owner)
    d = hs[1].get(e.get("name")) if hs else None
    return d is not None and d[1] is not None and "*" not in d[0]


def scoped_pointer(fm, e, at, depth=0):
    """Object a pointer expression designates at CFG node `at`, names resolved by SCOPE: (base, member path) with base
    "name#declid" for a local array / structure of the function and "*name#declid" for what a pointer variable that
    keeps one value designates (parameter never written; local whose only write is its definition and whose value is
    read from memory or returned by a call).  Local pointers holding an address are followed to their one reaching
    definition.  AnalysisError when the expression is not such a path."""
    e = strip(e, casts=True)
    if kind(e) == "UnaryOperator" and e.get("opcode") == "&":
        return scoped_object(fm, kids(e)[0], at, depth)
    if _is_array(fm, e):
        return scoped_object(fm, e, at, depth)
    if kind(e) == "DeclRefExpr" and depth < 5:
        rd = e.get("referencedDecl", {})
        v, did = rd.get("name"), rd.get("id")
        if v in fm.addr:
            raise AnalysisError("the address of pointer `%s` is taken: its value is not followed" % v)
        ws = _writes_of(fm, v, did)
        if rd.get("kind") == "ParmVarDecl":
            if ws:
                raise AnalysisError("pointer parameter `%s` is written" % v)
            return ("*%s#%s" % (v, did), ())
        defs = scoped_defs(fm, v, did, at)
        if len(defs) == 1 and defs[0] != "undef" and defs[0].how in ("init", "assign") and defs[0].val is not None:
            val = strip(defs[0].val, casts=True)
            addr = (kind(val) == "UnaryOperator" and val.get("opcode") == "&") or kind(val) == "DeclRefExpr" or _is_array(fm, val)
            if addr:
                return scoped_pointer(fm, val, defs[0].node, depth + 1)
            if len(ws) == 1:
                return ("*%s#%s" % (v, did), ())
    raise AnalysisError("pointer `%s` cannot be resolved to one object" % ctext(e)[:50])


def scoped_object(fm, e, at, depth=0):
    e = strip(e, casts=True)
    k = kind(e)
    if k == "MemberExpr":
        inner = kids(e)[0]
        b, p = scoped_pointer(fm, inner, at, depth) if e.get("isArrow") else scoped_object(fm, inner, at, depth)
        return (b, p + (e.get("name"),))
    if k == "UnaryOperator" and e.get("opcode") == "*":
        return scoped_pointer(fm, kids(e)[0], at, depth)
    if k == "ArraySubscriptExpr" and fm.tu.fold(kids(e)[1]) == 0 and "[" in qt_of(strip(kids(e)[0])):
        return scoped_object(fm, kids(e)[0], at, depth)
    if k == "DeclRefExpr" and e.get("referencedDecl", {}).get("kind") == "VarDecl" and "*" not in qt_of(e).split("[")[0]:
        rd = e["referencedDecl"]
        return ("%s#%s" % (rd.get("name"), rd.get("id")), ())
    raise AnalysisError("`%s` is not a member path of a local object or of what a pointer designates" % ctext(e)[:50])


def fmt_scoped(fm, o):
    """readable form of a scoped object: declaration ids replaced by the line of the declaration when a name is shared"""
    base, path = o
    star = base.startswith("*")
    nm, did = base.lstrip("*").split("#")
    if nm in fm.dups:
        d = [x for x in walk(fm.f) if x.get("id") == did and kind(x) in ("VarDecl", "ParmVarDecl")]
        nm = "%s (the one declared at line %s)" % (nm, fm.line(d[0])) if d else nm
    return (nm + ("->" if star else ".") + ".".join(path)) if path else (("*" if star else "") + nm)


def _pointee(fm, e):
    """struct name an argument expression points to / is an array of (None: not a structure pointer); for an array
    member the slice declares with a made-up type, from the member declaration in the headers of the tree"""
    e = strip(e, casts=True)
    m = re.fullmatch(r"(?:const\s+)?struct (\w+)\s*(?:\*|\[\d*\])", " ".join(qt_of(e).split()))
    if m is None and kind(e) == "MemberExpr" and "[" not in qt_of(e) and _is_array(fm, e):
        d = fm.headers.struct(struct_of(strip(kids(e)[0])))[1][e.get("name")]
        m = re.fullmatch(r"(?:const\s+)?struct (\w+)(\s*\*)?", " ".join(d[0].split()) + " *")
    return m.group(1) if m else None


def r17_own_allocation(L, tier):
    """C20.R17 -- caller half of the clause "the decoded hopping list contains exactly the cell-allocation channels whose
    bit is set ... never a channel outside the cell allocation", at the callers that read the bitmap from a channel
    description structure (assignment / handover / frequency redefinition).  The decoder applies the bitmap to the
    table it is handed as first argument.  When, on a path to the decoder call, the function has another call decode a
    further member of THE SAME description object (the Cell Channel Description the message carries: `cd->cell_desc_lv`
    next to `cd->mob_alloc_lv`) into a table of the decoder's table type, the bits of the Mobile Allocation index that
    cell allocation: the table written there must be the object the decoder reads.  Both table arguments are resolved to
    objects by scope (clang's declaration ids: a block-local declaration that shadows an outer pointer is another
    variable; local pointers are followed to their one reaching definition).  Same object: holds.  Provably different
    objects (a local array of the function against anything else, different member paths of one base): the bitmap is
    applied to another cell allocation than the one decoded for it -- violation.  Anything else (two pointers of
    unknown relation, an unresolvable argument) is not classified."""
    R = "C20.R17"
    with open(L.unit(F_HDR), "r", encoding="utf-8", errors="surrogateescape") as f:
        hdr = blank_strings(strip_comments(f.read()))
    H = HeaderIndex(L)
    npairs = 0
    for rel in caller_files(L, tier):
        cf = CFile(L, rel)
        for fname in sorted({fi[0] for (fi, pos, args) in cf.calls(FN)}):
            k = L.stage(r17_function, L, R, H, hdr, rel, fname)
            npairs += 0 if k is STAGE_FAILED else k
    L.floor(R, "decodings of a Cell Channel Description on the way to a call of %s paired with the table that call reads" % FN, npairs, 1)
    L.assume("C20.R17: a callee does not store the address of a caller's local table into the structures other pointers of "
             "that caller are read from (a local array and what a pointer variable designates are different objects)")


def _desc_member(fm, e, at):
    """(description object, member name) when the pointer argument points into an octet-array member of a structure"""
    sp = field_ptr(fm, e)
    if sp is None or kind(sp[0]) != "MemberExpr" or "[" not in qt_of(sp[0]):
        return None
    try:
        b, p = scoped_object(fm, sp[0], at)
    except AnalysisError:
        return None
    return ((b, p[:-1]), p[-1])


def r17_function(L, R, H, hdr, rel, fname):
    fm = slice_of(L, H, rel, fname, hdr)
    fm.headers = H
    n_ob, seen = 0, {}
    for (n, c) in fm.calls:
        if _callee(c) != FN or len(kids(c)) != 7:
            continue
        args = kids(c)[1:]
        bm = _desc_member(fm, args[1], n)
        tt = _pointee(fm, args[0])
        if bm is None or tt is None:
            continue                            # the bitmap is not a member of a description structure (SI 4: message octets)
        for (dn, d) in fm.calls:
            if d is c or _callee(d) in (None, FN) or n.id not in fm.reach_succ(dn) or dn is n:
                continue
            dargs = kids(d)[1:]
            tabs = [a for a in dargs if _pointee(fm, a) == tt]
            srcs = [m for m in (_desc_member(fm, a, dn) for a in dargs if _pointee(fm, a) is None) if m is not None]
            srcs = [m for m in srcs if m[0] == bm[0] and m[1] != bm[1]]
            if not tabs or not srcs:
                continue
            if len(tabs) != 1 or len({m[1] for m in srcs}) != 1:
                raise AnalysisError("%s(): %s() is handed several tables / description members on the way to %s()" % (fname, _callee(d), FN))
            try:
                into = scoped_pointer(fm, tabs[0], dn)
                read = scoped_pointer(fm, args[0], n)
            except AnalysisError as e:
                raise AnalysisError("%s(): table of %s() / %s(): %s" % (fname, _callee(d), FN, e))
            diff = False if into == read else objects_differ(into, read)
            if diff is None:
                raise AnalysisError("%s(): %s() decodes `%s` into `%s`, %s() reads `%s`: whether these are the same table is open" % (
                    fname, _callee(d), srcs[0][1], fmt_scoped(fm, into), FN, fmt_scoped(fm, read)))
            mem = srcs[0][1]
            key = "%s() decodes member `%s` of the description whose `%s` %s() is handed in %s()" % (_callee(d), mem, bm[1], FN, fname)
            seen[key] = seen.get(key, 0) + 1
            if seen[key] > 1:
                key += " (#%d)" % seen[key]
            key += ": the table it fills is the cell allocation the bitmap is decoded against"
            L.ob(R, rel, fname, key, "first argument of %s() designates the table `%s` was decoded into" % (FN, mem),
                 "both are `%s`" % fmt_scoped(fm, read) if not diff else
                 "`%s` is decoded into `%s`, but %s() reads `%s`: the bits of the Mobile Allocation select channels of another cell "
                 "allocation than the one the message carries" % (mem, fmt_scoped(fm, into), FN, fmt_scoped(fm, read)),
                 not diff, fm.line(c))
            n_ob += 1
    return n_ob


# ========================================== callers' premise: the cell-allocation table holds what the message describes

F_GIE = "src/shared/libosmocore/src/gsm/gsm48_ie.c"
FN_FL = "gsm48_decode_freq_list"


def _mask_effect(fm, w, lv, flag):
    """what a store into a `.mask` of the table does to the bits of `flag`: "clear" (every flag bit is 0 afterwards),
    "set" (a flag bit that was 0 can be 1 afterwards) or "keep" -- folded per bit over (old value, flag) for stores built
    from the old value, the flag, constants and ~ & | ^ (bitwise: each bit position sees all four combinations)"""
    old_txt = ctext(lv)

    def val(e, old, fl):
        e = strip(e, casts=True)
        k = kind(e)
        if k == "IntegerLiteral":
            return int(e.get("value"))
        if k == "DeclRefExpr" and e.get("referencedDecl", {}).get("name") == flag:
            return fl
        if k == "MemberExpr" and ctext(e) == old_txt:
            return old
        if k == "UnaryOperator" and e.get("opcode") == "~":
            return ~val(kids(e)[0], old, fl)
        if k == "BinaryOperator" and e.get("opcode") in ("&", "|", "^"):
            a, b = (val(x, old, fl) for x in kids(e))
            return a & b if e.get("opcode") == "&" else a | b if e.get("opcode") == "|" else a ^ b
        c = fm.tu.fold(e)
        if c is None:
            raise AnalysisError("%s(): value stored into `%s` (`%s`) is not a bitwise term of the old value and `%s`" % (
                FN_FL, old_txt, ctext(e)[:40], flag))
        return c
    if w.how not in ("assign", "aug&=", "aug|=", "aug^="):
        raise AnalysisError("%s(): store `%s` into the table is not classified" % (FN_FL, ctext(w.ast)[:50]))
    sets = keeps = False
    for old in (0x00, 0xff):
        for fl in (0x00, 0xff):
            v = val(w.val, old, fl)
            new = (v if w.how == "assign" else old & v if w.how == "aug&=" else old | v if w.how == "aug|=" else old ^ v) & 0xff
            sets = sets or bool(new & fl & ~old)
            keeps = keeps or bool(new & fl)
    return "set" if sets else "keep" if keeps else "clear"


def _clearing_loop(fm, w, lv):
    """(loop facts, range of the indices cleared, None) when the clearing store w is executed once for every value of the
    counter of a counted loop that can only be left when the count is complete (then everything behind the loop sees those
    entries without the flag); else (None, None, why not)"""
    loops = fm.enclosing_loops(w.node)
    if not loops:
        return None, None, "`%s` is not in a loop" % ctext(w.ast)[:40]
    try:
        li = fm.loop(loops[0])
        hi = fm.loop_hi(li, {})
    except AnalysisError as e:
        return None, None, str(e)
    idx = fm.lower(kids(strip(kids(lv)[0]))[1])
    if idx != X.V(li["var"]) or li["skips"]:
        return None, None, "index `%s` is not the plain loop counter `%s`" % (X.show(idx), li["var"])
    region, c = li["region"], li["cond"]
    if not fm.g.dominates(w.node, li["inc"]):
        return None, None, "the store is not executed before every step of the counter"
    for n in fm.g.nodes:
        if n.id in region and n is not c and any(s.id not in region for (s, _) in n.succ):
            return None, None, "the loop can be left before the count is complete"
    return li, range(li["init"], hi), None


def r18_fresh_allocation(L, sl, tier):
    """C20.R18 -- premise of the clauses "exactly the cell-allocation channels whose bit is set" and "never a channel outside
    the cell allocation" on the callers' side (with C20.R17): the table the Mobile Allocation decoder reads must hold the cell
    allocation the Cell Channel Description of the message describes, and nothing else.  The table outlives messages (SI 1,
    then the description of an ASSIGNMENT / HANDOVER COMMAND is decoded into the same table), so gsm48_decode_freq_list()
    may set the flag of a channel only after it took the flag from EVERY entry: each store that can set a flag bit is
    dominated by the exit of a counted loop over all indices whose body clears the flag (effect of the stores folded per
    bit; the loops by their counter facts; the index ranges of all clearing loops that dominate the store are united).
    A set that is reached while some entry provably kept its flag merges the description into the stale allocation: the
    bitmap then selects channels of the old cell -- violation.  A clearing of unknown extent on the way gives no verdict."""
    R = "C20.R18"
    N = sl[1]["NFREQ"]
    tu = TU(L.repo, "libosmo", "src/gsm/gsm48_ie.c", L=L)
    fd = tu.func(FN_FL)
    L.fn(F_GIE, FN_FL)
    fm = FM(tu, fd, dup_ok=True)
    ps = tu.fparams(fd)
    if len(ps) != 5 or "gsm_sysinfo_freq *" not in ps[0].get("type", {}).get("qualType", ""):
        raise AnalysisError("%s(): signature changed (table, octets, length, format mask, flag expected)" % FN_FL)
    table, flag = ps[0].get("name"), ps[4].get("name")
    for p in (table, flag):
        if not fm.never_written(p) or p in fm.dups:
            raise AnalysisError("%s(): parameter `%s` is written, shadowed or has its address taken" % (FN_FL, p))
    stores = {}
    for w in fm.memwrites:
        lv = strip(kids(w.ast)[0])
        sb = strip(kids(lv)[0]) if kind(lv) == "MemberExpr" and not lv.get("isArrow") else None
        if sb is not None and kind(sb) == "ArraySubscriptExpr" and _ref_name(kids(sb)[0]) == table:
            stores[id(strip(kids(sb)[0]))] = (w, lv)
    in_lv = {id(x) for w in fm.memwrites for x in walk(kids(w.ast)[0])}
    for (un, a) in fm.uses.get(table, []):
        if id(a) not in stores:
            p = fm.parent(a)
            pp = fm.parent(p) if p is not None and kind(p) == "ArraySubscriptExpr" else None
            if pp is None or kind(pp) != "MemberExpr" or id(a) in in_lv:
                raise AnalysisError("%s(): the table `%s` is used other than by reading / storing a member of an entry (line %s)" % (
                    FN_FL, table, fm.line(a)))
    sets, clears = [], []
    for (w, lv) in stores.values():
        if lv.get("name") != "mask":
            continue
        eff = _mask_effect(fm, w, lv, flag)
        (sets if eff == "set" else clears if eff == "clear" else []).append((w, lv))
    L.floor(R, "stores in %s() that set the flag of a channel" % FN_FL, len(sets), 5)
    loops, open_ = [], []       # recognised clearing loops / clearing stores whose extent is not known
    for (w, lv) in clears:
        li, rng, why = _clearing_loop(fm, w, lv)
        if li is None:
            open_.append((w, why))
        else:
            loops.append((li, rng))
    bad = missing = unproven = None
    for (w, lv) in sorted(sets, key=lambda s: fm.line(s[0].ast) or 0):
        covered = set()
        for (li, rng) in loops:
            if w.node.id not in li["region"] and fm.g.dominates(li["cond"], w.node):
                covered |= set(rng)
        left = [k for k in range(N) if k not in covered]
        if not left:
            continue
        if any(w.node.id in fm.reach_succ(cw.node) for (cw, _) in open_):
            unproven = unproven or w        # a clearing of unknown extent may come first
        elif bad is None:
            bad, missing = w, left
    if bad is None and unproven is not None:
        raise AnalysisError("%s(): `%s` follows a clearing of the flag that is not recognised as one of the whole table (%s)" % (
            FN_FL, ctext(unproven.ast)[:50], "; ".join(y for (_, y) in open_)[:160]))
    L.ob(R, F_GIE, FN_FL, "every store that sets the flag of a channel in the table comes after the flag was taken from all %d entries "
         "(the table then holds exactly the channels of THIS description, the cell allocation the Mobile Allocation is decoded against)" % N,
         "%d setting stores, each dominated by a complete clearing loop" % len(sets),
         "%d setting stores, each dominated by a complete clearing loop" % len(sets) if bad is None else
         "`%s` can be reached while `%s` was not taken from entry %s: the description is merged into the allocation left in the table" % (
             ctext(bad.ast)[:60], flag, brief(missing) if len(missing) < N else "0 .. %d (no clearing on that path)" % (N - 1)), bad is None, fm.line(bad.ast) if bad is not None else tu.line(fd))


# ========================================== callers: the received bitmap is the one that is rendered

def lvalue_object(fm, e, at):
    """(base, member path) of the object an lvalue names at CFG node `at`.  base is a local structure variable named
    without a dereference (`cd.mob_alloc_lv` -> ("cd", ("mob_alloc_lv",)): one object for the whole function) or
    "*p" for what a never-written pointer parameter designates; local pointers are followed to their one reaching
    definition (`cda` -> `&rr->cd_after` -> `&ms->rrlayer.cd_after`), so every name of an object has one form."""
    e = strip(e, casts=True)
    k = kind(e)
    if k == "MemberExpr":
        inner = kids(e)[0]
        b, p = pointer_object(fm, inner, at) if e.get("isArrow") else lvalue_object(fm, inner, at)
        return (b, p + (e.get("name"),))
    if k == "UnaryOperator" and e.get("opcode") == "*":
        return pointer_object(fm, kids(e)[0], at)
    if k == "ArraySubscriptExpr" and fm.tu.fold(kids(e)[1]) == 0 and "[" in qt_of(strip(kids(e)[0])):
        return lvalue_object(fm, kids(e)[0], at)        # first element: same address as the array
    v = _ref_name(e)
    if v is not None and v in fm.locals and v not in fm.dups and "*" not in qt_of(fm.locals[v]):
        return (v, ())
    raise AnalysisError("`%s` is not a member path of a local structure or of what a pointer designates" % ctext(e)[:50])


def pointer_object(fm, e, at, depth=0):
    """the object a pointer expression points to at CFG node `at` (same form as lvalue_object)"""
    e = strip(e, casts=True)
    if kind(e) == "UnaryOperator" and e.get("opcode") == "&":
        return lvalue_object(fm, kids(e)[0], at)
    if kind(e) in ("MemberExpr", "DeclRefExpr") and "[" in qt_of(e):
        return lvalue_object(fm, e, at)                 # an array decays to the address of the array object
    v = _ref_name(e)
    if v is not None and v in fm.params and fm.never_written(v) and v not in fm.dups:
        return ("*" + v, ())
    if v is not None and v in fm.locals and v not in fm.addr and v not in fm.dups and depth < 4:
        defs = fm.reaching_defs(v, at)
        if len(defs) == 1 and defs[0] != "undef" and defs[0].how in ("init", "assign") and defs[0].val is not None:
            return pointer_object(fm, defs[0].val, defs[0].node, depth + 1)
    raise AnalysisError("pointer `%s` cannot be resolved to one object" % ctext(e)[:50])


def objects_differ(a, b):
    """True: the two objects cannot overlap; False: one is (part of) the other; None: unknown (two pointers)"""
    (ba, pa), (bb, pb) = a, b
    if ba == bb:
        k = min(len(pa), len(pb))
        return pa[:k] != pb[:k]
    if not ba.startswith("*") or not bb.startswith("*"):
        # a local structure of this activation against another local / against what a pointer parameter designates
        # (a parameter was computed before the local existed)
        return True
    return None


def _derived_from(fm, e, names, depth=0):
    """the expression, or a value one of its local variables is ever given, names a variable of `names`"""
    for x in walk(e):
        v = x.get("referencedDecl", {}).get("name") if kind(x) == "DeclRefExpr" else None
        if v is None:
            continue
        if v in names:
            return True
        if v in fm.locals:
            if depth > 4 or v in fm.dups:
                return True
            for w in fm.writes.get(v, []):
                if w.val is None or _derived_from(fm, w.val, names, depth + 1):
                    return True
    return False


def r14_received(L, tier):
    """C20.R14 -- caller half of the clause "the decoded hopping list contains exactly the cell-allocation channels whose
    bit is set" (mechanism: callers feeding the hopping list to L1): the bitmap a render call decodes is the one that was
    received for the description it renders.  In every function of gsm48_rr.c that stores a Mobile Allocation (a copy
    into the LV member the decoder is fed from, C20.R11's set, destination resolved to the description object X that
    owns the member) and afterwards calls a renderer (C20.R13's resolved set), the stored octets must be able to reach a
    render call: some render call reachable from the store on the statement CFG renders X, or an object the octets were
    copied on to in between (copy calls / structure assignments whose source contains the holder).  If every render call
    that follows renders an object that cannot overlap any holder (different member paths of the same base, a local
    structure against anything else), every list the handler renders after reception -- the lists it hands to L1 -- is
    decoded from octets other than the received ones: violation.  Objects reached through two unrelated pointers, or
    copies in between that cannot be resolved, are not classified (ANALYSIS-ERROR).  A function that only stores (the
    description is rendered later by another function) has nothing to pair."""
    R = "C20.R14"
    with open(L.unit(F_HDR), "r", encoding="utf-8", errors="surrogateescape") as f:
        hdr = blank_strings(strip_comments(f.read()))
    H = HeaderIndex(L)
    cf = CFile(L, F_RR)
    rend = renderers_of(L, H, hdr, cf)
    fields = lv_fields(L, H, hdr, "quick")
    if not rend or not fields:
        raise AnalysisError("no renderer / no LV member of %s() found in %s" % (FN, F_RR))
    rcallers = {fi[0] for r in rend for (fi, pos, args) in cf.calls(r)} - set(rend)
    nstores = npaired = 0
    for (S, M) in sorted(fields):
        fnames = sorted({fi[0] for cp in COPY_FNS for (fi, pos, args) in cf.calls(cp)
                         if args and re.search(r"\b%s\b" % re.escape(M), args[0])} - set(rend))
        for fname in fnames:
            nstores += 1
            if fname not in rcallers:
                continue
            k = L.stage(r14_function, L, R, H, hdr, fname, rend, S, M)
            npaired += 0 if k is STAGE_FAILED else k
    L.floor(R, "functions of gsm48_rr.c that store a Mobile Allocation LV", nstores, 3)
    L.floor(R, "stores of a Mobile Allocation that are followed by render calls in the same function", npaired, 3)


def r14_function(L, R, H, hdr, fname, rend, S, M):
    fm = slice_of(L, H, F_RR, fname, hdr)
    renders, stores, copies = [], [], []
    for (n, c) in fm.calls:
        cal, args = _callee(c), kids(c)[1:]
        if cal in rend:
            renders.append((n, c))
        elif cal in COPY_FNS and len(args) >= 3:
            dp = field_ptr(fm, args[0]) if any(kind(x) == "MemberExpr" and x.get("name") == M for x in walk(args[0])) else None
            if dp is not None and kind(dp[0]) == "MemberExpr" and dp[0].get("name") == M and dp[1] == 0 and \
                    struct_of(strip(kids(dp[0])[0])) in (S, None):
                stores.append((n, c, dp[0]))
            copies.append((n, c, args[1], args[0], True))
    for w in fm.memwrites:
        if w.how == "assign" and qt_of(kids(w.ast)[0]).startswith(("struct ", "union ")):
            copies.append((w.node, w.ast, kids(w.ast)[1], kids(w.ast)[0], False))
    k = 0
    seen = {}
    for (n, c, dst) in stores:
        after = fm.reach_succ(n)
        follow = [(rn, rc) for (rn, rc) in renders if rn.id in after]
        if not follow:
            continue
        k += 1
        X = lvalue_object(fm, dst, n)
        rendered = []
        for (rn, rc) in follow:
            Y = pointer_object(fm, kids(rc)[1:][rend[_callee(rc)]["cd"]], rn)
            rendered.append((rn, rc, Y, (Y[0], Y[1] + (M,))))
        holders, made, unresolved = [X], {X: None}, []       # made: holder -> CFG node of the copy that produced it
        between = [t for t in copies if t[1] is not c and t[0].id in after]
        grown = True
        while grown:
            grown = False
            for (cn, cc, src, dd, is_ptr) in between:
                # holders whose octets are in place when this copy is made
                cur = [h for h in holders if made[h] is None or cn.id in fm.reach_succ(made[h])]
                try:
                    so = pointer_object(fm, src, cn) if is_ptr else lvalue_object(fm, src, cn)
                    cur = [h for h in cur if so[0] == h[0] and h[1][:len(so[1])] == so[1]]
                    if not cur:
                        continue            # copies something else
                    do = pointer_object(fm, dd, cn) if is_ptr else lvalue_object(fm, dd, cn)
                except AnalysisError:
                    # a source that is not derived from the address of a local structure cannot lie inside it
                    loc = {h[0] for h in cur if not h[0].startswith("*")}
                    if len(loc) == len({h[0] for h in cur}) and not _derived_from(fm, src, loc):
                        continue
                    # whatever is copied lands in an object that no render call that follows reads
                    dp = field_ptr(fm, dd) if is_ptr else (dd, 0)
                    try:
                        do = lvalue_object(fm, dp[0], cn) if dp is not None else None
                    except AnalysisError:
                        do = None
                    if do is not None and all(objects_differ(do, ym) is True for (_, _, _, ym) in rendered):
                        continue
                    if stmt_text(cc) not in unresolved:
                        unresolved.append(stmt_text(cc))
                    continue
                for h in cur:
                    nh = (do[0], do[1] + h[1][len(so[1]):])
                    if nh not in holders:
                        holders.append(nh)
                        made[nh] = cn
                        grown = True
        same, differ, unk = [], [], []
        for (rn, rc, Y, YM) in rendered:
            # a holder counts for this render call only if the copy that made it lies in front of the call
            live = [h for h in holders if made[h] is None or rn.id in fm.reach_succ(made[h])]
            ds = [objects_differ(h, YM) for h in live]
            (same if any(d is False for d in ds) else differ if all(d is True for d in ds) else unk).append(fmt_obj(Y))
        ok = bool(same)
        if not ok and (unk or unresolved):
            raise AnalysisError("%s(): whether the Mobile Allocation stored into `%s` is the one rendered from `%s` cannot be "
                                "classified (%s)" % (fname, ctext(dst), " / ".join(sorted(set(unk + differ))),
                                                     "copies in between: %s" % "; ".join(unresolved)[:120] if unresolved else "objects behind unrelated pointers"))
        src_txt = ctext(kids(c)[2])
        kk = seen[(ctext(dst), src_txt)] = seen.get((ctext(dst), src_txt), 0) + 1
        L.ob(R, F_RR, fname, "Mobile Allocation stored into `%s` from `%s`%s in %s(): a render call that follows decodes the "
             "description that received it" % (ctext(dst), src_txt, " (#%d)" % kk if kk > 1 else "", fname),
             "a render call from `%s`" % fmt_obj((X[0], X[1][:-1])),
             ("rendered from `%s`" % "`, `".join(sorted(set(same)))) if ok else
             "every render call that follows renders `%s`: the bitmap received into `%s` is not the one decoded, the list handed "
             "to L1 is the one of the Mobile Allocation `%s` held before" % ("`, `".join(sorted(set(differ))), ctext(dst),
                                                                         "` / `".join(sorted(set(differ)))),
             ok, fm.line(c))
    return k


def _only_fills(fm, q, nm):
    """statement q only initialises the local array `nm` (memset / bzero / memcpy into it, element store): no alias is made"""
    a = strip(q.ast, casts=True) if q.kind == "stmt" and q.ast is not None else None
    if a is None:
        return False
    if kind(a) == "CallExpr" and ctext(kids(a)[0]) in ("memset", "bzero", "__builtin_memset") + COPY_FNS:
        args = kids(a)[1:]
        d = strip(args[0], casts=True) if args else None
        return d is not None and kind(d) == "DeclRefExpr" and d.get("referencedDecl", {}).get("name") == nm and \
            not any(_mentions(x, name=nm) for x in args[1:] if kind(strip(x)) != "UnaryExprOrTypeTraitExpr")
    if kind(a) == "BinaryOperator" and a.get("opcode") == "=":
        l, r = kids(a)
        return fm.store_base(l) == nm and kind(strip(l)) == "ArraySubscriptExpr" and not _mentions(r, name=nm)
    return False


# ========================================== callers: band conversion of the decoded list
#
# The renderer post-processes the decoded list before it is handed to L1: the channels of the range PCS 1900 and
# DCS 1800 share get the ARFCN_PCS flag when the cell refers to PCS.  The cell allocation of such a cell consists of
# PCS channels, so an entry that misses the flag (or gets it outside the range) names a carrier outside the cell
# allocation.  The conversion is *evaluated*: one iteration of the loop around the store is walked on the statement
# CFG for every entry value 0..1023 and both answers of gsm_refer_pcs(), and compared with the repository's own
# definitions of the shared range (gsm_arfcn_refer_pcs in sysinfo.c, arfcn2index in gsm322.c), evaluated the same way.

F_322 = "src/host/layer23/src/mobile/gsm322.c"
REFER_FN, REFER_ARFCN_FN, INDEX_FN = "gsm_refer_pcs", "gsm_arfcn_refer_pcs", "arfcn2index"
_BIN = {"+": lambda x, y: x + y, "-": lambda x, y: x - y, "*": lambda x, y: x * y, "&": lambda x, y: x & y,
        "|": lambda x, y: x | y, "^": lambda x, y: x ^ y, "<": lambda x, y: int(x < y), ">": lambda x, y: int(x > y),
        "<=": lambda x, y: int(x <= y), ">=": lambda x, y: int(x >= y), "==": lambda x, y: int(x == y),
        "!=": lambda x, y: int(x != y), "<<": lambda x, y: x << y if 0 <= y < 32 else None,
        ">>": lambda x, y: x >> y if 0 <= y < 32 else None}


class _Path(object):
    __slots__ = ("env", "written", "forked", "tainted", "idx", "entry", "steps")

    def __init__(self, env):
        self.env, self.written, self.forked, self.tainted, self.idx, self.entry, self.steps = dict(env), set(), False, False, None, None, 0

    def clone(self):
        p = _Path(self.env)
        p.written, p.forked, p.tainted, p.idx, p.entry, p.steps = set(self.written), self.forked, self.tainted, self.idx, self.entry, self.steps
        return p


class BandWalk(object):
    """Concrete walk over the statement CFG of a sliced function.  Values are integers (in the types clang resolved)
    or None = not determined; a condition that is not determined is followed both ways.  `consts` gives the value of
    upper-case constants (header #defines), `oracle(name, args)` the result of a call (None = not determined),
    `lst` names the pointer whose elements are the list entry under evaluation: all accesses of one walk must use one
    index expression whose variables are not written on the way."""

    def __init__(self, fm, consts, oracle, lst=None, outer=None):
        self.fm, self.consts, self.oracle, self.lst, self.outer = fm, consts, oracle, lst, outer

    def it(self, n):
        return int_type(self.fm.tu, n.get("type", {}))

    def var(self, P, nm):
        fm = self.fm
        if nm in P.env:
            return P.env[nm]
        if nm in fm.locals or nm in fm.params:
            if self.outer is None or nm in fm.dups or nm in fm.addr:
                return None
            P.env[nm] = self.outer(nm)
            return P.env[nm]
        return self.consts.get(nm)      # a constant without one #define in the headers is not determined

    def is_list(self, lv):
        lv = strip(lv)
        return self.lst is not None and kind(lv) in ("ArraySubscriptExpr", "UnaryOperator") and self.fm.store_base(lv) == self.lst

    def list_access(self, P, lv):
        lv = strip(lv)
        if kind(lv) != "ArraySubscriptExpr" or self.fm.store_base(kids(lv)[0]) != self.lst or kind(strip(kids(lv)[0])) != "DeclRefExpr":
            raise CannotEval("access `%s` to the list is not an element access" % ctext(lv)[:40])
        ix = kids(lv)[1]
        names = {x.get("referencedDecl", {}).get("name") for x in walk(ix) if kind(x) == "DeclRefExpr"}
        if any(kind(x) in ("CallExpr", "ArraySubscriptExpr", "MemberExpr") or (kind(x) == "UnaryOperator" and x.get("opcode") in ("++", "--", "*"))
               for x in walk(ix)) or names & P.written or (P.idx is not None and P.idx != ctext(ix)):
            raise CannotEval("the list is accessed at `%s` and at another index in one iteration" % ctext(ix)[:30])
        P.idx = ctext(ix)

    def val(self, P, e):
        k, ks = kind(e), kids(e)
        if k in ("ParenExpr", "ConstantExpr"):
            return self.val(P, ks[0])
        if k in ("ImplicitCastExpr", "CStyleCastExpr"):
            ck = e.get("castKind")
            if ck == "LValueToRValue" and self.is_list(ks[0]):
                self.list_access(P, ks[0])
                return P.entry
            v = self.val(P, ks[0])
            if ck in ("LValueToRValue", "NoOp"):
                return v
            if ck == "IntegralCast":
                t = self.it(e)
                return _wrap(v, t) if v is not None and t is not None else None
            if ck == "IntegralToBoolean":
                return None if v is None else int(v != 0)
            if ck == "ToVoid":
                return 0
            return None
        if k == "IntegerLiteral":
            return int(e.get("value", "0"), 0)
        if k == "CharacterLiteral":
            return int(e.get("value", 0))
        if k == "UnaryExprOrTypeTraitExpr":
            return self.fm.tu.fold(e)
        if k == "DeclRefExpr":
            rd = e.get("referencedDecl", {})
            if rd.get("kind") == "EnumConstantDecl":
                return self.fm.tu.fold(e)
            if rd.get("kind") in ("VarDecl", "ParmVarDecl"):
                return self.var(P, rd.get("name"))
            return None
        if k == "UnaryOperator":
            op = e.get("opcode")
            if op in ("++", "--"):
                return self.assign(P, ks[0], lambda old: None if old is None else old + (1 if op == "++" else -1), bool(e.get("isPostfix")))
            if op in ("&", "*"):
                if op == "*" and self.is_list(e):
                    self.list_access(P, e)
                return None
            v = self.val(P, ks[0])
            if v is None:
                return None
            if op == "!":
                return int(not v)
            t = self.it(e)
            return _wrap({"-": -v, "~": ~v, "+": v}[op], t) if op in ("-", "~", "+") and t is not None else None
        if k == "ConditionalOperator":
            c = self.val(P, ks[0])
            if c is None:
                a, b = self.val(P, ks[1]), self.val(P, ks[2])
                return a if a == b else None
            return self.val(P, ks[1] if c else ks[2])
        if k == "BinaryOperator":
            op = e.get("opcode")
            if op == "=":
                v = self.val(P, ks[1])
                return self.assign(P, ks[0], lambda old: v, False, plain=True)
            if op == ",":
                self.val(P, ks[0])
                return self.val(P, ks[1])
            if op in ("&&", "||"):
                a = self.val(P, ks[0])
                if a is not None and bool(a) == (op == "||"):
                    return int(op == "||")
                b = self.val(P, ks[1])          # no side effects are lost: an undetermined left side makes the result undetermined or b's
                if b is not None and bool(b) == (op == "||"):
                    return int(op == "||")
                return None if a is None or b is None else int(op == "&&")
            a, b = self.val(P, ks[0]), self.val(P, ks[1])
            if op == "&" and 0 in (a, b):
                return 0
            if a is None or b is None or op not in _BIN:
                return None
            r, t = _BIN[op](a, b), self.it(e)
            return None if r is None or t is None else _wrap(r, t)
        if k == "CompoundAssignOperator":
            op = e.get("opcode", "")[:-1]
            b = self.val(P, ks[1])
            ct = int_type(self.fm.tu, e.get("computeResultType", {}))
            return self.assign(P, ks[0], lambda old: None if old is None or b is None or op not in _BIN or _BIN[op](old, b) is None
                               else _wrap(_BIN[op](old, b), ct or (64, True)), False)
        if k == "CallExpr":
            args = [self.val(P, a) for a in ks[1:]]
            return self.oracle(_callee(e), args)
        if k in ("ArraySubscriptExpr", "MemberExpr"):
            for x in ks:
                self.val(P, x)
            return None
        if k in ("StringLiteral", "ImplicitValueInitExpr"):
            return None
        raise CannotEval("expression `%s` (%s)" % (ctext(e)[:40], k))

    def assign(self, P, lv, f, postfix, plain=False):
        l = strip(lv)
        if kind(l) == "DeclRefExpr" and l.get("referencedDecl", {}).get("kind") in ("VarDecl", "ParmVarDecl"):
            nm = l["referencedDecl"].get("name")
            old = None if plain else self.var(P, nm)
            new = f(old)
            t = self.it(l)
            new = _wrap(new, t) if new is not None and t is not None else None
            P.env[nm] = new
            P.written.add(nm)
            return old if postfix else new
        if self.is_list(l):
            self.list_access(P, l)
            new = f(None if plain else P.entry)
            t = self.it(l)
            P.entry = _wrap(new, t) if new is not None and t is not None else None
            P.tainted = P.forked
            return P.entry
        for x in kids(l):
            self.val(P, x)
        f(None)
        return None

    def execute(self, P, st):
        k = kind(st)
        if k == "DeclStmt":
            for d in kids(st):
                if kind(d) == "VarDecl":
                    ks = [c for c in kids(d) if kind(c) and not kind(c).endswith("Attr")]
                    v = self.val(P, ks[-1]) if ks else None
                    t = int_type(self.fm.tu, d.get("type", {}))
                    P.env[d.get("name")] = _wrap(v, t) if v is not None and t is not None else None
                    P.written.add(d.get("name"))
        elif k == "ReturnStmt":
            raise _Ret(self.val(P, kids(st)[0]) if kids(st) else None)
        elif k in ("BreakStmt", "ContinueStmt", "GotoStmt"):
            pass
        else:
            self.val(P, st)

    def walk(self, start, P, stop):
        """[(how, path)]: how = ('stop',) at a node of `stop`, ('ret', value) at a return, ('end',) at the function's end"""
        out, todo = [], [(start, P)]
        while todo:
            n, P = todo.pop()
            while True:
                P.steps += 1
                if P.steps > 4000 or len(todo) + len(out) > 64:
                    raise CannotEval("walk does not end")
                if n in stop:
                    out.append((("stop",), P))
                    break
                if n.kind == "exit":
                    out.append((("end",), P))
                    break
                if n.kind == "cond":
                    c = self.val(P, n.cond) if n.cond is not None else 1
                    nx = [(s, l) for (s, l) in n.succ if c is None or bool(l) == bool(c)]
                    if c is None:
                        P.forked = True
                    if not nx:
                        raise CannotEval("condition `%s` has no successor for its value" % ctext(n.cond)[:40])
                    for (s, _) in nx[1:]:
                        todo.append((s, P.clone()))
                    n = nx[0][0]
                    continue
                if n.kind == "switch" or n.kind == "raise":
                    raise CannotEval("switch on the way")
                if n.kind == "stmt":
                    try:
                        self.execute(P, n.ast)
                    except _Ret as r:
                        out.append((("ret", r.v), P))
                        break
                if len(n.succ) != 1:
                    raise CannotEval("statement with %d successors" % len(n.succ))
                n = n.succ[0][0]
        return out


def band_consts(H, fm):
    """values of the upper-case constants a sliced function names (one #define in the headers each)"""
    out = {}
    for x in walk(fm.f):
        if kind(x) == "DeclRefExpr" and x.get("referencedDecl", {}).get("kind") == "VarDecl":
            nm = x["referencedDecl"].get("name")
            if nm not in fm.locals and nm not in out and re.fullmatch(r"[A-Z][A-Z0-9_]*", nm or ""):
                v = H.define(nm)
                if v is not None:
                    out[nm] = v
    return out


def whole_function(fm, consts, oracle, args):
    """the value a sliced function returns for the given arguments (None = not determined on some path)"""
    bw = BandWalk(fm, consts, oracle)
    P = _Path({p: None for p in fm.params})
    for p, v in args.items():
        P.env[p] = _wrap(v, int_type(fm.tu, fm.ptype.get(p, "")))
    res = bw.walk(fm.g.entry.succ[0][0], P, ())
    vals = {how[1] if how[0] == "ret" else None for (how, _) in res}
    return vals.pop() if len(vals) == 1 else None


def fmt_ranges(s):
    s, out = sorted(s), []
    for a in s:
        if out and out[-1][1] == a - 1:
            out[-1][1] = a
        else:
            out.append([a, a])
    return ", ".join("%d..%d" % (a, b) if a != b else str(a) for a, b in out) or "none"


def pcs_reference(L, H, hdr):
    """(flag, {refers to PCS: {arfcn: channel the cell means}}) from the repository's definitions of the shared range"""
    R = "C20.R16"
    flag = H.define("ARFCN_PCS")
    if not flag or flag & 1023:
        raise AnalysisError("ARFCN_PCS has no single #define above the 10 bit ARFCN in the headers")
    fr = slice_of(L, H, F_SYS, REFER_ARFCN_FN, hdr)
    apar = [p for p in fr.params if int_type(fr.tu, fr.ptype.get(p, "")) == (16, False)]
    if len(apar) != 2:
        raise AnalysisError("%s(): the cell's and the channel's ARFCN parameter cannot be told apart" % REFER_ARFCN_FN)
    cr = band_consts(H, fr)
    ref = {}
    for r in (0, 1):
        ref[r] = {}
        for a in range(1024):
            v = whole_function(fr, cr, lambda nm, args: r if nm == REFER_FN else None, {apar[1]: a})
            if v is None or v not in (a, a | flag) or (not r and v != a):
                raise AnalysisError("%s(): result for ARFCN %d in a cell that %s PCS is %s" % (
                    REFER_ARFCN_FN, a, "refers to" if r else "does not refer to", "not determined" if v is None else v))
            ref[r][a] = v
    shared = {a for a in ref[1] if ref[1][a] != a}
    # second definition: the index of the supported-frequency map tells the flag apart exactly in the shared range
    fi = slice_of(L, H, F_322, INDEX_FN, hdr)
    ci = band_consts(H, fi)
    if len(fi.params) != 1:
        raise AnalysisError("%s() has %d parameters" % (INDEX_FN, len(fi.params)))
    shared2 = set()
    for a in range(1024):
        u, f = (whole_function(fi, ci, lambda nm, args: None, {fi.params[0]: x}) for x in (a, a | flag))
        if u is None or f is None:
            raise AnalysisError("%s(): index of ARFCN %d is not determined" % (INDEX_FN, a))
        if u != f:
            shared2.add(a)
    if shared != shared2:
        raise AnalysisError("the repository's definitions of the range PCS 1900 shares with DCS 1800 disagree: %s() flags %s, %s() tells "
                            "the flag apart for %s" % (REFER_ARFCN_FN, fmt_ranges(shared), INDEX_FN, fmt_ranges(shared2)))
    L.require(R, F_SYS, REFER_ARFCN_FN, "ARFCNs that name a PCS 1900 channel in a cell that refers to PCS: one contiguous range, the same "
              "in %s() and %s()" % (REFER_ARFCN_FN, INDEX_FN), True, bool(shared) and len(shared) == max(shared) - min(shared) + 1)
    return flag, ref, shared


def r16_band(L, tier):
    """C20.R16 -- clause "never a channel outside the cell allocation" (mechanism: callers feeding the hopping list to L1):
    what the renderer stores back into the decoded list still names the cell-allocation channel.  In a cell that refers to
    PCS 1900 the channels of the range shared with DCS 1800 are PCS channels (ARFCN_PCS set), everywhere else the entry is
    the plain ARFCN.  For every function of gsm48_rr.c that hands its list parameter to the decoder, each loop that stores
    into that list behind the decoder call is walked for one iteration on the statement CFG, for every entry value
    0..1023 x gsm_refer_pcs() in {0, 1} (locals defined in front of the loop by their unique reaching definition; calls of
    gsm_arfcn_refer_pcs by that function's own fold).  The entry after the iteration must equal the reference
    gsm_arfcn_refer_pcs(.., entry) of sysinfo.c, which must agree with arfcn2index() of gsm322.c on the shared range.
    Iterations that leave the function by `return` (refusals) are not compared; a wrong value on a path that passed an
    undetermined condition in front of the store is not classified."""
    R = "C20.R16"
    with open(L.unit(F_HDR), "r", encoding="utf-8", errors="surrogateescape") as f:
        hdr = blank_strings(strip_comments(f.read()))
    H = HeaderIndex(L)
    cf = CFile(L, F_RR)
    try:
        flag, ref, shared = pcs_reference(L, H, hdr)
        nloops = 0
        for fname in sorted({fi[0] for (fi, pos, args) in cf.calls(FN)}):
            nloops += r16_function(L, R, H, hdr, fname, flag, ref, shared)
    except CannotEval as e:
        raise AnalysisError("[%s] band conversion of the decoded list: %s" % (R, e))
    L.floor(R, "loops that store into the decoded list behind the decoder call (band conversion)", nloops, 1)


def r16_function(L, R, H, hdr, fname, flag, ref, shared):
    fm = slice_of(L, H, F_RR, fname, hdr)
    g = fm.g
    dec = [(n, c) for (n, c) in fm.calls if _callee(c) == FN]
    lists = {_ref_name(kids(c)[4]) if len(kids(c)) > 4 else None for (n, c) in dec}     # the decoder's output list (see renderers_of)
    if len(lists) != 1 or None in lists or not dec:
        raise AnalysisError("%s(): the list handed to %s() is not one variable" % (fname, FN))
    lst = lists.pop()
    after = set()
    for (n, c) in dec:
        after |= set(fm.reach_succ(n))
    loops = {}
    for w in fm.memwrites:
        if fm.store_base(kids(w.ast)[0]) == lst and w.node.id in after:
            lp = g.loop_of(w.node)
            if lp is None or kind(lp) != "ForStmt" and kind(lp) != "WhileStmt":
                raise AnalysisError("%s(): store `%s` into the decoded list is not inside a for / while loop" % (fname, ctext(w.ast)[:40]))
            loops.setdefault(id(lp), (lp, []))[1].append(w)
    consts = band_consts(H, fm)
    fr = slice_of(L, H, F_SYS, REFER_ARFCN_FN, hdr)
    cr = band_consts(H, fr)
    apar = [p for p in fr.params if int_type(fr.tu, fr.ptype.get(p, "")) == (16, False)]
    for (lp, ws) in loops.values():
        head = g.by_ast.get(id(lp))
        body = [s for (s, l) in head.succ if l is True] if head is not None and head.kind == "cond" else []
        if len(body) != 1:
            raise AnalysisError("%s(): loop around `%s` has no body entry" % (fname, ctext(ws[0].ast)[:40]))
        inside = {x.id for x in g.nodes if x.id in fm.reach_succ(body[0]) and head.id in fm.reach_succ(x)} | {body[0].id}
        bad = {}
        for r in (0, 1):
            def oracle(nm, args, r=r):
                if nm == REFER_FN:
                    return r
                if nm == REFER_ARFCN_FN and len(args) == len(fr.params) and args[-1] is not None:
                    return whole_function(fr, cr, lambda n2, a2: r if n2 == REFER_FN else None, {apar[1]: args[fr.params.index(apar[1])]})
                return None

            def outer(nm, oracle=oracle):
                defs = [d for d in fm.reaching_defs(nm, head) if d == "undef" or d.node.id not in inside]
                if len(defs) != 1 or defs[0] == "undef" or defs[0].how not in ("init", "assign") or defs[0].val is None:
                    return None
                return BandWalk(fm, consts, oracle).val(_Path({}), defs[0].val)
            bw = BandWalk(fm, consts, oracle, lst=lst, outer=outer)
            pre = _Path({})
            for a in range(1024):
                P = _Path(pre.env)
                P.entry = a
                for (how, Q) in bw.walk(body[0], P, (head,)):
                    if how[0] == "ret" or Q.entry == ref[r][a]:
                        continue
                    if Q.tainted or Q.entry is None:
                        raise CannotEval("%s(): entry %d after the iteration is %s (behind a condition that is not determined)" % (
                            fname, a, "not determined" if Q.entry is None else Q.entry))
                    bad.setdefault(r, {})[a] = Q.entry
                for nm, v in P.env.items():         # definitions in front of the loop: evaluated once
                    if nm not in P.written and nm not in pre.env:
                        pre.env[nm] = v
        want = found = "ARFCN_PCS on exactly ARFCN %s of a PCS cell" % fmt_ranges(shared)
        if bad:
            r = max(bad)
            a = max(bad[r]) if r else min(bad[r])
            found = "in a cell that %s PCS: ARFCN %s left as / turned into %s (e.g. entry %d becomes %d = %s, the cell's channel is %d = %s)" % (
                "refers to" if r else "does not refer to", fmt_ranges(bad[r]), fmt_ranges({v & 1023 for v in bad[r].values()}) +
                (" without ARFCN_PCS" if not any(v & flag for v in bad[r].values()) else " with ARFCN_PCS"),
                a, bad[r][a], fmt_arfcn(bad[r][a], flag), ref[r][a], fmt_arfcn(ref[r][a], flag))
        L.ob(R, F_RR, fname, "band conversion of the decoded hopping list (`%s`): for every entry 0..1023 and a cell that does / does not "
             "refer to PCS 1900 the entry handed on names the cell-allocation channel (reference: %s() of sysinfo.c, %s() of gsm322.c)" % (
                 lst, REFER_ARFCN_FN, INDEX_FN),
             want, found, not bad, fm.line(ws[0].ast))
    return len(loops)


def fmt_arfcn(v, flag):
    return "%d%s" % (v & 1023, " PCS" if v & flag else "")


# ================================================================= call sites

def r2_callers(L, K, tier):
    B = Buffers(L, K["hdr"])
    rels = [F_SYS, F_RR]
    if tier == "thorough":
        top = os.path.join(L.repo, "src/host/layer23/src")
        for dp, dn, fns in os.walk(top):
            for fn in sorted(fns):
                if fn.endswith(".c"):
                    rel = os.path.relpath(os.path.join(dp, fn), L.repo)
                    if rel not in rels:
                        with open(os.path.join(dp, fn), "r", encoding="utf-8", errors="surrogateescape") as f:
                            if FN in f.read():
                                rels.append(rel)
    sites, decls = 0, set()
    for rel in rels:
        cf = CFile(L, rel)
        for (fi, pos, args) in cf.calls(FN):
            if len(args) != 6:
                raise AnalysisError("call of %s() in %s() with %d arguments" % (FN, fi[0], len(args)))
            sites += 1
            L.fn(rel, fi[0])
            for d in B.resolve(cf, fi, args[3], pos):
                decls.add((d["file"], d["func"], d["decl"]))
                t = " ".join(d["type"].split())
                L.ob("C20.R2", d["file"], d["func"], "buffer `%s` receives the hopping list of %s(): at least %d uint16_t elements" % (
                    d["decl"], FN, MAXHOP), ">= %d x uint16_t" % MAXHOP, "%d x %s" % (d["extent"], t),
                    d["extent"] >= MAXHOP and t == "uint16_t", d["line"])
            for d in B.resolve(cf, fi, args[0], pos):
                L.ob("C20.R4", d["file"], d["func"], "frequency table `%s` passed to %s() has %d entries (one per ARFCN)" % (
                    d["decl"], FN, K["NFREQ"]), ">= %d" % K["NFREQ"], d["extent"], d["extent"] >= K["NFREQ"], d["line"])
    L.floor("C20.R2", "call sites of %s" % FN, sites, 2)
    L.floor("C20.R2", "caller buffer declarations reached (1 struct member + 9 locals)", len(decls), 10)


# ================================================================ downstream

def fmt_min_len(lit):
    """least number of characters a printf format produces (None if unknown)"""
    if len(lit) < 2 or lit[0] != '"' or lit[-1] != '"':
        return None
    f = lit[1:-1]
    i, n = 0, 0
    while i < len(f):
        ch = f[i]
        if ch == "\\":
            i += 2
            n += 1
            continue
        if ch != "%":
            i += 1
            n += 1
            continue
        m = re.match(r"%([-+ #0]*)(\d*)(?:\.(\d+))?(hh|h|ll|l|z|j|t)?([diuxXocs%])", f[i:])
        if not m:
            return None
        conv = m.group(5)
        if conv == "%":
            n += 1
        else:
            n += max(int(m.group(2) or 0), 0 if conv == "s" else 1)
        i += m.end()
    return n


def entry_term(fm, t, at, outside=None, depth=0):
    """term t, read at CFG node `at`, with every local replaced by the value it holds there: the local has exactly
    one reaching definition `x = e` (coming from outside the loop `outside` when `at` is its header), e is free of
    side effects, and e is taken -- recursively -- at its own statement.  Locals that cannot be resolved stay."""
    if t[0] == "c":
        return t
    if t[0] == "v":
        x = t[1]
        if depth > 6 or x not in fm.locals or x in fm.addr or x in fm.dups:
            return t
        defs = fm.reaching_defs(x, at, outside=outside)
        if len(defs) != 1 or defs[0] == "undef" or defs[0].how not in ("init", "assign") or not fm._readonly(defs[0].val):
            return t
        try:
            e = fm.lower(defs[0].val)
        except AnalysisError:
            return t
        if "<mem>" in free_vars(e):
            return t
        return entry_term(fm, e, defs[0].node, None, depth + 1)
    return tuple(entry_term(fm, x, at, outside, depth) if isinstance(x, tuple) else x for x in t)


def entry_test(fm, c0, region, MLEN):
    """Does the first evaluation of the loop condition hold for every allocation length >= 1?
    The condition's locals are replaced by their values at loop entry (entry_term); each conjunct must then be
    linear in the length: `a != b` with a-b = m*N (m != 0), `a < b` with b-a = m*N + k, or N itself.
    Decided for all N >= 1 on the linear form (machine arithmetic = integer arithmetic: N counts array elements).
    -> (holds, text); AnalysisError when a conjunct is not such a comparison."""
    ats = fm.edge_atoms(c0, True)
    if not ats:
        raise AnalysisError("loop over the allocation has no condition")
    N = MLEN
    for (t, p) in ats:
        t = entry_term(fm, t, c0, region)
        t, p = fm.norm_term(t, p)
        what = X.show(t)[:60]
        if free_vars(t) & (set(fm.locals) | {"<mem>"}):
            # a local whose value at loop entry is not a function of the call's constants (or a value read from memory)
            raise AnalysisError("first test `%s` of the loop over the allocation cannot be decided" % what)
        if t == X.V(N):
            if not p:
                return False, "loop runs only for an empty allocation"
            continue
        if t[0] != "cmp":
            raise AnalysisError("first test `%s` of the loop over the allocation cannot be decided" % what)
        try:
            co, k = X.linear(X.sub(t[3], t[2]))          # b - a
        except AnalysisError:
            co, k = None, None
        if co is None or set(co) - {N}:
            raise AnalysisError("first test `%s` of the loop over the allocation cannot be decided" % what)
        m = co.get(N, 0)
        if t[1] == "==":
            # p: a == b for all N >= 1; not p: a != b for all N >= 1  (m*N + k != 0)
            if p:
                hold = m == 0 and k == 0
                cex = 1
            else:
                hold = not (m != 0 and (-k) % m == 0 and (-k) // m >= 1) and not (m == 0 and k == 0)
                cex = (-k) // m if m else 1
        else:
            # a < b  <=>  m*N + k > 0;   !(a < b)  <=>  m*N + k <= 0
            if p:
                hold = m >= 0 and m + k > 0
                cex = 1 if m + k <= 0 else None
            else:
                hold = m <= 0 and m + k <= 0
                cex = 1 if m + k > 0 else None
        if not hold:
            return False, "first loop test `%s` fails for an allocation of %s entries (no pair is appended)" % (
                what, cex if cex is not None else "many")
    return True, "the first loop test holds for every non-empty allocation"


def trx_unit(L):
    return TU(L.repo, "trxcon", "src/trx_if.c", L=L)


def r5_setfh(L, tu=None, facts=None):
    R = "C20.R5"
    fn = "trx_if_cmd_setfh"
    tu = tu or trx_unit(L)
    facts = {} if facts is None else facts
    fd = tu.func(fn)
    L.fn(F_TRX, fn)
    ps = tu.fparams(fd)
    if len(ps) != 2:
        raise AnalysisError("%s() signature changed" % fn)
    P = ps[1].get("name")
    MLEN = "%s->ma_len" % P
    fm = FM(tu, fd, extra_invariant={MLEN, "%s->ma" % P})
    dom3 = range(0, 3)
    # ---- an empty allocation is rejected with an error and never composed
    emits = [(n, c) for (n, c) in fm.calls if ctext(kids(c)[0]) == "trx_ctrl_cmd"]
    L.floor(R, "SETFH emissions (trx_ctrl_cmd)", len(emits), 1)
    for (n, c) in emits:
        d = fm.domain(n, MLEN, dom3)
        L.ob(R, F_TRX, fn, "the SETFH command is composed only for a non-empty allocation (`%s` != 0 on every path)" % MLEN,
             "%s >= 1" % MLEN, "%s >= %s" % (MLEN, d[0] if d else "?"), bool(d) and 0 not in d, fm.line(c))
    rej = 0
    for r in [x for x in fm.g.nodes if x.kind == "stmt" and kind(x.ast) == "ReturnStmt"]:
        if 0 in fm.domain(r, MLEN, dom3):
            rej += 1
            v = fm.tu.fold(kids(r.ast)[0]) if kids(r.ast) else None
            L.ob(R, F_TRX, fn, "a return that an empty allocation can reach yields a negative error code", "negative constant",
                 v if v is not None else (ctext(kids(r.ast)[0])[:50] if kids(r.ast) else "void"), v is not None and v < 0, fm.line(r.ast))
    L.floor(R, "returns reachable with an empty allocation (the rejection)", rej, 1)
    # ---- snprintf size tracking
    sn = [(n, c) for (n, c) in fm.calls if ctext(kids(c)[0]) in ("snprintf", "__builtin_snprintf")]
    L.floor(R, "snprintf calls composing the allocation", len(sn), 1)
    for (n, c) in sn:
        args = kids(c)[1:]
        if len(args) < 3:
            raise AnalysisError("snprintf with %d arguments" % len(args))
        nbad = len([o for o in L.obs if not o.ok])
        dst, siz, fmt = strip(args[0]), strip(args[1]), strip(args[2], casts=True)
        PTR = dst.get("referencedDecl", {}).get("name") if kind(dst) == "DeclRefExpr" else None
        SZ = siz.get("referencedDecl", {}).get("name") if kind(siz) == "DeclRefExpr" else None
        if PTR is None or PTR not in fm.locals or "*" not in fm.locals[PTR].get("type", {}).get("qualType", ""):
            raise AnalysisError("%s(): snprintf destination `%s` is not a local cursor pointer (unclassifiable)" % (fn, ctext(dst)))
        L.ob(R, F_TRX, fn, "snprintf size argument is the tracked remaining length (a local variable updated with the cursor)",
             "local length variable", ctext(siz), SZ is not None and SZ in fm.locals, fm.line(c))
        par = fm.parent(c)
        RC = None
        if kind(par) == "BinaryOperator" and par.get("opcode") == "=" and kind(strip(kids(par)[0])) == "DeclRefExpr":
            RC = strip(kids(par)[0]).get("referencedDecl", {}).get("name")
        elif kind(par) == "VarDecl":
            RC = par.get("name")
        L.ob(R, F_TRX, fn, "the result of snprintf is kept in a local variable", "rc = snprintf(...)", ctext(par)[:40] if par else "?", RC is not None, fm.line(c))
        if RC is None or SZ is None or SZ not in fm.locals:
            continue
        # cursor and length: initial values and updates
        arrs, pupd, bad = set(), [], []
        for w in fm.writes.get(PTR, []):
            v = strip(w.val) if w.val is not None else None
            if w.how in ("init", "assign") and kind(v) == "DeclRefExpr" and array_extent(v.get("type", {}).get("qualType")) is not None:
                arrs.add((v.get("referencedDecl", {}).get("name"), array_extent(v.get("type", {}).get("qualType"))))
            elif w.how == "aug+=" and kind(v) == "DeclRefExpr" and v.get("referencedDecl", {}).get("name") == RC:
                pupd.append(w)
            else:
                bad.append(ctext(w.ast)[:40])
        z0, zupd = [], []
        for w in fm.writes.get(SZ, []):
            v = strip(w.val) if w.val is not None else None
            if w.how in ("init", "assign") and fm.tu.fold(w.val) is not None:
                z0.append(fm.tu.fold(w.val))
            elif w.how == "aug-=" and kind(v) == "DeclRefExpr" and v.get("referencedDecl", {}).get("name") == RC:
                zupd.append(w)
            else:
                bad.append(ctext(w.ast)[:40])
        shape = len(arrs) == 1 and len(pupd) == 1 and len(z0) == 1 and len(zupd) == 1 and not bad and \
            PTR not in fm.addr and SZ not in fm.addr
        L.ob(R, F_TRX, fn, "cursor `%s` starts at the buffer and only advances by the snprintf result; `%s` starts at a constant and only shrinks by it" % (PTR, SZ),
             "1 buffer, `%s += %s`, `%s -= %s`" % (PTR, RC, SZ, RC),
             "buffers %s, %d cursor updates, %d length updates%s" % (sorted(arrs), len(pupd), len(zupd), ", other writes: %s" % bad if bad else ""),
             shape, fm.line(c))
        if not shape:
            continue
        (ARR, E), Z0 = arrs.pop(), z0[0]
        L.ob(R, F_TRX, fn, "initial remaining length fits the buffer `%s[%d]`" % (ARR, E), "<= %d" % E, Z0, 0 < Z0 <= E, fm.line(c))
        U1, U2 = zupd[0], pupd[0]
        # both updates are guarded by 0 <= rc <= remaining, on the value snprintf returned
        for U in (U1, U2):
            ats = fm.atoms(U.node)
            lo = [a for a in ats if a[0] == ("cmp", "<", X.V(RC), X.C(0)) and not a[1]]
            hi = [a for a in ats if a[0] == ("cmp", "<", X.V(SZ), X.V(RC)) and not a[1]] + \
                 [a for a in ats if a[0] == ("cmp", "<", X.V(RC), X.V(SZ)) and a[1]] + \
                 [a for a in ats if a[0] == ("cmp", "<", X.V(RC), X.add(X.V(SZ), X.C(1))) and a[1]]
            defs = fm.reaching_defs(RC, U.node)
            fresh = len(defs) == 1 and defs[0] != "undef" and defs[0].node is n
            partner = U2 if U is U1 else U1
            stable = all(U.node.id not in fm.reach_succ(w.node, skip=[a[2]])
                         for a in (lo[:1] + hi[:1]) for w in fm.writes.get(SZ, []) + fm.writes.get(RC, []) if w is not partner)
            L.ob(R, F_TRX, fn, "update `%s` happens only after the snprintf result was checked (0 <= %s <= %s: no truncation past the remaining room)" % (
                ctext(U.ast), RC, SZ), "guards %s >= 0 and %s <= %s on the fresh result" % (RC, RC, SZ),
                "%s%s%s" % ("" if lo else "no check %s >= 0; " % RC, "" if hi else "no check %s <= %s; " % (RC, SZ),
                            "checked" if (lo and hi and fresh and stable) else ("result not fresh" if not fresh else "")),
                bool(lo) and bool(hi) and fresh and stable, fm.line(U.ast))
        a, b = (U1, U2) if fm.g.dominates(U1.node, U2.node) else (U2, U1)
        paired = fm.g.dominates(a.node, b.node) and fm.g.must_pass(a.node, [b.node]) and \
            fm.g.must_pass(a.node, [b.node], to=n) and b.node.id not in fm.reach_succ(b.node, skip=[a.node])
        L.ob(R, F_TRX, fn, "cursor and remaining length are updated together (cursor - buffer + remaining stays %d)" % Z0,
             "paired updates", "paired updates" if paired else "one update can happen without the other", paired, fm.line(a.ast))
        # ---- terminator store behind the loop
        mlen = fmt_min_len(fmt.get("value", "")) if kind(fmt) == "StringLiteral" else None
        L.ob(R, F_TRX, fn, "every appended pair is at least one character long (format literal)", ">= 1", mlen if mlen is not None else ctext(fmt)[:30],
             mlen is not None and mlen >= 1, fm.line(c))
        for w in fm.memwrites:
            lv = strip(kids(w.ast)[0])
            try:
                t = fm.lower(lv)
            except AnalysisError:
                continue
            if X.V(PTR) not in subterms(t):
                continue
            off = None
            if t[0] == "call" and t[1] == "deref":
                co, k = X.linear(t[2])
                if co == {PTR: 1}:
                    off = k
            elif t[0] == "idx" and t[1] == X.V(PTR) and X.is_c(t[2]):
                off = t[2][1]
            if off is None:
                raise AnalysisError("%s(): store `%s` through the cursor has an unclassifiable target" % (fn, ctext(w.ast)[:40]))
            # at least one pair was appended before: the first test of the loop holds for every non-empty allocation
            # (whatever walks the allocation: an index, a pointer, a count-down) and every way from there to the
            # store advances the cursor
            loops = fm.enclosing_loops(n)
            if len(loops) != 1:
                raise AnalysisError("%s(): snprintf is inside %d loops (expected the one loop over the allocation)" % (fn, len(loops)))
            c0 = fm.g.by_ast.get(id(loops[0]))
            if c0 is None or c0.kind != "cond" or kind(loops[0]) == "DoStmt":
                raise AnalysisError("%s(): loop shape not supported (line %s)" % (fn, fm.line(loops[0])))
            region = fm.natural_loop(c0)
            first, ftxt = entry_test(fm, c0, region, MLEN)
            nonempty = 0 not in fm.domain(c0, MLEN, dom3)
            adv = w.node.id not in fm.reach_succ(c0, skip=[U2.node], label=True)
            after = w.node.id not in region
            if not after:
                raise AnalysisError("%s(): the store `%s` through the cursor is inside the loop (unclassifiable)" % (fn, ctext(w.ast)[:40]))
            ok1 = first and nonempty and adv
            why = "%s%s%s" % (ftxt, "" if nonempty else ", the loop is reachable with an empty allocation (not rejected)",
                              "" if adv else ", the store is reachable without advancing the cursor")
            lo_ok = mlen is not None and mlen + off >= 0
            hi_ok = Z0 + off < E
            L.ob(R, F_TRX, fn, "terminator store `%s` stays inside `%s[%d]` (at least one pair precedes it)" % (ctext(w.ast), ARR, E),
                 "0 <= offset < %d" % E,
                 "offset in %s..%d; %s" % (mlen + off if mlen is not None else "?", Z0 + off, why), ok1 and lo_ok and hi_ok, fm.line(w.ast))
            if len([o for o in L.obs if not o.ok]) == nbad and w.how == "assign" and fm.tu.fold(w.val) == 0:
                # cursor - buffer <= Z0 (updates only under rc <= remaining), NUL stored at cursor + off: the text that
                # is handed on is at most Z0 + off characters long
                facts.setdefault("strmax", {})[ARR] = max(Z0 + off, facts.get("strmax", {}).get(ARR, 0))


# ------------------------------------------------- downstream: order of the entries

SORT_FNS = ("qsort",)


class _Origins(object):
    """Where the values formatted into the text come from: element reads `*(base + index)`, found by following the
    reaching definitions of locals backwards through conversions (arithmetic with constants, calls: their result is a
    function of their arguments).  -> [(base expr, index expr | None, CFG node of the read)]"""

    def __init__(self, fm, fn):
        self.fm, self.fn, self.chain = fm, fn, []

    def of(self, e, at, depth=0):
        fm = self.fm
        e = strip(e, casts=True)
        k = kind(e)
        if depth > 8:
            raise AnalysisError("%s(): value `%s` formatted into the allocation has a definition chain that is too long" % (self.fn, ctext(e)[:40]))
        if fm.tu.fold(e) is not None or k in ("IntegerLiteral", "CharacterLiteral", "UnaryExprOrTypeTraitExpr"):
            return []
        if k in ("BinaryOperator", "ConditionalOperator") and e.get("opcode", "?") not in ("=", ","):
            return [o for x in kids(e) for o in self.of(x, at, depth)]
        if k == "UnaryOperator" and e.get("opcode") in ("-", "~", "+", "!"):
            return self.of(kids(e)[0], at, depth)
        if k == "CallExpr":
            return [o for x in kids(e)[1:] for o in self.of(x, at, depth)]
        if k == "ArraySubscriptExpr":
            return [(kids(e)[0], kids(e)[1], at)]
        if k == "UnaryOperator" and e.get("opcode") == "*":
            return [(kids(e)[0], None, at)]
        v = _ref_name(e)
        if v is not None and v in fm.locals and v not in fm.addr and v not in fm.dups and "[" not in qt_of(fm.locals[v]):
            defs = fm.reaching_defs(v, at)
            out = []
            for d in defs:
                if d == "undef" or d.how not in ("init", "assign") or d.val is None:
                    raise AnalysisError("%s(): `%s`, formatted into the allocation, is not a plain copy of a value on every path" % (self.fn, v))
                self.chain.append((d.node, at))
                out += self.of(d.val, d.node, depth + 1)
            return out
        raise AnalysisError("%s(): origin of `%s`, formatted into the allocation, cannot be followed" % (self.fn, ctext(e)[:40]))


def comparator_fold(tu, name):
    """The comparator `name` run (concrete interpreter of C20.R8) on pairs of ARFCNs (x, y) with x in front of y in the
    order of TS 44.018 10.5.2.21 (ascending, ARFCN 0 last).  -> ("keeps", n) | ("swaps", x, y, result) | ("open", why)"""
    fd = tu.functions.get(name)
    if fd is None or not any(kind(x) == "CompoundStmt" for x in kids(fd)):
        return ("open", "comparator %s() has no definition in the unit" % name)
    try:
        prog = Conc(tu, fd)
    except CannotEval as u:
        return ("open", "comparator %s() cannot be interpreted: %s" % (name, u))
    except (TypeError, KeyError, IndexError, AttributeError, ValueError, RecursionError) as u:
        return ("open", "comparator %s() cannot be interpreted (%s)" % (name, str(u)[:60] or type(u).__name__))
    if len(prog.params) != 2:
        return ("open", "comparator %s() takes %d parameters" % (name, len(prog.params)))
    pairs = [(x, 0) for x in range(1, 1024)] + [(x, x + 1) for x in range(1, 1023)] + \
            [(x, y) for x in (1, 2, 124, 125, 511, 512, 974, 975) for y in (3, 126, 513, 976, 1023) if x < y]
    n = 0
    for (x, y) in pairs:
        res = []
        for (a, b) in ((x, y), (y, x)):
            st = State()
            st.loc = {prog.params[0]: Ptr(Buf("a", [a], (16, False)), 0), prog.params[1]: Ptr(Buf("b", [b], (16, False)), 0)}
            try:
                try:
                    prog.body(st)
                    return ("open", "comparator %s() ends without a value" % name)
                except _Ret as r:
                    res.append(r.v)
            except (Fault, CannotEval) as u:
                return ("open", "comparator %s(%d, %d): %s" % (name, a, b, u))
            except (_Brk, _Cnt, _Goto, TypeError, KeyError, IndexError, AttributeError, ValueError, OverflowError, RecursionError) as u:
                return ("open", "comparator %s(%d, %d) not modelled (%s)" % (name, a, b, type(u).__name__))
        if any(v is None or v is UNDEF or isinstance(v, Ptr) for v in res):
            return ("open", "comparator %s(%d, %d) yields no definite value" % (name, x, y))
        if res[0] > 0 and res[1] < 0:
            return ("swaps", x, y, res[0])
        if not (res[0] < 0 and res[1] > 0):
            return ("open", "comparator %s() does not order %d and %d strictly (%d / %d)" % (name, x, y, res[0], res[1]))
        n += 1
    return ("keeps", n)


def r15_order(L, tu=None):
    """C20.R15 -- downstream half of the clause "in the order defined by 3GPP TS 44.018 10.5.2.21 (ascending ARFCN with
    ARFCN 0 last)": the order of the decoded list is part of the result (the MAI indexes it), so the consumer that turns
    the list into the SETFH command must write its k-th (Rx, Tx) pair from the k-th entry of the list it was given.
    Dataflow on the statement CFG of trx_if_cmd_setfh(): every value formatted by the snprintf that appends a pair is
    followed backwards through its reaching definitions and conversions to the element read(s) it derives from; all of
    them must read one address `list + w` / `w` where the walker w (a local index or pointer) holds 0 / the start of the
    list member of the parameter at loop entry, is advanced by exactly one element per appended pair (one step in the
    loop; no second pair without a step: duplicate; no second step without a pair while the command is still sent:
    dropped entry) and is not stepped between a read and the snprintf.  When the elements are read from a local buffer
    instead, its contents are derived from its writers: a whole copy of the list (size = length x element size) is the
    list itself; a sort call on it is decided by running its comparator (interpreter of C20.R8) on all pairs (x, 0) and
    neighbours (x, x+1) in list order -- a comparator that puts 0 in front reorders every list with ARFCN 0 and another
    channel: violation with that list; one that keeps every pair leaves valid lists as they are.  Other writers of the
    buffer, walkers of another shape, or reads at different addresses are not classified (ANALYSIS-ERROR)."""
    R = "C20.R15"
    fn = "trx_if_cmd_setfh"
    tu = tu or trx_unit(L)
    fd = tu.func(fn)
    ps = tu.fparams(fd)
    if len(ps) != 2:
        raise AnalysisError("%s() signature changed" % fn)
    P = ps[1].get("name")
    LIST, MLEN = "%s->ma" % P, "%s->ma_len" % P
    fm = FM(tu, fd, extra_invariant={MLEN, LIST})
    if not fm.never_written(P) or any(ctext(kids(w.ast)[0]) in (LIST, MLEN) for w in fm.memwrites):
        raise AnalysisError("%s(): the parameter `%s` or its list members are written in the function" % (fn, P))
    emits = [n for (n, c) in fm.calls if ctext(kids(c)[0]) == "trx_ctrl_cmd"]
    sn = [(n, c) for (n, c) in fm.calls if ctext(kids(c)[0]) in PRINTF_SIZED and fm.enclosing_loops(n)]
    L.floor(R, "snprintf calls that append a pair of the allocation (inside the loop over it)", len(sn), 1)
    for (n, c) in sn:
        loops = fm.enclosing_loops(n)
        c0 = fm.g.by_ast.get(id(loops[0])) if len(loops) == 1 else None
        if c0 is None or c0.kind != "cond" or kind(loops[0]) == "DoStmt":
            raise AnalysisError("%s(): the loop around the snprintf has a shape that is not supported" % fn)
        region = fm.natural_loop(c0)
        og = _Origins(fm, fn)
        reads = [o for a in kids(c)[4:] for o in og.of(a, n)]
        if not reads:
            raise AnalysisError("%s(): no value formatted by the snprintf is read from a list" % fn)
        # ---- one address for all reads: an affine function of one walker
        forms = set()
        for (b, i, at) in reads:
            t = fm.lower(b) if i is None else X.add(fm.lower(b), fm.lower(i))
            try:
                co, k = X.linear(t)
            except AnalysisError:
                co, k = None, None
            if co is None:
                raise AnalysisError("%s(): element address `%s` is not linear" % (fn, X.show(t)[:50]))
            forms.add((tuple(sorted((v, a) for (v, a) in co.items() if a)), k))
        if len(forms) != 1:
            raise AnalysisError("%s(): the values of one pair are read at different addresses (%s)" % (
                fn, "; ".join(sorted("%s%+d" % (" + ".join("%d*%s" % (a, v) for (v, a) in f[0]), f[1]) for f in forms))))
        (cof, k) = forms.pop()
        cof = dict(cof)
        names = sorted(cof)
        wk = [v for v in names if v in fm.locals and "[" not in qt_of(fm.locals[v]) and
              any(x.node.id in region for x in fm.writes.get(v, []))]
        if len(wk) != 1 or wk[0] in fm.addr or wk[0] in fm.dups:
            raise AnalysisError("%s(): element address `%s` is not walked by one local of the loop" % (fn, " + ".join(names)))
        w = wk[0]
        steps = [x for x in fm.writes.get(w, []) if x.node.id in region]
        dlt = None
        if len(steps) == 1:
            st0 = steps[0]
            if st0.how == "inc":
                dlt = st0.delta
            elif st0.how in ("aug+=", "aug-=") and fm.tu.fold(st0.val) is not None:
                dlt = fm.tu.fold(st0.val) * (1 if st0.how == "aug+=" else -1)
            elif st0.how == "assign" and st0.val is not None:
                dd = X.sub(fm.lower(st0.val), X.V(w))
                dlt = dd[1] if X.is_c(dd) else None
        if dlt not in (1, -1):
            raise AnalysisError("%s(): walker `%s` of the allocation is not advanced by one single step of one entry in the loop" % (fn, w))
        step = steps[0].node
        e0 = entry_term(fm, X.V(w), c0, region)
        if free_vars(e0) & set(fm.locals) - set(fm.LW.env):
            raise AnalysisError("%s(): value of the walker `%s` at loop entry is not resolved (`%s`)" % (fn, w, X.show(e0)[:40]))
        # address of the element pair k is read from, k = 0, 1, ..: the address with w = e0 + dlt * k
        rest = X.add(*([X.mul(X.C(a), X.V(v)) for (v, a) in cof.items() if v != w] + [X.C(k)]))
        start = X.add(rest, X.mul(X.C(cof[w]), e0))
        try:
            sco, sk = X.linear(start)
        except AnalysisError:
            sco, sk = None, None
        if sco is None:
            raise AnalysisError("%s(): address of the first entry read (`%s`) is not linear" % (fn, X.show(start)[:50]))
        sco = {v: a for (v, a) in sco.items() if a}
        per_k, per_n = cof[w] * dlt, sco.pop(MLEN, 0)
        # ---- the buffer the elements are read from
        how = "the list `%s` of the parameter" % LIST
        srcs = [v for v in sco if sco[v]]
        bad = None
        if len(srcs) == 1 and srcs[0] in fm.locals and "[" in qt_of(fm.locals[srcs[0]]) and sco[srcs[0]] == 1:
            buf = srcs[0]
            verdict = buffer_contents(L, fm, tu, fn, buf, c0, LIST, MLEN)
            if verdict[0] == "swaps":
                bad = "`%s` is sorted by %s() before the pairs are written: %s(%d, %d) = %d puts ARFCN 0 in front, the list {%d, 0} " \
                      "(order of TS 44.018: 0 last) is sent as {0, %d} and every MAI selects another channel than in the BTS" % (
                          buf, verdict[4], verdict[4], verdict[1], verdict[2], verdict[3], verdict[1], verdict[1]) if verdict[2] == 0 else \
                      "`%s` is sorted by %s() before the pairs are written: the list {%d, %d} is sent as {%d, %d}" % (
                          buf, verdict[4], verdict[1], verdict[2], verdict[2], verdict[1])
            how = "local `%s`, %s" % (buf, verdict[-1] if verdict[0] != "swaps" else "sorted")
        elif srcs != [LIST] or sco[LIST] != 1:
            raise AnalysisError("%s(): the pairs are read from `%s`, which is not the list of the parameter" % (fn, X.show(start)[:50]))
        # pair k of a list of N entries is read from entry per_k * k + per_n * N + sk: folded for N = 1..4
        wit = [(kk, nn, per_k * kk + per_n * nn + sk) for nn in range(1, 5) for kk in range(nn) if per_k * kk + per_n * nn + sk != kk]
        # ---- exactly one step per pair
        dup = n.id in fm.reach_succ(n, skip=[step])
        early = step.id in fm.reach_succ(c0, skip=[n]) or step.id in fm.reach_succ(step, skip=[n])
        sent = early and any(e.id in fm.reach_succ(step) for e in emits)
        moved = [d for (d, use) in og.chain + [(at, n) for (_, _, at) in reads if at is not n]
                 if use.id in fm.reach_succ(step, skip=[d]) and d is not use and step.id in fm.reach_succ(d)]
        if early and not sent:
            raise AnalysisError("%s(): walker `%s` can be advanced without a pair being written, on paths that may not send the command" % (fn, w))
        if moved:
            raise AnalysisError("%s(): walker `%s` can be advanced between the read of an entry and the snprintf that formats it" % (fn, w))
        found = "pair k is read at `%s` with `%s` = %s at loop entry, one step of %+d per pair (%s)" % (
            " + ".join(("%d*" % cof[v] if cof[v] != 1 else "") + v for v in names) + ("%+d" % k if k else ""), w, X.show(e0), dlt, how)
        if bad is None and wit:
            bad = "pair %d of a list of %d entr%s is read from entry %d (address `%s`, `%s` = %s at loop entry, step %+d)" % (
                wit[0][0], wit[0][1], "y" if wit[0][1] == 1 else "ies", wit[0][2],
                " + ".join(("%d*" % cof[v] if cof[v] != 1 else "") + v for v in names) + ("%+d" % k if k else ""), w, X.show(e0), dlt)
        if bad is None and dup:
            bad = "a second pair can be written without advancing `%s`: an entry is sent twice" % w
        if bad is None and sent:
            bad = "`%s` can be advanced without a pair being written while the command is still sent: an entry is dropped" % w
        L.ob(R, F_TRX, fn, "the k-th Rx/Tx pair of the SETFH command is composed from the k-th entry of the list `%s` (order of the "
             "decoded hopping list kept: no reordering, no dropped or repeated entry)" % LIST,
             "pair k from entry k", found if bad is None else bad, bad is None, fm.line(c))


def buffer_contents(L, fm, tu, fn, buf, c0, LIST, MLEN):
    """what the local array `buf` holds when the loop with header c0 is entered, from its writers"""
    writers = []
    region = fm.natural_loop(c0)
    for (n, c) in fm.calls:
        uses = [x for a in kids(c)[1:] for x in walk(a) if kind(x) == "DeclRefExpr" and _ref_name(x) == buf]
        if not uses or all(kind(fm.parent(x) or {}) == "ArraySubscriptExpr" and
                           not (kind(fm.parent(fm.parent(x)) or {}) == "UnaryOperator" and fm.parent(fm.parent(x)).get("opcode") == "&")
                           for x in uses):
            continue            # the call is handed elements of the buffer by value
        if n.id in region or not fm.g.dominates(n, c0):
            raise AnalysisError("%s(): `%s` is handed to %s() inside / beside the loop that writes the pairs" % (fn, buf, ctext(kids(c)[0])[:30]))
        writers.append((n, c))
    for w in fm.memwrites:
        if fm.store_base(kids(w.ast)[0]) == buf:
            raise AnalysisError("%s(): `%s` is filled element by element (`%s`): not followed" % (fn, buf, stmt_text(w.ast)[:40]))
    writers.sort(key=lambda t: sum(1 for (m, _) in writers if fm.g.dominates(m, t[0])))
    if not writers or _callee(writers[0][1]) not in COPY_FNS:
        raise AnalysisError("%s(): the pairs are read from the local `%s`, whose contents are not a copy of the list" % (fn, buf))
    (n, c) = writers[0]
    args = kids(c)[1:]
    d, s = field_ptr(fm, args[0]), field_ptr(fm, args[1])
    es = int_type(tu, re.sub(r"\s*\[\d*\]$", "", qt_of(fm.locals[buf])))
    size_ok = es is not None and X.sub(fm.lower(args[2]), X.mul(X.V(MLEN), X.C(es[0] // 8))) == X.C(0)
    if d is None or s is None or _ref_name(d[0]) != buf or d[1] != 0 or ctext(s[0]) != LIST or s[1] != 0 or not size_ok:
        raise AnalysisError("%s(): `%s` is not a whole copy of the list `%s` (%s)" % (fn, buf, LIST, stmt_text(c)[:60]))
    verdict = ("copy", "a whole copy of `%s`" % LIST)
    for (n, c) in writers[1:]:
        cal, args = _callee(c), kids(c)[1:]
        if cal not in SORT_FNS or len(args) != 4 or _ref_name(args[0]) != buf:
            raise AnalysisError("%s(): `%s` is handed to %s() after the copy: effect on the order of the entries unknown" % (fn, buf, cal))
        cmp_name = _ref_name(args[3])
        r = comparator_fold(tu, cmp_name) if cmp_name else ("open", "comparator `%s` is not a function name" % ctext(args[3])[:30])
        if r[0] == "open":
            raise AnalysisError("%s(): `%s` is sorted before the pairs are written; %s" % (fn, buf, r[1]))
        if r[0] == "swaps":
            return ("swaps", r[1], r[2], r[3], cmp_name)
        verdict = ("sorted", "a whole copy of `%s`, sorted by %s() which keeps the list order for all %d tested pairs" % (LIST, cmp_name, r[1]))
    return verdict


# ------------------------------------------------- downstream: carriage of the text

PRINTF_SIZED =("snprintf", "__builtin_snprintf")
VPRINTF_SIZED = ("vsnprintf", "__builtin_vsnprintf")
_CONV = re.compile(r"%([-+ #0]*)(\*|\d*)(?:\.(\*|\d*))?(hh|h|ll|l|z|j|t)?([diuxXocs%])")


def lit_text(lit):
    """characters of a C string literal as clang prints it (escapes decoded to one placeholder character each)"""
    if not isinstance(lit, str) or len(lit) < 2 or lit[0] != '"' or lit[-1] != '"':
        return None
    return re.sub(r"\\(x[0-9a-fA-F]+|[0-7]{1,3}|.)", "\1", lit[1:-1])


def digits(lo, hi, conv):
    """(min, max) number of characters of the integers lo..hi printed with conversion `conv` (no flags)"""
    def one(v):
        if conv in ("d", "i", "u"):
            return len(str(v))
        return len(("%x" if conv in "xX" else "%o") % v)
    cand = [lo, hi] + ([0] if lo <= 0 <= hi else []) + ([-1] if lo <= -1 <= hi else [])
    ns = [one(v) for v in cand]
    return min(ns), max(ns)


class CallEval(object):
    """Integer / truth values of expressions of a callee for one call site: parameters stand for the call's constant
    arguments, a local for its single reaching definition, the result of a [v]snprintf call for the length of the text it
    formats (or the value under test in `given`); conversions are applied at the cast nodes clang inserted.  None =
    not determined."""

    def __init__(self, fm, bind, strmax=None):
        self.fm, self.tu, self.bind = fm, fm.tu, bind       # bind: parameter name -> argument AST at the call site
        self.given = {}                                     # id(CallExpr) -> value under test
        self.strmax = strmax or (lambda e: None)
        self.tainted = False

    def sval(self, e):
        e = strip(e, casts=True)
        if kind(e) == "StringLiteral":
            return lit_text(e.get("value"))
        if kind(e) == "DeclRefExpr":
            nm = e.get("referencedDecl", {}).get("name")
            if e.get("referencedDecl", {}).get("kind") == "ParmVarDecl" and nm in self.bind and self.fm.never_written(nm):
                b = strip(self.bind[nm], casts=True)
                return lit_text(b.get("value")) if kind(b) == "StringLiteral" else None
        return None

    def _wrap(self, v, node):
        it = int_type(self.tu, node.get("type", {}))
        if v is None or it is None:
            return v
        bits, signed = it
        v &= (1 << bits) - 1
        return v - (1 << bits) if signed and v >> (bits - 1) else v

    def depends(self, e, node):
        """does the expression (read at CFG node `node`) depend on a call whose result is under test?"""
        for x in walk(e):
            if kind(x) == "CallExpr" and id(x) in self.given:
                return True
            if kind(x) == "DeclRefExpr" and x.get("referencedDecl", {}).get("name") in self.fm.locals:
                for d in self.fm.reaching_defs(x["referencedDecl"]["name"], node):
                    if d != "undef" and d.val is not None and d.node is not node and \
                            any(kind(y) == "CallExpr" and id(y) in self.given for y in walk(d.val)):
                        return True
        return False

    def ival(self, e, node, depth=0):
        if e is None or depth > 12:
            return None
        k = kind(e)
        ks = kids(e)
        if k in ("ParenExpr", "ConstantExpr"):
            return self.ival(ks[0], node, depth)
        if k == "ImplicitCastExpr":
            v = self.ival(ks[0], node, depth)
            return self._wrap(v, e) if e.get("castKind") == "IntegralCast" else v
        if k == "CStyleCastExpr":
            return self._wrap(self.ival(ks[0], node, depth), e)
        if k == "CallExpr":
            if id(e) in self.given:
                return self.given[id(e)]
            if ctext(ks[0]) in PRINTF_SIZED and len(ks) >= 4:
                size = self.ival(ks[2], node, depth + 1)
                b = self.fmt_bounds(ks[3], ks[4:], node)
                if b is None or b[0] != b[1] or size is None or b[0] >= size:
                    return None             # length unknown, or the text is truncated: what follows is not modelled
                return b[0]
            return None
        v = self.tu.fold(e)
        if v is not None:
            return v
        if k == "DeclRefExpr":
            rd = e.get("referencedDecl", {})
            nm = rd.get("name")
            if rd.get("kind") == "ParmVarDecl":
                if nm in self.bind and self.fm.never_written(nm):
                    return self.tu.fold(self.bind[nm])
                return None
            if nm in self.fm.locals and nm not in self.fm.addr and nm not in self.fm.dups:
                defs = self.fm.reaching_defs(nm, node)
                if len(defs) == 1 and defs[0] != "undef" and defs[0].how in ("init", "assign") and defs[0].node is not node:
                    return self._wrap(self.ival(defs[0].val, defs[0].node, depth + 1), self.fm.locals[nm])
            return None
        if k == "UnaryOperator":
            v = self.ival(ks[0], node, depth)
            if v is None:
                return None
            r = {"-": -v, "+": v, "~": ~v, "!": int(not v)}.get(e.get("opcode"))
            return self._wrap(r, e) if r is not None else None
        if k == "BinaryOperator":
            op = e.get("opcode")
            if op in ("&&", "||"):
                t = self.tval(e, node, depth)
                return None if t is None else int(t)
            a, b = self.ival(ks[0], node, depth), self.ival(ks[1], node, depth)
            if a is None or b is None:
                return None
            try:
                r = {"+": lambda: a + b, "-": lambda: a - b, "*": lambda: a * b,
                     "/": lambda: int(a / b) if b else None, "%": lambda: a - b * int(a / b) if b else None,
                     "<<": lambda: a << b if 0 <= b < 64 else None, ">>": lambda: a >> b if 0 <= b < 64 else None,
                     "&": lambda: a & b, "|": lambda: a | b, "^": lambda: a ^ b,
                     "<": lambda: int(a < b), ">": lambda: int(a > b), "<=": lambda: int(a <= b), ">=": lambda: int(a >= b),
                     "==": lambda: int(a == b), "!=": lambda: int(a != b)}[op]()
            except KeyError:
                return None
            return self._wrap(r, e) if r is not None else None
        return None

    def tval(self, e, node, depth=0):
        """True / False / None (three-valued: `a || b` is true as soon as one side is)"""
        x = strip(e)
        if kind(x) == "UnaryOperator" and x.get("opcode") == "!":
            t = self.tval(kids(x)[0], node, depth)
            return None if t is None else not t
        if kind(x) == "BinaryOperator" and x.get("opcode") in ("&&", "||"):
            a, b = self.tval(kids(x)[0], node, depth), self.tval(kids(x)[1], node, depth)
            if x.get("opcode") == "&&":
                return False if a is False or b is False else (True if a and b else None)
            return True if a or b else (False if a is False and b is False else None)
        v = self.ival(e, node, depth)
        return None if v is None else bool(v)

    def fmt_bounds(self, fmt, args, node):
        """(min, max) number of characters the format `fmt` produces for the argument expressions `args`"""
        f = self.sval(fmt)
        if f is None:
            return None
        args = list(args)
        lo = hi = 0
        i = 0
        while i < len(f):
            if f[i] != "%":
                lo, hi, i = lo + 1, hi + 1, i + 1
                continue
            m = _CONV.match(f, i)
            if not m or m.group(2) == "*" or m.group(3) == "*":
                return None
            i = m.end()
            conv = m.group(5)
            if conv == "%":
                lo, hi = lo + 1, hi + 1
                continue
            if not args:
                return None
            a = args.pop(0)
            if conv == "s":
                sv = self.sval(a)
                if sv is not None:
                    n0 = n1 = len(sv)
                else:
                    n1 = self.strmax(a)
                    if n1 is None:
                        return None
                    n0 = 0
                if m.group(3) not in (None, ""):
                    n0, n1 = min(n0, int(m.group(3))), min(n1, int(m.group(3)))
            elif conv == "c":
                n0 = n1 = 1
            else:
                if m.group(1).strip("-0") or m.group(3) not in (None, ""):
                    return None             # sign / alternate-form flags, precision: not modelled
                v = self.ival(a, node)
                x = strip(a)                # the default argument promotions preserve the value
                it = int_type(self.tu, x.get("type", {}))
                if v is not None:
                    rng = (v, v)
                elif it is None or it[0] > 32 and m.group(4) not in ("l", "ll", "z", "j", "t"):
                    return None
                else:
                    rng = (-(1 << (it[0] - 1)), (1 << (it[0] - 1)) - 1) if it[1] else (0, (1 << it[0]) - 1)
                if conv in "uxXo" and rng[0] < 0:
                    w = max(32, it[0]) if it else 32
                    rng = (0, (1 << w) - 1)           # a negative value is printed modulo 2^w
                n0, n1 = digits(rng[0], rng[1], conv)
            w = int(m.group(2)) if m.group(2) else 0
            lo, hi = lo + max(n0, w), hi + max(n1, w)
        return (lo, hi)


def r10_carriage(L, tu, facts):
    """C20.R10 -- downstream half of "the decoded hopping list contains exactly the cell-allocation channels whose bit is
    set ... never a channel outside the cell allocation", at the consumer that turns the list into the SETFH command:
    the command that is queued carries every (Rx, Tx) pair of the Mobile Allocation text intact, or the request is
    refused.  The text composed in trx_if_cmd_setfh is handed to a formatting function (trx_ctrl_cmd) whose
    vsnprintf() cuts whatever does not fit the size passed to it -- a cut frequency is another channel.  For the
    constants of this call site (verb and format literals, types of the arguments, extent of the text buffer) the rule
    folds  S = the size argument actually passed (locals through their reaching definitions, `len` = length of the
    formatted prefix)  and  M = the longest parameter text (digits by argument type; the text buffer by the bound
    C20.R5 proves for it: initial room + offset of the terminator), and demands
      (a) M < S: nothing this caller can compose is cut, or
      (b) every truncating result is refused: for each value rc in S..M of the vsnprintf result (C99: rc >= size means
          truncated) the conditions behind the call are evaluated (three-valued, conversions at clang's cast nodes)
          and every return that can be reached yields a negative constant.
    With neither, the value rc for which a non-negative return is reached is the counterexample (`rc > size` lets
    rc == size pass: one character cut).  Values the rule cannot determine end the analysis."""
    R = "C20.R10"
    fn = "trx_if_cmd_setfh"
    fd = tu.func(fn)
    L.fn(F_TRX, fn)
    fm = FM(tu, fd, dup_ok=True)

    def text_buffer(e):
        x = strip(e, casts=True)
        if kind(x) == "DeclRefExpr" and x.get("referencedDecl", {}).get("name") in fm.locals:
            qt = fm.locals[x["referencedDecl"]["name"]].get("type", {}).get("qualType", "")
            m = re.fullmatch(r"(?:const\s+)?(?:char|unsigned char|uint8_t)\s*\[(\d+)\]", qt.strip())
            if m:
                return x["referencedDecl"]["name"], int(m.group(1))
        return None

    emits = [(n, c) for (n, c) in fm.calls if any(text_buffer(a) for a in kids(c)[1:]) and
             ctext(kids(c)[0]) not in PRINTF_SIZED and ctext(kids(c)[0]) in tu.functions]
    L.floor(R, "calls that hand the composed allocation text on (trx_ctrl_cmd)", len(emits), 1)
    nfmt = 0
    for (n, c) in emits:
        callee = ctext(kids(c)[0])
        fd2 = tu.functions.get(callee)
        if fd2 is None or not any(kind(x) == "CompoundStmt" for x in kids(fd2)):
            raise AnalysisError("%s(): the allocation text is handed to %s(), which has no definition in trx_if.c" % (fn, callee))
        L.fn(F_TRX, callee)
        fm2 = FM(tu, fd2, dup_ok=True)
        args = kids(c)[1:]
        if not fd2.get("variadic") or len(args) < len(fm2.params):
            raise AnalysisError("%s(): %s() does not take the text as a variadic argument (unclassifiable)" % (fn, callee))
        bind = dict(zip(fm2.params, args))
        var = args[len(fm2.params):]
        loose = {}

        def strmax(e, loose=loose):
            tb = text_buffer(e)
            if tb is None:
                return None
            tight = facts.get("strmax", {}).get(tb[0])
            if tight is None:
                loose[tb[0]] = tb[1] - 1
            return tb[1] - 1 if tight is None else min(tight, tb[1] - 1)
        site = CallEval(fm, {}, strmax)               # the caller's view: types and buffers of the variadic arguments
        vs = [(n2, c2) for (n2, c2) in fm2.calls if ctext(kids(c2)[0]) in VPRINTF_SIZED]
        if not vs:
            raise AnalysisError("%s() does not format its variadic arguments with vsnprintf (unclassifiable)" % callee)
        for (n2, c2) in vs:
            a2 = kids(c2)[1:]
            if len(a2) != 4:
                raise AnalysisError("vsnprintf with %d arguments" % len(a2))
            pf = strip(a2[2], casts=True)
            pfn = pf.get("referencedDecl", {}).get("name") if kind(pf) == "DeclRefExpr" else None
            if pfn not in fm2.params or not fm2.never_written(pfn):
                raise AnalysisError("%s(): the format of vsnprintf is `%s`, not a parameter of the function" % (callee, ctext(a2[2])[:30]))
            if fm2.params.index(pfn) != len(fm2.params) - 1:
                raise AnalysisError("%s(): the format parameter `%s` is not the last named parameter" % (callee, pfn))
            nfmt += 1
            ce = CallEval(fm2, bind)
            S = ce.ival(a2[1], n2)
            if S is None or S < 1:
                raise AnalysisError("%s(): size argument `%s` of vsnprintf cannot be folded for the call in %s()" % (
                    callee, ctext(a2[1])[:50], fn))
            b = site.fmt_bounds(bind[pfn], var, n)
            if b is None:
                raise AnalysisError("%s(): the length of the text `%s` formats for the arguments of the call cannot be bounded" % (
                    fn, ctext(bind[pfn])[:30]))
            M = b[1]
            fits = M < S
            # (b) which truncating results get through
            passed, unknown, refused = None, False, 0
            if not fits:
                for v in range(S, M + 1):
                    ce.given = {id(c2): v}
                    acc, unk, ref = carriage_walk(ce, fm2, n2)
                    refused += ref
                    if unk:
                        unknown = True
                    if acc is not None and passed is None and not unk:
                        passed = (v, acc)           # no condition on the way depended on the result without being resolved
                ce.given = {}
            ok = fits or (passed is None and not unknown)
            if not ok and passed is None:
                raise AnalysisError("%s(): a condition behind vsnprintf that depends on its result cannot be evaluated, so whether a "
                                    "truncated `%s` command is refused is not decided" % (callee, ctext(bind[pfn])[:30]))
            if not ok and loose:
                raise AnalysisError("%s(): the length of the text in `%s` is only bounded by the extent of the array (C20.R5 did not "
                                    "establish the cursor bound), so the truncated command found for rc = %d may not be composable" % (
                                        fn, sorted(loose)[0], passed[0]))
            if fits:
                found = "longest text %d < size %d: nothing is cut" % (M, S)
            elif ok:
                found = "texts of up to %d characters meet size %d; every result %d..%d ends in a negative return" % (M, S, S, M)
            else:
                found = "texts of up to %d characters meet size %d (room for %d); the result rc = %d (%d character%s cut) reaches " \
                        "`%s`: the command is queued with its last frequency cut" % (
                            M, S, S - 1, passed[0], passed[0] - S + 1, "" if passed[0] == S else "s", passed[1])
            verbs = [lit_text(strip(bind[q], casts=True).get("value")) for q in fm2.params
                     if q != pfn and kind(strip(bind[q], casts=True)) == "StringLiteral"]
            L.ob(R, F_TRX, callee, "the `%s` command %s() composes for %s() carries the whole Mobile Allocation text: it always fits the "
                 "size passed to vsnprintf, or every truncating result (rc >= size) is refused" % (
                     " ".join(verbs + [lit_text(strip(bind[pfn], casts=True).get("value")) or "?"]), callee, fn),
                 "longest text < size, or rc >= size -> negative return", found, ok, fm2.line(c2))
    L.floor(R, "vsnprintf calls formatting the SETFH parameters", nfmt, 1)
    L.assume("C20.R10: vsnprintf returns the untruncated length and writes at most size - 1 characters (C99); every length up to the "
             "bound of the text buffer occurs for some Mobile Allocation (pairs of 14 and 16 characters, 1-3 digit HSN / MAIO); a "
             "negative return of the formatting function means the command is not sent")


def carriage_walk(ce, fm, start):
    """Follow the statement CFG from the call at `start` with the values of `ce`: a condition that evaluates is followed on
    its branch only.  -> (text of a reachable return that does not yield a negative constant | None,
    an unresolved condition / return value depended on the result, number of refusing returns reached)"""
    seen, work = set(), [s for (s, _) in start.succ]
    acc, unk, ref = None, False, 0
    if start.kind == "cond":
        t = ce.tval(start.cond, start)
        unk = t is None and ce.depends(start.cond, start)
        work = [s for (s, l) in start.succ if t is None or l == t]
    while work:
        x = work.pop()
        if x.id in seen:
            continue
        seen.add(x.id)
        if x is fm.g.exit:
            acc = acc or "end of function"
            continue
        if x.kind == "stmt" and x.ast is not None and kind(x.ast) == "ReturnStmt":
            rv = kids(x.ast)[0] if kids(x.ast) else None
            v = ce.ival(rv, x) if rv is not None else None
            if v is not None and v < 0:
                ref += 1
            elif v is None and rv is not None and ce.depends(rv, x):
                unk = True
            else:
                acc = acc or ("return %s" % (ctext(rv)[:30] if rv is not None else "")).strip()
            continue
        if x.kind == "cond" and getattr(x, "cond", None) is not None:
            t = ce.tval(x.cond, x)
            if t is None and ce.depends(x.cond, x):
                unk = True
            work += [s for (s, l) in x.succ if t is None or l == t]
        else:
            work += [s for (s, _) in x.succ]
    return acc, unk, ref


class ProofOnly(object):
    """Ledger view for the rule groups of a decoder with a bitmap-derived bound.  The rules then quantify over
    (length, derived value) pairs without knowing which of them reach which statement, so an obligation that fails
    there may rest on a combination no bitmap produces: it is a proof attempt that did not close, not a
    counterexample.  It is kept back like a "cannot classify" (the witness fold decides); what is proven is recorded."""

    def __init__(self, L, pending):
        self._L, self._pending = L, pending

    def __getattr__(self, name):
        return getattr(self._L, name)

    def ob(self, rule, file, func, key, required, found, ok, line=None, note=None):
        if ok:
            return self._L.ob(rule, file, func, key, required, found, ok, line, note)
        self._pending.append("[%s] not proven for a decoder with a bitmap-derived bound: %s (expected %s, found %s)" % (
            rule, str(key)[:160], str(required)[:60], str(found)[:160]))
        return None

    def require(self, rule, file, func, key, required, found, line=None, note=None):
        return self.ob(rule, file, func, key, required, found, found == required, line, note)


def soft(pending, fn):
    """rule group of the decoder whose "cannot classify" is kept back: whether it ends the run as ANALYSIS-ERROR is decided
    once the decoder was folded on the boundary witnesses (decide)"""
    def run_group(*a, **kw):
        try:
            return fn(*a, **kw)
        except AnalysisError as e:
            pending.append(str(e))
            return STAGE_FAILED
    return run_group


def decide(L, sl, pending, tier):
    """The verdict on the decoder.  The structural rules C20.R1-R4/R7 decide it for every input when they recognise its
    shape; their violations stand as they are.  The witness fold C20.R8 (a) confirms with concrete counterexamples,
    (b) catches what a recognised shape still hides, and (c) when a structural rule met a shape it cannot classify --
    and nothing else is wrong -- decides in its place: agreement with the reference decoding on every witness ends the
    run silently, with the structural proof recorded as open; an undecided fold leaves the ANALYSIS-ERROR."""
    fm, K = sl
    verdict, why = r8_fold(L, fm, K, tier)
    pending = [x for k, x in enumerate(pending) if x not in pending[:k]]
    if not pending:
        return
    if verdict == "undecided":
        raise AnalysisError("; ".join(pending + ["the decoder could not be folded on witnesses either (%s)" % why]))
    # the shape is not recognised, the witnesses are decided (a difference is a violation of C20.R8 by now)

    def again():
        raise AnalysisError(pending[0])
    L.structural("C20.R1-R4 guard atoms, counted loops and index folds of gsm48_decode_mobile_alloc (for every length, bitmap and "
                 "cell allocation)", again)
    L.extra["c20_structural_open"] = pending[:5]


def run(L, tier):
    L.stage(r6_readable, L, tier)       # callers: bitmap octets exist (own slices, independent of the decoder's)
    L.stage(r9_ready, L, tier)          # callers: the decoder is run once cell allocation and bitmap are both present
    facts = {}
    tuT = L.stage(trx_unit, L)
    L.stage(r5_setfh, L, tuT, facts)    # downstream consumer: the text of the allocation is composed inside its buffer
    L.stage(r10_carriage, L, tuT, facts)    # ... and reaches the command untruncated (uses the bound R5 proved, if any)
    L.stage(r15_order, L, tuT)          # ... with pair k composed from entry k of the list (order of the decoded list kept)
    sl = L.stage(build_slice, L)
    L.stage(lambda x: r2_callers(L, x[1], tier), sl)        # caller buffers (lexer; independent of the decoder's shape)
    pending = list(sl[1]["refused"]) if sl is not STAGE_FAILED else []
    D = L.stage(soft(pending, lambda x: Dec(L, x[0], x[1])), sl)
    LD = L
    if D is not STAGE_FAILED:
        D.pending = pending
        if any(len({tuple(sorted(dv.items())) for (_, dv) in rows}) > 1 for rows in D.fm.dcases.values()):
            LD = ProofOnly(L, pending)      # a bound that varies with the bitmap (not just a local that is a function of the length)
    L.stage(soft(pending, r1_gate), L, D)
    L.stage(soft(pending, r2_output), LD, D)
    L.stage(soft(pending, r3_scratch), LD, D)
    L.stage(soft(pending, r4_order), LD, D)
    L.stage(decide, L, sl, pending, tier)
    L.stage(r11_lv_copies, L, tier)     # callers: the LV buffer the decoder reads holds the whole received bitmap
    L.stage(r12_result, L, sl, tier)    # callers: tests of the return value fit the results folded by C20.R8
    L.stage(r13_pairing, L, tier)       # callers: the list handed to L1 was rendered from the description handed along
    L.stage(r14_received, L, tier)      # callers: the bitmap received for a description is the one rendered from it
    L.stage(r16_band, L, tier)          # callers: the band conversion behind the decoder keeps every entry a cell-allocation channel
    L.stage(r17_own_allocation, L, tier)    # callers: a Cell Channel Description of the message is decoded into the table the decoder reads
    L.stage(r18_fresh_allocation, L, sl, tier)  # ... and that table holds nothing but the channels of this description
