# C17 -- TRXD PDU definitions (v0, v1, v2) have the documented structure.
#
# The definitions in trxd_proto.py are class-level tuples of constructor calls
# with literal arguments, i.e. data.  They are evaluated by the framework's
# constant folder (consteval.Ev) extended with a *model* of the codec building
# blocks whose laws C16 decides on codec.py (Field/BitFieldSet/BitField/
# Envelope/Sequence constructors); constructors defined in trxd_proto.py itself
# (Header, BurstBits, PDUv0Rx) are interpreted from their source.  The result
# is a layout descriptor per PDU, compared with /verif/spec/trxd.json and with
# the writer layout extracted from data_msg.py.  Callbacks (lambdas) are folded
# over their finite declared domains (4-bit mod, 1-bit nope, the four v0 Rx
# remaining lengths).  Nothing of the repository is imported or executed.

import ast
import json
import os
import struct

from report import AnalysisError, VERIF
from pyfront import Repo, canon, qualname
from pyutil import params, rel
from consteval import Ev, Unknown, Raised, ClassRef, EnumMember, _FALL
from symfwd import Fwd
import exprnf as X

EXPLANATION = (
    "The PDU definitions are data: class-level tuples of constructor calls with "
    "literal arguments. They are folded (consteval + a model of the codec "
    "constructors whose laws C16 decides; Header/BurstBits/PDUv0Rx constructors "
    "interpreted from source incl. the ver/batched branches and PDUv1Tx's slice of "
    "PDUv0Tx.STRUCT) into layout descriptors: octet offsets, widths, byte order, "
    "sign, multiplier, bit-field positions, fixed values, spares, length/presence "
    "callbacks, sequence items. R1 compares them with spec/trxd.json for the 8 "
    "envelopes; R2 tabulates MTS.get_burst_len over all 16 codes of the 4-bit mod "
    "field against the modulation table and data_msg.Modulation with its TSC-set "
    "variants, and folds BurstBits' presence over nope in {0,1}; R3 folds the v0 Rx "
    "length callback over every remaining length the message codec can produce; R4 "
    "compares with the writer layout extracted from data_msg.gen_msg/append_hdr_to/"
    "gen_mts; R5 checks the batching structure.")
ASSUMPTIONS = [
    "the codec building blocks behave as modelled (C16 decides those laws on codec.py)",
    "spec/trxd.json transcribes the TRXD layouts; field names of the definitions are compared modulo the alias cir -> ci",
    "value-level round trip of each definition is not decided (C16's laws + R1..R5 are its premises)",
]

FP = rel("trxd_proto")
FD = rel("data_msg")
ALIAS = {"cir": "ci"}


# ------------------------------------------------------------ model values

class Obj:
    def __init__(self, ci):
        self.ci = ci
        self.attrs = {}

    def __repr__(self):
        return "<%s %s>" % (self.ci.name, self.attrs.get("name", ""))


class Lam:
    def __init__(self, node, mod, env):
        self.node, self.mod, self.env = node, mod, env

    def __repr__(self):
        return "<lambda %s>" % canon(self.node)[:60]


_NO = object()


class World:
    """Model of the codec constructors + interpreter of constructors defined
    outside codec.py."""

    def __init__(self, repo):
        self.repo = repo
        self.cache = {}
        self.codec = repo.mod("codec") if repo.has_mod("codec") else None
        if self.codec is None:
            raise AnalysisError("anchor module codec.py vanished")

    def qn(self, ci):
        return qualname(ci.node)

    def is_codec(self, ci):
        return ci.mod.name == "codec"

    def codec_kinds(self, ci):
        return [self.qn(c) for c in self.repo.mro(ci) if self.is_codec(c)]

    def class_attr(self, ci, attr):
        c, v = self.repo.find_attr(ci, attr)
        if v is None:
            raise Unknown("class attr %s.%s" % (ci.name, attr))
        key = (id(c.node), attr)
        if key not in self.cache:
            self.cache[key] = PEv(self.repo, c.mod, self_cls=c, W=self).ev(v)
        return self.cache[key]

    def obj_attr(self, obj, attr):
        if attr in obj.attrs:
            return obj.attrs[attr]
        return self.class_attr(obj.ci, attr)

    # -- construction ------------------------------------------------------
    def construct(self, ci, args, kw):
        obj = Obj(ci)
        self.init_as(obj, ci, list(args), dict(kw))
        return obj

    def init_as(self, obj, ci, args, kw):
        c, init = self.repo.find_method(ci, "__init__")
        if init is None:
            if args or kw:
                raise AnalysisError("%s() takes no arguments" % ci.name)
            return
        if self.is_codec(c):
            return self.model_init(obj, self.qn(c), args, kw)
        return self.interpret(obj, c, init, args, kw)

    def interpret(self, obj, c, init, args, kw):
        names = [a.arg for a in init.args.args]
        env = {names[0]: obj}
        pos = names[1:]
        extra = []
        for i, a in enumerate(args):
            if i < len(pos):
                env[pos[i]] = a
            else:
                extra.append(a)
        kwx = {}
        for k, v in kw.items():
            if k in pos:
                if k in env:
                    raise AnalysisError("%s.__init__: duplicate argument %s" % (c.name, k))
                env[k] = v
            else:
                kwx[k] = v
        defaults = init.args.defaults
        for p, d in zip(pos[len(pos) - len(defaults):], defaults):
            if p not in env:
                env[p] = Ev(self.repo, c.mod).ev(d)
        for p in pos:
            if p not in env:
                raise AnalysisError("%s.__init__: missing argument %s" % (c.name, p))
        if init.args.vararg is not None:
            env[init.args.vararg.arg] = tuple(extra)
        elif extra:
            raise AnalysisError("%s.__init__: too many arguments" % c.name)
        if init.args.kwarg is not None:
            env[init.args.kwarg.arg] = kwx
        elif kwx:
            raise AnalysisError("%s.__init__: unexpected keyword %s" % (c.name, sorted(kwx)))
        sub = PEv(self.repo, c.mod, env, W=self)
        try:
            sub.run_block(init.body)
        except Unknown as e:
            raise AnalysisError("%s.__init__: construct outside the vocabulary: %s" % (c.name, e))
        except Raised as e:
            raise AnalysisError("%s.__init__ raises %s" % (c.name, e.cls))

    def model_init(self, obj, qn, args, kw):
        if qn == "BitField":
            a = dict(zip(["name", "bl"], args))
            a.update(kw)
            if "name" not in a or "bl" not in a or len(args) > 2:
                raise AnalysisError("BitField(): bad arguments")
            if not isinstance(a["bl"], int) or a["bl"] < 1:
                raise AnalysisError("definition rejected: BitField length %r (ProtocolError)" % (a["bl"],))
            obj.attrs.update(name=a["name"], bl=a["bl"], val=a.get("val"), spare=False)
            return
        if qn == "BitField.Spare":
            a = dict(zip(["bl"], args))
            a.update(kw)
            if set(a) != {"bl"} or not isinstance(a["bl"], int):
                raise AnalysisError("BitField.Spare(): bad arguments")
            obj.attrs.update(name=None, bl=a["bl"], val=None, spare=True)
            return
        if qn == "Field":
            if len(args) != 1:
                raise AnalysisError("%s(): expected exactly the field name" % obj.ci.name)
            return self.field_init(obj, args[0], kw)
        if qn == "BitFieldSet":
            if args:
                raise AnalysisError("BitFieldSet(): positional arguments")
            return self.bitfieldset_init(obj, kw)
        if qn == "Envelope":
            a = dict(zip(["check_len"], args))
            a.update(kw)
            if len(args) > 1 or set(a) - {"check_len"}:
                raise AnalysisError("Envelope(): bad arguments")
            obj.attrs.update(c={}, check_len=a.get("check_len", True))
            return
        if qn == "Sequence":
            if args:
                raise AnalysisError("Sequence(): positional arguments")
            item = kw.get("item", _NO)
            if item is _NO:
                item = self.class_attr(obj.ci, "ITEM")
            if not isinstance(item, Obj):
                raise AnalysisError("definition rejected: Sequence without item (ProtocolError)")
            obj.attrs["_item"] = item
            item.attrs["check_len"] = False        # C16.R3: Sequence.__init__ switches the item's tail check off
            return
        if qn in ("Envelope.F", "Sequence.F"):
            if len(args) != 2:
                raise AnalysisError("%s(): expected (wrapped, name)" % qn)
            self.field_init(obj, args[1], kw)
            obj.attrs["inner"] = args[0]
            return
        raise AnalysisError("codec class %s has no model" % qn)

    def field_init(self, obj, name, kw):
        a = obj.attrs
        a["name"] = name
        a["len"] = kw.get("len", self.class_attr(obj.ci, "DEF_LEN"))
        if not isinstance(a["len"], int) or a["len"] < 0:
            raise AnalysisError("field %r: length %r" % (name, a["len"]))
        a["get_len"] = ("default", "rest") if a["len"] == 0 else ("default", "fixed")
        a["get_pres"] = ("default", True)
        a["get_val"] = ("default", "vals[name]")
        dp = self.class_attr(obj.ci, "DEF_PARAMS")
        a["p"] = {k: kw.get(k, dp[k]) for k in dp}
        a["kw_ignored"] = sorted(k for k in kw if k not in dp and k not in ("len", "set"))

    def bitfieldset_init(self, obj, kw):
        self.field_init(obj, obj.ci.name, kw)
        a = obj.attrs
        fields = kw.get("set", _NO)
        if fields is _NO:
            fields = self.class_attr(obj.ci, "STRUCT")
        if type(fields) is not tuple:
            raise AnalysisError("definition rejected: %s field set is not a tuple (ProtocolError)" % obj.ci.name)
        if a["p"].get("order") in ("little", "lsb"):
            fields = fields[::-1]
        for f in fields:
            if not (isinstance(f, Obj) and "bl" in f.attrs):
                raise AnalysisError("%s: field set element is not a BitField" % obj.ci.name)
        if a["len"] == 0:
            s = sum(f.attrs["bl"] for f in fields)
            a["len"] = -(-s // 8)
        a["get_len"] = ("default", "fixed")
        rem = a["len"] * 8
        layout = []
        for f in fields:
            bl = f.attrs["bl"]
            if bl > rem:
                raise AnalysisError("definition rejected: %s bit-field overflow (ProtocolError)" % obj.ci.name)
            off, mask = rem - bl, 2 ** bl - 1
            prev = f.attrs.get("offset")
            if prev is not None and prev != off:
                raise AnalysisError("BitField object %r shared between sets with different offsets" % (f.attrs["name"],))
            f.attrs["offset"], f.attrs["mask"] = off, mask
            layout.append(dict(name=f.attrs["name"], bl=bl, offset=off, val=f.attrs["val"], spare=f.attrs["spare"]))
            rem -= bl
        a["_fields"] = fields
        a["layout"] = layout

    def obj_method(self, obj, name, args, kw):
        c, m = self.repo.find_method(obj.ci, name)
        if m is not None and self.is_codec(c) and name == "f" and self.qn(c) in ("Envelope", "Sequence"):
            fci = c.inner.get("F")
            if fci is None:
                raise AnalysisError("codec.%s.F vanished" % c.name)
            return self.construct(fci, [obj] + list(args), kw)
        raise AnalysisError("method %s.%s has no model" % (obj.ci.name, name))

    def apply(self, lam, args):
        ps = [a.arg for a in lam.node.args.args]
        if len(ps) != len(args):
            raise AnalysisError("callback arity: %s" % canon(lam.node)[:60])
        env = {k: v for k, v in lam.env.items() if not isinstance(v, (Obj, Lam))}
        env.update(zip(ps, args))
        return Ev(self.repo, lam.mod, env).ev(lam.node.body)


class PEv(Ev):
    def __init__(self, repo, mod, env=None, self_cls=None, depth=0, W=None):
        Ev.__init__(self, repo, mod, env, self_cls, depth)
        self.W = W

    def ev_Name(self, n):
        if n.id in self.env:
            return self.env[n.id]
        if self.self_cls is not None and n.id in self.self_cls.inner:
            return ClassRef(self.self_cls.inner[n.id])
        if self.self_cls is not None and n.id in self.self_cls.attrs:
            return self.W.class_attr(self.self_cls, n.id)       # class-body scope
        return Ev.ev_Name(self, n)

    def class_attr(self, ci, attr):
        c, v = self.repo.find_attr(ci, attr)
        if v is not None:
            return self.W.class_attr(ci, attr)
        return Ev.class_attr(self, ci, attr)

    def ev_Attribute(self, n):
        if isinstance(n.value, ast.Name) and isinstance(self.env.get(n.value.id), Obj):
            return self.W.obj_attr(self.env[n.value.id], n.attr)
        return Ev.ev_Attribute(self, n)

    def ev_Lambda(self, n):
        return Lam(n, self.mod, dict(self.env))

    def evargs(self, n):
        args, kw = [], {}
        for a in n.args:
            if isinstance(a, ast.Starred):
                args.extend(self.ev(a.value))
            else:
                args.append(self.ev(a))
        for k in n.keywords:
            if k.arg is None:
                d = self.ev(k.value)
                if not isinstance(d, dict):
                    raise Unknown("**kw")
                kw.update(d)
            else:
                kw[k.arg] = self.ev(k.value)
        return args, kw

    def ev_Call(self, n):
        f = n.func
        if isinstance(f, ast.Attribute) and f.attr == "__init__":
            base = self.ev(f.value)
            if isinstance(base, ClassRef):
                args, kw = self.evargs(n)
                if not args or not isinstance(args[0], Obj):
                    raise Unknown("base __init__ without self")
                self.W.init_as(args[0], base.ci, args[1:], kw)
                return None
        if isinstance(f, ast.Attribute):
            try:
                recv = self.ev(f.value)
            except Unknown:
                recv = _NO
            if isinstance(recv, Obj):
                args, kw = self.evargs(n)
                return self.W.obj_method(recv, f.attr, args, kw)
            if isinstance(recv, list) and f.attr == "append" and len(n.args) == 1 and not n.keywords:
                recv.append(self.ev(n.args[0]))
                return None
            if recv is not _NO and not isinstance(recv, ClassRef):
                raise Unknown("method call on a value: %s" % canon(n)[:60])
        try:
            fv = self.ev(f)
        except Unknown:
            fv = None
        if isinstance(fv, ClassRef) and not self.is_enum(fv.ci):
            args, kw = self.evargs(n)
            return self.W.construct(fv.ci, args, kw)
        return Ev.ev_Call(self, n)

    def run_stmt(self, st):
        if isinstance(st, ast.Assign) and len(st.targets) == 1 and isinstance(st.targets[0], ast.Attribute):
            t = st.targets[0]
            tgt = self.ev(t.value)
            if isinstance(tgt, Obj):
                tgt.attrs[t.attr] = self.ev(st.value)
                return _FALL
        return Ev.run_stmt(self, st)


# ----------------------------------------------------------- descriptors

def int_kind(size, bo, sign):
    if size == 1:
        return "i8" if sign else "u8"
    return "%s_%s%d" % ("be" if bo == "big" else "le", "i" if sign else "u", size * 8)


def cb_kind(v):
    if isinstance(v, tuple) and v and v[0] == "default":
        return v[1]
    if isinstance(v, Lam):
        return "callback"
    return "?"


def describe(W, env_obj):
    """layout descriptor of an Envelope model object: list of entries"""
    try:
        struct_ = W.obj_attr(env_obj, "STRUCT")
    except Unknown as e:
        raise AnalysisError("%s.STRUCT does not fold: %s" % (env_obj.ci.name, e))
    if not isinstance(struct_, tuple):
        raise AnalysisError("%s.STRUCT is not a tuple" % env_obj.ci.name)
    out = []
    off = 0
    for f in struct_:
        if not isinstance(f, Obj):
            raise AnalysisError("%s.STRUCT element is not a field object: %r" % (env_obj.ci.name, f))
        kinds = W.codec_kinds(f.ci)
        a = f.attrs
        e = {"off": off, "obj": f}
        glen, gpres = cb_kind(a.get("get_len")), cb_kind(a.get("get_pres"))
        if "BitFieldSet" in kinds:
            e.update(kind="bits", size=a["len"], fields=[[x["name"] if not x["spare"] else None, x["bl"]] for x in a["layout"]],
                     fixed={x["name"]: x["val"] for x in a["layout"] if x["val"] is not None}, layout=a["layout"])
            used = sum(x["bl"] for x in a["layout"])
            if used != a["len"] * 8:
                e["unused_bits"] = a["len"] * 8 - used
        elif "Uint" in kinds:
            bo, sg = W.class_attr(f.ci, "BO"), W.class_attr(f.ci, "SIGN")
            e.update(kind=int_kind(a["len"], bo, sg), size=a["len"], name=a["name"])
            m, o = a["p"].get("mult"), a["p"].get("offset")
            e["neg"] = (m == -1 and o == 0)
            if (m, o) not in ((1, 0), (-1, 0)):
                e["transform"] = (m, o)
        elif "Spare" in kinds:
            e.update(kind="spare", size=a["len"], name=a["name"])
            if a["p"].get("filler") != b"\x00":
                e["filler"] = a["p"].get("filler")
        elif "Sequence.F" in kinds:
            e.update(kind="seq", name=a["name"], size=a["len"], item=a["inner"].attrs.get("_item"))
        elif "Envelope.F" in kinds:
            e.update(kind="env", name=a["name"], size=a["len"], item=a["inner"])
        elif "Buf" in kinds:
            e.update(kind="buf", name=a["name"], size=a["len"])
        else:
            raise AnalysisError("field class %s has no layout model" % f.ci.name)
        e["len"] = glen if e["kind"] in ("buf", "seq", "env") or glen != "fixed" else "fixed"
        e["pres"] = "always" if gpres is True else gpres
        if a.get("kw_ignored"):
            e["kw_ignored"] = a["kw_ignored"]
        out.append(e)
        if off is not None and e["len"] == "fixed" and e["pres"] == "always":
            off += e["size"]
        else:
            off = None
    return out


def brief(e):
    """comparable view of an entry"""
    k = e["kind"]
    d = {"off": e["off"], "kind": k}
    if k == "bits":
        d.update(size=e["size"], fields=e["fields"], fixed=e.get("fixed", {}))
        if e.get("unused_bits"):
            d["unused_bits"] = e["unused_bits"]
    elif k in ("buf", "seq", "env"):
        d.update(len=e["len"] if e["len"] != "fixed" else e["size"], pres=e["pres"])
        if k == "seq":
            d["name"] = e.get("name")
    else:
        d.update(size=e["size"])
        if k != "spare":
            d.update(name=ALIAS.get(e["name"], e["name"]), neg=bool(e.get("neg")))
        if e["len"] != "fixed" or e["pres"] != "always":
            d.update(len=e["len"], pres=e["pres"])
    for x in ("transform", "filler", "kw_ignored"):
        if e.get(x):
            d[x] = e[x]
    return d


# ------------------------------------------------------------------ spec

def load_spec():
    p = os.path.join(VERIF, "spec", "trxd.json")
    try:
        with open(p) as f:
            return json.load(f)
    except (OSError, ValueError) as e:
        raise AnalysisError("cannot read spec/trxd.json: %s" % e)


def spec_entry(s, off, fixed=None):
    k = s["kind"]
    d = {"off": off, "kind": k}
    if k == "bits":
        d.update(size=s["size"], fields=[list(x) for x in s["fields"]], fixed=fixed or {})
    elif k == "spare":
        d.update(size=s["size"])
    else:
        d.update(size=s["size"], name=ALIAS.get(s["name"], s["name"]), neg=bool(s.get("neg")))
    return d


def spec_burst(b, off):
    if b.get("legacy_pad"):
        out = [{"off": off, "kind": "buf", "len": "callback", "pres": "always"},
               {"off": None, "kind": "buf", "len": "rest", "pres": "always"}]
    elif b.get("lengths") == "by modulation":
        out = [{"off": off, "kind": "buf", "len": "callback", "pres": "callback" if b.get("absent_if") else "always"}]
    else:
        out = [{"off": off, "kind": "buf", "len": "rest", "pres": "always"}]
    return out


def spec_layout(spec, pdu):
    """expected entries for 'v0Rx', 'v1Tx', 'v2Rx', 'v2RxB' ..."""
    ver, d = int(pdu[1]), pdu[2:4]
    batched = pdu.endswith("B")
    out = []
    if ver in (0, 1):
        for s in spec["hdr_common"]:
            out.append(spec_entry(s, s["off"], {"ver": ver} if s["kind"] == "bits" else None))
        sec = spec[d][str(ver)]
        for s in sec["fields"]:
            out.append(spec_entry(s, s["off"]))
        out += spec_burst(sec["burst"], sec["burst"]["off"])
        return out
    v2 = spec["v2"]
    off = 0
    for s in (v2["hdr_batched"] if batched else v2["hdr_first"]):
        out.append(spec_entry(s, off, None if batched else {"ver": ver}))
        off += s["size"]
    for s in v2[d + "_after_hdr"]:
        out.append(spec_entry(s, off))
        off += s["size"]
    if not batched:
        out.append(spec_entry(v2["fn"], off))
        off += v2["fn"]["size"]
    out += spec_burst(v2["burst"], off)
    if not batched:
        out.append({"off": None, "kind": "seq", "len": "rest", "pres": "always", "name": "bpdu"})
    return out


# -------------------------------------------------- data_msg writer layout

class MsgLayout:
    """Sequence of items gen_msg() appends to the buffer for one message
    class / version / legacy flag, extracted by walking the statements in
    order (branches on the version folded, helper methods inlined)."""

    def __init__(self, repo, ci, ver, legacy):
        self.repo, self.ci, self.ver = repo, ci, ver
        self.ev = Ev(repo, ci.mod, env={"self.ver": ver, "legacy": legacy}, self_cls=ci)
        self.items = []
        c, gm = repo.find_method(ci, "gen_msg")
        if gm is None:
            raise AnalysisError("anchor %s.gen_msg vanished" % ci.name)
        self.walk(gm.body, None, {}, 0)

    def walk(self, stmts, buf, defs, depth):
        if depth > 4:
            raise AnalysisError("gen_msg: inlining too deep")
        for st in stmts:
            if isinstance(st, ast.Expr) and isinstance(st.value, ast.Constant):
                continue
            if isinstance(st, ast.Return):
                if st.value is None or (isinstance(st.value, ast.Name)):
                    return "ret"
                st = ast.Expr(value=st.value)
            if isinstance(st, ast.Expr) and isinstance(st.value, ast.Call):
                c = st.value
                fn = canon(c.func)
                if buf is not None and fn == buf + ".append" and len(c.args) == 1:
                    self.items.append(("octet", c.args[0], dict(defs)))
                elif buf is not None and fn == buf + ".extend" and len(c.args) == 1:
                    self.items.append(("burst", c.args[0], dict(defs)))
                elif fn.startswith("self.") and fn.count(".") == 1:
                    pos = [i for i, a in enumerate(c.args) if isinstance(a, ast.Name) and a.id == buf]
                    if not pos:
                        continue
                    oc, m = self.repo.find_method(self.ci, c.func.attr)
                    if m is None:
                        raise AnalysisError("gen_msg: callee %s unresolved" % fn)
                    r = self.walk(m.body, params(m)[1 + pos[0]], {}, depth + 1)
                elif buf is not None and any(isinstance(x, ast.Name) and x.id == buf for x in ast.walk(c)):
                    raise AnalysisError("gen_msg: buffer use outside the vocabulary: %s" % canon(c)[:60])
                continue
            if isinstance(st, ast.AugAssign) and isinstance(st.target, ast.Name) and st.target.id == buf and isinstance(st.op, ast.Add):
                v = st.value
                if isinstance(v, ast.Call) and canon(v.func) == "struct.pack" and len(v.args) == 2 and isinstance(v.args[0], ast.Constant):
                    self.items.append(("pack", v.args[0].value, v.args[1], dict(defs)))
                elif isinstance(v, ast.Call) and canon(v.func) in ("bytearray", "bytes") and len(v.args) == 1:
                    try:
                        n = self.ev.ev(v.args[0])
                    except (Unknown, Raised):
                        raise AnalysisError("gen_msg: padding size does not fold")
                    self.items.append(("pad", n))
                else:
                    raise AnalysisError("gen_msg: buffer append outside the vocabulary: %s" % canon(st)[:60])
                continue
            if isinstance(st, ast.Assign) and len(st.targets) == 1 and isinstance(st.targets[0], ast.Name):
                if isinstance(st.value, ast.Call) and canon(st.value.func) == "bytearray" and not st.value.args:
                    buf = st.targets[0].id
                else:
                    defs[st.targets[0].id] = st.value
                continue
            if isinstance(st, ast.If):
                try:
                    t = bool(self.ev.ev(st.test))
                except (Unknown, Raised):
                    if canon(st.test) in ("self.burst is not None", "not self.burst is None"):
                        t = True
                    else:
                        raise AnalysisError("gen_msg: branch does not fold: %s" % canon(st.test)[:60])
                if self.walk(st.body if t else st.orelse, buf, defs, depth) == "ret":
                    return "ret"
                continue
            raise AnalysisError("gen_msg: statement outside the vocabulary: %s" % canon(st)[:60])
        return None

    def entries(self):
        """[(off, size, kind, name, neg | bits)] + burst offset + pad"""
        out, off, burst, pad = [], 0, None, 0
        for it in self.items:
            if it[0] == "octet":
                e = it[1]
                if isinstance(e, ast.Name) and e.id in it[2]:
                    e = it[2][e.id]
                if isinstance(e, ast.Call) and canon(e.func) == "self.gen_mts":
                    out.append((off, 1, "mts", "mts", None))
                else:
                    t = X.PyLower().lower(e)
                    out.append((off, 1) + classify_octet(t))
                off += 1
            elif it[0] == "pack":
                fmt, e = it[1], it[2]
                kinds = {">L": "be_u32", ">I": "be_u32", ">h": "be_i16", ">H": "be_u16", ">l": "be_i32", ">i": "be_i32",
                         "<L": "le_u32", "<h": "le_i16", "<H": "le_u16", "b": "i8", "B": "u8"}
                if fmt not in kinds:
                    raise AnalysisError("gen_msg: struct format %r outside the vocabulary" % fmt)
                t = X.PyLower().lower(e)
                if t[0] != "v" or not t[1].startswith("self."):
                    raise AnalysisError("gen_msg: packed expression outside the vocabulary: %s" % canon(e)[:60])
                out.append((off, struct.calcsize(fmt), kinds[fmt], t[1][5:], False))
                off += struct.calcsize(fmt)
            elif it[0] == "burst":
                if burst is not None:
                    raise AnalysisError("gen_msg: two bursts")
                burst = off
                off = None
            elif it[0] == "pad":
                pad += it[1]
        return out, burst, pad


def classify_octet(t):
    if t[0] == "v" and t[1].startswith("self."):
        return ("u8", t[1][5:], False)
    if t[0] == "*" and len(t) == 3 and t[1] == X.C(-1) and t[2][0] == "v" and t[2][1].startswith("self."):
        return ("u8", t[2][1][5:], True)
    if t[0] == "|":
        return ("bits", None, bit_positions(t))
    raise AnalysisError("gen_msg: octet expression outside the vocabulary: %s" % X.show(t)[:60])


def bit_positions(t):
    """{field: (shift, width | None)} of an OR of shifted / masked attributes"""
    parts = t[1:] if t[0] == "|" else (t,)
    out = {}
    for p in parts:
        shift, width = 0, None
        if p[0] == "*" and len(p) == 3 and X.is_c(p[1]) and p[1][1] > 0 and p[1][1] & (p[1][1] - 1) == 0:
            shift = p[1][1].bit_length() - 1
            p = p[2]
        if p[0] == "mod" and X.is_c(p[2]) and p[2][1] & (p[2][1] - 1) == 0:
            width = p[2][1].bit_length() - 1
            p = p[1]
        if p[0] != "v" or not p[1].startswith("self."):
            raise AnalysisError("bit expression outside the vocabulary: %s" % X.show(p)[:60])
        out[p[1][5:]] = (shift, width)
    return out


# ======================================================================= rules

PDUS = [("v0Rx", "PDUv0Rx", None), ("v0Tx", "PDUv0Tx", None), ("v1Rx", "PDUv1Rx", None), ("v1Tx", "PDUv1Tx", None),
        ("v2Rx", "PDUv2Rx", None), ("v2Tx", "PDUv2Tx", None), ("v2RxB", "PDUv2Rx", "BPDU"), ("v2TxB", "PDUv2Tx", "BPDU")]


def build(L, repo):
    if not repo.has_mod("trxd_proto"):
        raise AnalysisError("anchor module trxd_proto.py vanished")
    tmod = repo.mod("trxd_proto")
    W = World(repo)
    out = {}
    for pid, cls, inner in PDUS:
        ci = tmod.classes.get(cls)
        if ci is None:
            raise AnalysisError("anchor class trxd_proto.%s vanished" % cls)
        if inner is None:
            try:
                obj = W.construct(ci, [], {})
            except (Unknown, Raised) as e:
                raise AnalysisError("%s() does not fold: %s" % (cls, e))
            out[pid] = (obj, describe(W, obj), cls)
        else:
            parent = out[pid[:-1]][1]
            seqs = [e for e in parent if e["kind"] == "seq"]
            if inner not in ci.inner:
                raise AnalysisError("anchor class trxd_proto.%s.%s vanished" % (cls, inner))
            if len(seqs) == 1 and isinstance(seqs[0]["item"], Obj) and seqs[0]["item"].ci is ci.inner[inner]:
                obj = seqs[0]["item"]          # the very instance the Sequence was built with
            else:
                obj = W.construct(ci.inner[inner], [], {})
            out[pid] = (obj, describe(W, obj), "%s.%s" % (cls, inner))
        L.fn(FP, out[pid][2])
    return W, out


def r1_structure(L, spec, W, pdus):
    R = "C17.R1"
    n = 0
    for pid, (obj, desc, cname) in pdus.items():
        want = spec_layout(spec, pid)
        got = [brief(e) for e in desc]
        line = obj.ci.node.lineno
        L.require(R, FP, cname, "%s: number of fields equals the documented layout" % cname, len(want), len(got), line=line)
        n += 1
        for i, w in enumerate(want):
            g = got[i] if i < len(got) else None
            if g is not None and w["kind"] in ("buf", "seq") and w["off"] is None:
                g = dict(g, off=None)          # position after a variable-length field: order is what counts
            if g is not None and w["kind"] == "buf":
                g = {k: v for k, v in g.items() if k != "name"}
            what = {"bits": "bit-field set %s" % w.get("fields"), "buf": "burst/padding octets (length: %s, presence: %s)" % (w.get("len"), w.get("pres")),
                    "seq": "sequence of batched sub-PDUs", "spare": "%d spare octet(s)" % w.get("size", 0)}.get(
                        w["kind"], "%s '%s'%s" % (w["kind"], w.get("name"), " (negated)" if w.get("neg") else ""))
            L.require(R, FP, cname, "%s field %d at octet %s: %s" % (cname, i, w["off"] if w["off"] is not None else "<after burst>", what),
                      w, g, line=line)
        for e in desc[len(want):]:
            L.ob(R, FP, cname, "%s: no field beyond the documented layout" % cname, "nothing", brief(e), False, line)
        # structural sanity: a field that swallows the rest may only be last
        for i, e in enumerate(desc[:-1]):
            if e["len"] == "rest":
                L.ob(R, FP, cname, "%s: only the last field may take all remaining octets" % cname, "last", "field %d (%s)" % (i, e.get("name")), False, line)
    L.floor(R, "envelopes", n, 8)


def burst_table(repo):
    tmod = repo.mod("trxd_proto")
    mts = tmod.classes.get("MTS")
    if mts is None or "get_burst_len" not in mts.methods:
        raise AnalysisError("anchor trxd_proto.MTS.get_burst_len vanished")
    m = mts.methods["get_burst_len"]
    ps = params(m)
    static = any(isinstance(d, ast.Name) and d.id == "staticmethod" for d in m.decorator_list)
    if not static or len(ps) != 1:
        raise AnalysisError("MTS.get_burst_len is not a one-argument static method")
    tab = {}
    for code in range(16):
        try:
            tab[code] = Ev(repo, tmod).call_func(m, tmod, [(ps[0], code)], self_cls=mts)
        except Raised as e:
            tab[code] = "raises %s" % e.cls
        except Unknown as e:
            raise AnalysisError("MTS.get_burst_len does not fold for mod=%d: %s" % (code, e))
    return mts, m, tab


def r2_burst_len(L, repo, spec, W, pdus):
    R = "C17.R2"
    mts_ci, m, tab = burst_table(repo)
    fn = "MTS.get_burst_len"
    L.fn(FP, fn)
    mods = spec["mts"]["modulations"]
    width = spec["mts"]["mod_width"]
    assigned = {}
    for name, d in mods.items():
        for s in range(1 << d["set_bits"]):
            code = d["coding"] | s
            if code in assigned:
                raise AnalysisError("spec/trxd.json: modulation code %d assigned twice" % code)
            assigned[code] = (name, s, d["burst_len"])
    lens = sorted({d["burst_len"] for d in mods.values()})
    n = 0
    for code in range(1 << width):
        n += 1
        b = format(code, "0%db" % width)
        if code in assigned:
            name, s, bl = assigned[code]
            L.require(R, FP, fn, "get_burst_len(mod=0b%s) [%s with TSC set %d, as the message codec encodes it] returns that modulation's burst length" % (b, name, s),
                      bl, tab[code], line=m.lineno)
        else:
            ok = tab[code] == "raises ValueError" or tab[code] in lens
            L.ob(R, FP, fn, "get_burst_len(mod=0b%s) [not assigned by the modulation table] raises ValueError or returns a documented burst length" % b,
                 "raises ValueError | one of %s" % lens, tab[code], ok, m.lineno)
    L.floor(R, "modulation codes", n, 16)
    # data_msg.Modulation agrees with the table
    dmod = repo.mod("data_msg")
    L.unit(FD)
    mci = dmod.classes.get("Modulation")
    if mci is None:
        raise AnalysisError("anchor data_msg.Modulation vanished")
    mem = {x.name: x for x in Ev(repo, dmod).enum_members(mci)}
    L.require(R, FD, "Modulation", "message codec's modulation names equal the reference table", sorted(mods), sorted(mem), line=mci.node.lineno)
    for name in sorted(set(mods) & set(mem)):
        x = mem[name]
        L.require(R, FD, "Modulation", "Modulation.%s (coding, burst length) equals the reference table" % name,
                  (mods[name]["coding"], mods[name]["burst_len"]), (x.attrs.get("coding"), x.attrs.get("bl")), line=mci.node.lineno)
    # BurstBits: length by mod, absent iff nope
    nb = 0
    for pid, (obj, desc, cname) in pdus.items():
        for i, e in enumerate(desc):
            a = e["obj"].attrs
            if e["kind"] != "buf" or not isinstance(a.get("get_pres"), Lam):
                continue
            nb += 1
            line = a["get_pres"].node.lineno
            got = {}
            for nope in (0, 1):
                try:
                    got[nope] = W.apply(a["get_pres"], [{"nope": nope}])
                except Raised as ex:
                    got[nope] = "raises %s" % ex.cls
                except Unknown as ex:
                    raise AnalysisError("%s presence callback does not fold: %s" % (cname, ex))
            L.ob(R, FP, cname, "%s '%s': the burst is absent iff nope (presence callback folded over nope in {0,1}; only the bool False means absent)" % (cname, a["name"]),
                 {0: True, 1: False}, got, got[0] is True and got[1] is False, line)
            names_before = [x["name"] for d in desc[:i] if d["kind"] == "bits" for x in d["layout"]]
            L.ob(R, FP, cname, "%s '%s': nope and mod are decoded (by the MTS octet of the same envelope) before the burst field needs them" % (cname, a["name"]),
                 ["mod", "nope"], sorted(set(names_before) & {"mod", "nope"}), {"mod", "nope"} <= set(names_before), line)
    L.floor(R, "BurstBits fields", nb, 5)
    return tab


def r3_v0rx(L, repo, spec, W, pdus):
    R = "C17.R3"
    obj, desc, cname = pdus["v0Rx"]
    fn = "PDUv0Rx.__init__"
    L.fn(FP, fn)
    b = spec["Rx"]["0"]["burst"]
    lens, pad = b["lengths"], b["legacy_pad"]
    cbs = [e for e in desc if isinstance(e["obj"].attrs.get("get_len"), Lam)]
    if len(cbs) != 1:
        raise AnalysisError("PDUv0Rx: length callback not found (anchor vanished)")
    e = cbs[0]
    L.require(R, FP, fn, "the length callback is installed on the burst buffer", "buf", e["kind"], line=e["obj"].attrs["get_len"].node.lineno)
    if e["kind"] != "buf":
        return
    lam = e["obj"].attrs["get_len"]
    line = lam.node.lineno
    hdr = e["off"]
    L.require(R, FP, fn, "the length callback is installed on the field that starts where the v0 Rx header ends", spec["Rx"]["0"]["hdr_len"], hdr, line=line)
    idx_ = desc.index(e)
    rest = desc[idx_ + 1:]
    L.ob(R, FP, fn, "what the callback leaves over goes to one trailing optional padding buffer (takes all remaining octets, always present)",
         [("buf", "rest", "always")], [(x["kind"], x["len"], x["pres"]) for x in rest],
         [(x["kind"], x["len"], x["pres"]) for x in rest] == [("buf", "rest", "always")], line)
    n = 0
    for bl in lens:
        for p in sorted({0, pad}):
            remaining = bl + p
            try:
                got = W.apply(lam, [None, bytes(remaining)])
            except Raised as ex:
                got = "raises %s" % ex.cls
            except Unknown as ex:
                raise AnalysisError("PDUv0Rx length callback does not fold: %s" % ex)
            n += 1
            L.require(R, FP, fn, "soft-bits length callback: a v0 Rx datagram with a %d-octet burst and %d legacy padding octets (%d octets remaining after the header) yields burst length %d, the rest going to `pad`" % (
                bl, p, remaining, bl), bl, got, line=line)
    L.floor(R, "v0 Rx remaining lengths", n, 4)
    # threshold shape (for the record: which lengths map where)
    try:
        t = X.PyLower(env={canon(ast.parse("len(%s)" % lam.node.args.args[1].arg, mode="eval").body): X.V("remaining")}).lower(lam.node.body)
        L.extra.setdefault("notes", []).append("PDUv0Rx soft-bits length callback normal form: %s" % X.show(t))
    except (AnalysisError, IndexError):
        pass


def r4_msg_codec(L, repo, spec, W, pdus):
    R = "C17.R4"
    dmod = repo.mod("data_msg")
    n = 0
    for d, cls in (("Tx", "TxMsg"), ("Rx", "RxMsg")):
        ci = dmod.classes.get(cls)
        if ci is None:
            raise AnalysisError("anchor data_msg.%s vanished" % cls)
        for ver in (0, 1):
            pid = "v%d%s" % (ver, d)
            obj, desc, cname = pdus[pid]
            ents, burst, pad = MsgLayout(repo, ci, ver, True).entries()
            L.fn(FD, "%s.gen_msg" % cls)
            fixed = [e for e in desc if e["kind"] not in ("buf", "seq")]
            got, want = [], []
            for e in fixed:
                if e["kind"] == "bits" and e["off"] == 0:
                    got.append((e["off"], e["size"], "bits", None, {x["name"]: (x["offset"], x["bl"]) for x in e["layout"] if not x["spare"]}))
                elif e["kind"] == "bits":
                    got.append((e["off"], e["size"], "mts", "mts", None))
                else:
                    got.append((e["off"], e["size"], e["kind"], ALIAS.get(e["name"], e["name"]), bool(e.get("neg"))))
            for m in ents:
                if m[2] == "bits":
                    # width of an unmasked field = up to the next field / the octet's end
                    bp = {}
                    for k, (sh, w) in m[4].items():
                        hi = min([s for s, _ in m[4].values() if s > sh] + [8])
                        bp[k] = (sh, w if w is not None else hi - sh)
                    # the version nibble occupies the top 4 bits; a reserved bit may separate fields
                    want.append((m[0], m[1], "bits", None, bp))
                else:
                    want.append(m)
            # header octet: compare shift exactly, width: definition's field must lie inside the writer's span
            ok = len(got) == len(want)
            diffs = []
            for g, w in zip(got, want):
                if g[2] == "bits" and w[2] == "bits":
                    for k in sorted(set(g[4]) | set(w[4])):
                        gs, ws = g[4].get(k), w[4].get(k)
                        if gs is None or ws is None or gs[0] != ws[0] or gs[1] > ws[1]:
                            ok = False
                            diffs.append((k, gs, ws))
                    if g[:2] != w[:2]:
                        ok = False
                        diffs.append((g[:2], w[:2]))
                elif g != w:
                    ok = False
                    diffs.append((g, w))
            n += 1
            L.ob(R, FP, cname, "%s header fields (offset, size, kind, name, negation; bit positions of ver/tn) equal what %s.gen_msg writes for version %d" % (cname, cls, ver),
                 [w[:4] + (w[4] if not isinstance(w[4], dict) else sorted(w[4].items()),) for w in want],
                 [g[:4] + (g[4] if not isinstance(g[4], dict) else sorted(g[4].items()),) for g in got] if not ok else "equal",
                 ok, obj.ci.node.lineno, note=str(diffs) if diffs else None)
            bursts = [e for e in desc if e["kind"] == "buf"]
            L.require(R, FP, cname, "%s: the burst starts where %s.gen_msg puts it (version %d)" % (cname, cls, ver), burst,
                      bursts[0]["off"] if bursts else None, line=obj.ci.node.lineno)
            hl = Ev(repo, dmod, env={"self.ver": ver}, self_cls=ci)
            try:
                hdr_len = hl.class_attr(ci, "HDR_LEN")
            except (Unknown, Raised) as ex:
                raise AnalysisError("%s.HDR_LEN does not fold: %s" % (cls, ex))
            L.require(R, FD, "%s.HDR_LEN" % cls, "%s header length for version %d equals the reference table and the definition's burst offset" % (cls, ver),
                      (spec[d][str(ver)]["hdr_len"], bursts[0]["off"] if bursts else None), (hdr_len, burst), line=ci.node.lineno)
            if d == "Rx" and ver == 0:
                L.require(R, FD, "Msg.gen_msg", "the message codec appends exactly the reference table's legacy padding to a v0 Rx datagram when asked to",
                          spec["Rx"]["0"]["burst"]["legacy_pad"], pad)
                _, _, pad0 = MsgLayout(repo, ci, ver, False).entries()
                L.require(R, FD, "Msg.gen_msg", "no padding without the legacy flag", 0, pad0)
            if ver == 1:
                _, _, pad1 = MsgLayout(repo, ci, ver, True).entries()
                L.require(R, FD, "Msg.gen_msg", "version 1 datagrams (%s) are never padded" % d, 0, pad1)
    L.floor(R, "message codec layouts", n, 4)
    # MTS bit positions
    rci = dmod.classes["RxMsg"]
    gm = rci.methods.get("gen_mts")
    if gm is None:
        raise AnalysisError("anchor RxMsg.gen_mts vanished")
    L.fn(FD, "RxMsg.gen_mts")
    fw = Fwd(split=True)
    fw.run(gm.body)
    ev = Ev(repo, dmod, self_cls=rci)

    def const(e):
        # only named constants (upper-case class attributes) and literals fold; message fields stay symbolic
        if not (isinstance(e, ast.Constant) or (isinstance(e, ast.Attribute) and e.attr.isupper())):
            return None
        try:
            v = ev.ev(e)
            return v if isinstance(v, int) and not isinstance(v, bool) else None
        except (Unknown, Raised):
            return None
    nope_val, pos = None, None
    for conds, r in fw.returns:
        if r is None:
            continue
        t = X.PyLower(const=const).lower(r)
        if X.is_c(t):
            nope_val = t[1]
        else:
            pos = bit_positions(t)
    if nope_val is None or pos is None:
        raise AnalysisError("RxMsg.gen_mts: shape unclassifiable")
    mts_sets = [e for e in pdus["v1Rx"][1] if e["kind"] == "bits" and e["off"] != 0]
    if len(mts_sets) != 1:
        raise AnalysisError("PDUv1Rx: MTS octet not found")
    lay = {x["name"]: x for x in mts_sets[0]["layout"] if not x["spare"]}
    defn = {"nope": 1 << lay["nope"]["offset"] if "nope" in lay else None,
            "coding shift": lay.get("mod", {}).get("offset"), "tsc_set shift": lay.get("mod", {}).get("offset"),
            "tsc": (lay.get("tsc", {}).get("offset"), lay.get("tsc", {}).get("bl"))}
    writer = {"nope": nope_val, "coding shift": pos.get("mod_type.coding", (None,))[0], "tsc_set shift": pos.get("tsc_set", (None,))[0],
              "tsc": pos.get("tsc")}
    L.require(R, FP, "MTS", "MTS bit positions (nope bit, modulation/TSC-set shift, TSC shift and width) equal what RxMsg.gen_mts writes",
              writer, defn, line=mts_sets[0]["obj"].ci.node.lineno)
    sm = spec["mts"]
    L.require(R, FP, "MTS", "MTS bit positions equal the reference table (nope bit, mod shift/width, tsc width)",
              {"nope_bit": sm["nope_bit"], "mod_shift": sm["mod_shift"], "mod_width": sm["mod_width"], "tsc_width": sm["tsc_width"]},
              {"nope_bit": lay.get("nope", {}).get("offset"), "mod_shift": lay.get("mod", {}).get("offset"),
               "mod_width": lay.get("mod", {}).get("bl"), "tsc_width": lay.get("tsc", {}).get("bl")}, line=mts_sets[0]["obj"].ci.node.lineno)


def r5_batching(L, repo, spec, W, pdus, tab):
    R = "C17.R5"
    n = 0
    for pid in ("v2Rx", "v2Tx"):
        obj, desc, cname = pdus[pid]
        line = obj.ci.node.lineno
        seqs = [(i, e) for i, e in enumerate(desc) if e["kind"] == "seq"]
        L.require(R, FP, cname, "%s has exactly one sequence field" % cname, 1, len(seqs), line=line)
        if len(seqs) != 1:
            continue
        i, e = seqs[0]
        n += 1
        L.require(R, FP, cname, "%s: `bpdu` is a Sequence field of flexible length (takes all remaining octets), always present, placed last" % cname,
                  ("bpdu", "rest", "always", len(desc) - 1), (e["name"], e["len"], e["pres"], i), line=line)
        item = e["item"]
        if not isinstance(item, Obj):
            raise AnalysisError("%s: sequence item is not an envelope" % cname)
        L.require(R, FP, cname, "%s: the batched item is the BPDU envelope of the same class" % cname, "%s.BPDU" % cname,
                  "%s.%s" % (cname, item.ci.name) if item.ci in obj.ci.inner.values() else item.ci.name, line=line)
        L.require(R, FP, cname, "%s: the item envelope's tail check is disabled (by Sequence.__init__), the outer envelope's is on" % cname,
                  (False, True), (item.attrs.get("check_len"), obj.attrs.get("check_len")), line=line)
        bdesc = pdus[pid + "B"][1]
        names = [x["name"] for d in bdesc if d["kind"] == "bits" for x in d["layout"] if not x["spare"]] + \
                [d.get("name") for d in bdesc if d["kind"] not in ("bits",)]
        L.ob(R, FP, cname, "%s: batched sub-PDUs carry neither a version nibble nor a frame number" % cname, "no ver, no fn",
             sorted(set(names) & {"ver", "fn"}), not (set(names) & {"ver", "fn"}), line)
    L.floor(R, "batched PDU classes", n, 2)
    # every burst field's length is driven by its own envelope's mod
    nb = 0
    for pid, (obj, desc, cname) in pdus.items():
        if not pid.startswith(("v1Rx", "v2")):
            continue
        for e in desc:
            a = e["obj"].attrs
            if e["kind"] != "buf":
                continue
            lam = a.get("get_len")
            if not isinstance(lam, Lam):
                L.ob(R, FP, cname, "%s '%s': burst length is driven by the modulation" % (cname, a["name"]), "length callback", cb_kind(lam), False, obj.ci.node.lineno)
                continue
            got = {}
            for code in range(16):
                try:
                    got[code] = W.apply(lam, [{"mod": code}, b""])
                except Raised as ex:
                    got[code] = "raises %s" % ex.cls
                except Unknown as ex:
                    raise AnalysisError("%s length callback does not fold: %s" % (cname, ex))
            nb += 1
            L.require(R, FP, cname, "%s '%s': the burst length callback depends only on this envelope's own `mod` and equals MTS.get_burst_len for all 16 codes" % (cname, a["name"]),
                      tab, got, line=lam.node.lineno)
    L.floor(R, "burst fields with a modulation-driven length", nb, 5)


def r5_sub_pdu_lists(L, repo):
    """R5 (batching, per decode).  Clause decided: "a version-2 PDU with any number of batched sub-PDUs round-trips
    with every sub-PDU intact" - for every PDU decoded by a process, not only the first.  PDUv2Rx/Tx hand their
    `bpdu` octets to codec.Sequence.from_bytes; the list of sub-PDUs it yields must be created by that decode.
    One list object outliving the call (default-argument / class-level / module-level object that is only ever
    appended to) makes every later PDU also carry the sub-PDUs of the earlier ones.  Decided by C16's
    result-ownership analysis (rules.c16.r6_ownership) on the resolved origin of the returned object."""
    from rules import c16
    c16.r6_ownership(L, repo, R="C17.R5",
                     key="batched sub-PDUs: the `bpdu` list a decode yields (codec.Sequence.from_bytes) is created by that "
                         "decode - not one default-argument, class-level or module-level object that still holds the "
                         "sub-PDUs of PDUs decoded earlier")


def build_all(L, repo):
    spec = load_spec()
    W, pdus = build(L, repo)
    return spec, W, pdus


def run(L, tier):
    repo = Repo(L.repo)
    L.unit(FP)
    L.unit(rel("codec"))
    from report import STAGE_FAILED
    b = L.stage(build_all, L, repo)
    if b is not STAGE_FAILED:
        spec, W, pdus = b
        L.stage(r1_structure, L, spec, W, pdus)
        tab = L.stage(r2_burst_len, L, repo, spec, W, pdus)
        L.stage(r3_v0rx, L, repo, spec, W, pdus)
        L.stage(r4_msg_codec, L, repo, spec, W, pdus)
        L.stage(r5_batching, L, repo, spec, W, pdus, tab)
    L.stage(r5_sub_pdu_lists, L, repo)
