# C17 -- TRXD PDU definitions (v0, v1, v2) have the documented structure.
#
# The definitions in trxd_proto.py are class-level tuples of constructor calls
# with literal arguments, i.e. data.  They are evaluated by the framework's
# constant folder (consteval.Ev) extended with a *model* of the codec building
# blocks whose laws C16 decides on codec.py (Field/BitFieldSet/BitField/
# Envelope/Sequence constructors); constructors defined in trxd_proto.py itself
# (Header, BurstBits, PDUv0Rx) are interpreted from their source.  The result
# is a layout descriptor per PDU, compared with /verif/spec/trxd.json and with
# the writer layout extracted from data_msg.py.  Callbacks (lambdas) are folded
# over their finite declared domains (4-bit mod, 1-bit nope, the four v0 Rx
# remaining lengths).  Nothing of the repository is imported or executed.

import ast
import json
import os
import struct

from report import AnalysisError, VERIF
from pyfront import Repo, canon, qualname
from pyutil import params, rel
from consteval import Ev, Unknown, Raised, ClassRef, EnumMember, _FALL
from symfwd import Fwd
import exprnf as X

EXPLANATION = (
    "The PDU definitions are data: class-level tuples of constructor calls with "
    "literal arguments. They are folded (consteval + a model of the codec "
    "constructors whose laws C16 decides; Header/BurstBits/PDUv0Rx constructors "
    "interpreted from source incl. the ver/batched branches and PDUv1Tx's slice of "
    "PDUv0Tx.STRUCT) into layout descriptors: octet offsets, widths, byte order, "
    "sign, multiplier, bit-field positions, fixed values, spares, length/presence "
    "callbacks, sequence items. R1 compares them with spec/trxd.json for the 8 "
    "envelopes; R2 tabulates MTS.get_burst_len over all 16 codes of the 4-bit mod "
    "field (folded with MTS's class-body scope, or evaluated concretely - decision chain, lookup table, arithmetic alike) against the modulation table and "
    "data_msg.Modulation with its TSC-set variants, and folds BurstBits' presence over nope in {0,1}; R3 folds the v0 Rx "
    "length callback over every remaining length the message codec can produce; R4 is decided by evaluation: witness messages "
    "(boundary header values, every modulation with every TSC set, GMSK/EDGE bursts, NOPE, legacy flag) are turned into datagrams "
    "by TxMsg/RxMsg.gen_msg() under the concrete evaluator (rules.c16.Mach) and decoded by the evaluated PDU class - the values must be the "
    "message's fields; the writer layout extracted from the statements of gen_msg/append_hdr_to/gen_mts is an additional proof attempt that "
    "is never a verdict by itself; R5 checks the batching structure; R7 folds the presence and length callbacks of every burst field that follows a "
    "mod bit field over all 256 values of (nope, mod, tsc): each value that announces a burst gets a length (the encoder emits all of them, so a code "
    "without a length is a PDU the definition encodes and cannot decode); R6 evaluates every PDU class value-level (0..8 batched sub-PDUs with "
    "differing BATCH flags) against the block semantics applied to its own layout; R8 evaluates the encode direction of every modulation-driven "
    "burst field (main part and batched sub-PDU) for all 16 modulation codes with a burst of exactly the length the field's length callback yields: "
    "Field.to_bytes() with its check against the declared length must emit header + burst, and the octets decode back.")
ASSUMPTIONS = [
    "the codec building blocks behave as modelled (C16 decides those laws on codec.py); R4/R6 evaluate codec.py itself",
    "spec/trxd.json transcribes the TRXD layouts; field names of the definitions are compared modulo the alias cir -> ci",
    "value-level round trip is decided on generated witnesses (R6), not for all field values",
    "R4: the domain of messages is what the message codec's own validate() accepts",
]

FP = rel("trxd_proto")
FD = rel("data_msg")
ALIAS = {"cir": "ci"}


# ------------------------------------------------------------ model values

class Obj:
    def __init__(self, ci):
        self.ci = ci
        self.attrs = {}

    def __repr__(self):
        return "<%s %s>" % (self.ci.name, self.attrs.get("name", ""))


class Lam:
    def __init__(self, node, mod, env):
        self.node, self.mod, self.env = node, mod, env

    def __repr__(self):
        return "<lambda %s>" % canon(self.node)[:60]


_NO = object()


class World:
    """Model of the codec constructors + interpreter of constructors defined
    outside codec.py."""

    def __init__(self, repo):
        self.repo = repo
        self.cache = {}
        self.codec = repo.mod("codec") if repo.has_mod("codec") else None
        if self.codec is None:
            raise AnalysisError("anchor module codec.py vanished")

    def qn(self, ci):
        return qualname(ci.node)

    def is_codec(self, ci):
        return ci.mod.name == "codec"

    def codec_kinds(self, ci):
        return [self.qn(c) for c in self.repo.mro(ci) if self.is_codec(c)]

    def class_attr(self, ci, attr):
        c, v = self.repo.find_attr(ci, attr)
        if v is None:
            raise Unknown("class attr %s.%s" % (ci.name, attr))
        key = (id(c.node), attr)
        if key not in self.cache:
            self.cache[key] = PEv(self.repo, c.mod, self_cls=c, W=self).ev(v)
        return self.cache[key]

    def obj_attr(self, obj, attr):
        if attr in obj.attrs:
            return obj.attrs[attr]
        return self.class_attr(obj.ci, attr)

    # -- construction ------------------------------------------------------
    def construct(self, ci, args, kw):
        obj = Obj(ci)
        self.init_as(obj, ci, list(args), dict(kw))
        return obj

    def init_as(self, obj, ci, args, kw):
        c, init = self.repo.find_method(ci, "__init__")
        if init is None:
            if args or kw:
                raise AnalysisError("%s() takes no arguments" % ci.name)
            return
        if self.is_codec(c):
            return self.model_init(obj, self.qn(c), args, kw)
        return self.interpret(obj, c, init, args, kw)

    def interpret(self, obj, c, init, args, kw):
        names = [a.arg for a in init.args.args]
        env = {names[0]: obj}
        pos = names[1:]
        extra = []
        for i, a in enumerate(args):
            if i < len(pos):
                env[pos[i]] = a
            else:
                extra.append(a)
        kwx = {}
        for k, v in kw.items():
            if k in pos:
                if k in env:
                    raise AnalysisError("%s.__init__: duplicate argument %s" % (c.name, k))
                env[k] = v
            else:
                kwx[k] = v
        defaults = init.args.defaults
        for p, d in zip(pos[len(pos) - len(defaults):], defaults):
            if p not in env:
                env[p] = Ev(self.repo, c.mod).ev(d)
        for p in pos:
            if p not in env:
                raise AnalysisError("%s.__init__: missing argument %s" % (c.name, p))
        if init.args.vararg is not None:
            env[init.args.vararg.arg] = tuple(extra)
        elif extra:
            raise AnalysisError("%s.__init__: too many arguments" % c.name)
        if init.args.kwarg is not None:
            env[init.args.kwarg.arg] = kwx
        elif kwx:
            raise AnalysisError("%s.__init__: unexpected keyword %s" % (c.name, sorted(kwx)))
        env["$init_cls"], env["$init_self"] = c, obj
        sub = PEv(self.repo, c.mod, env, W=self)
        try:
            sub.run_block(init.body)
        except Unknown as e:
            raise AnalysisError("%s.__init__: construct outside the vocabulary: %s" % (c.name, e))
        except Raised as e:
            raise AnalysisError("%s.__init__ raises %s" % (c.name, e.cls))

    def model_init(self, obj, qn, args, kw):
        if qn == "BitField":
            a = dict(zip(["name", "bl"], args))
            a.update(kw)
            if "name" not in a or "bl" not in a or len(args) > 2:
                raise AnalysisError("BitField(): bad arguments")
            if not isinstance(a["bl"], int) or a["bl"] < 1:
                raise AnalysisError("definition rejected: BitField length %r (ProtocolError)" % (a["bl"],))
            obj.attrs.update(name=a["name"], bl=a["bl"], val=a.get("val"), spare=False)
            return
        if qn == "BitField.Spare":
            a = dict(zip(["bl"], args))
            a.update(kw)
            if set(a) != {"bl"} or not isinstance(a["bl"], int):
                raise AnalysisError("BitField.Spare(): bad arguments")
            obj.attrs.update(name=None, bl=a["bl"], val=None, spare=True)
            return
        if qn == "Field":
            if len(args) != 1:
                raise AnalysisError("%s(): expected exactly the field name" % obj.ci.name)
            return self.field_init(obj, args[0], kw)
        if qn == "BitFieldSet":
            if args:
                raise AnalysisError("BitFieldSet(): positional arguments")
            return self.bitfieldset_init(obj, kw)
        if qn == "Envelope":
            a = dict(zip(["check_len"], args))
            a.update(kw)
            if len(args) > 1 or set(a) - {"check_len"}:
                raise AnalysisError("Envelope(): bad arguments")
            obj.attrs.update(c={}, check_len=a.get("check_len", True))
            return
        if qn == "Sequence":
            if args:
                raise AnalysisError("Sequence(): positional arguments")
            item = kw.get("item", _NO)
            if item is _NO:
                item = self.class_attr(obj.ci, "ITEM")
            if not isinstance(item, Obj):
                raise AnalysisError("definition rejected: Sequence without item (ProtocolError)")
            obj.attrs["_item"] = item
            item.attrs["check_len"] = False        # C16.R3: Sequence.__init__ switches the item's tail check off
            return
        if qn in ("Envelope.F", "Sequence.F"):
            if len(args) != 2:
                raise AnalysisError("%s(): expected (wrapped, name)" % qn)
            self.field_init(obj, args[1], kw)
            obj.attrs["inner"] = args[0]
            return
        raise AnalysisError("codec class %s has no model" % qn)

    def field_init(self, obj, name, kw):
        a = obj.attrs
        a["name"] = name
        a["len"] = kw.get("len", self.class_attr(obj.ci, "DEF_LEN"))
        if not isinstance(a["len"], int) or a["len"] < 0:
            raise AnalysisError("field %r: length %r" % (name, a["len"]))
        a["get_len"] = ("default", "rest") if a["len"] == 0 else ("default", "fixed")
        a["get_pres"] = ("default", True)
        a["get_val"] = ("default", "vals[name]")
        dp = self.class_attr(obj.ci, "DEF_PARAMS")
        a["p"] = {k: kw.get(k, dp[k]) for k in dp}
        a["kw_ignored"] = sorted(k for k in kw if k not in dp and k not in ("len", "set"))

    def bitfieldset_init(self, obj, kw):
        self.field_init(obj, obj.ci.name, kw)
        a = obj.attrs
        fields = kw.get("set", _NO)
        if fields is _NO:
            fields = self.class_attr(obj.ci, "STRUCT")
        if type(fields) is not tuple:
            raise AnalysisError("definition rejected: %s field set is not a tuple (ProtocolError)" % obj.ci.name)
        if a["p"].get("order") in ("little", "lsb"):
            fields = fields[::-1]
        for f in fields:
            if not (isinstance(f, Obj) and "bl" in f.attrs):
                raise AnalysisError("%s: field set element is not a BitField" % obj.ci.name)
        if a["len"] == 0:
            s = sum(f.attrs["bl"] for f in fields)
            a["len"] = -(-s // 8)
        a["get_len"] = ("default", "fixed")
        rem = a["len"] * 8
        layout = []
        for f in fields:
            bl = f.attrs["bl"]
            if bl > rem:
                raise AnalysisError("definition rejected: %s bit-field overflow (ProtocolError)" % obj.ci.name)
            off, mask = rem - bl, 2 ** bl - 1
            prev = f.attrs.get("offset")
            if prev is not None and prev != off:
                raise AnalysisError("BitField object %r shared between sets with different offsets" % (f.attrs["name"],))
            f.attrs["offset"], f.attrs["mask"] = off, mask
            layout.append(dict(name=f.attrs["name"], bl=bl, offset=off, val=f.attrs["val"], spare=f.attrs["spare"]))
            rem -= bl
        a["_fields"] = fields
        a["layout"] = layout

    def obj_method(self, obj, name, args, kw):
        c, m = self.repo.find_method(obj.ci, name)
        if m is not None and self.is_codec(c) and name == "f" and self.qn(c) in ("Envelope", "Sequence"):
            fci = c.inner.get("F")
            if fci is None:
                raise AnalysisError("codec.%s.F vanished" % c.name)
            return self.construct(fci, [obj] + list(args), kw)
        raise AnalysisError("method %s.%s has no model" % (obj.ci.name, name))

    def describe(self, obj):
        return describe_folded(self, obj)

    def apply(self, lam, args):
        if isinstance(lam, MLam):
            return lam.call(args)
        ps = [a.arg for a in lam.node.args.args]
        if len(ps) != len(args):
            raise AnalysisError("callback arity: %s" % canon(lam.node)[:60])
        env = {k: v for k, v in lam.env.items() if not isinstance(v, (Obj, Lam)) and not str(k).startswith("$")}
        env.update(zip(ps, args))
        return PEv(self.repo, lam.mod, env, W=self).ev(lam.node.body)


class PEv(Ev):
    def __init__(self, repo, mod, env=None, self_cls=None, depth=0, W=None):
        Ev.__init__(self, repo, mod, env, self_cls, depth)
        self.W = W

    def _mk(self, *a, **kw):
        e = Ev._mk(self, *a, **kw)
        e.W = self.W           # sub-evaluators (helper calls, comprehensions) keep the class-body scope / model
        return e

    def ev_Name(self, n):
        if n.id in self.env:
            return self.env[n.id]
        if self.self_cls is not None and n.id in self.self_cls.inner:
            return ClassRef(self.self_cls.inner[n.id])
        if self.self_cls is not None and n.id in self.self_cls.attrs:
            return self.W.class_attr(self.self_cls, n.id)       # class-body scope
        return Ev.ev_Name(self, n)

    def class_attr(self, ci, attr):
        c, v = self.repo.find_attr(ci, attr)
        if v is not None:
            return self.W.class_attr(ci, attr)
        return Ev.class_attr(self, ci, attr)

    def ev_Attribute(self, n):
        if isinstance(n.value, ast.Name) and isinstance(self.env.get(n.value.id), Obj):
            return self.W.obj_attr(self.env[n.value.id], n.attr)
        return Ev.ev_Attribute(self, n)

    def ev_Lambda(self, n):
        return Lam(n, self.mod, dict(self.env))

    def evargs(self, n):
        args, kw = [], {}
        for a in n.args:
            if isinstance(a, ast.Starred):
                args.extend(self.ev(a.value))
            else:
                args.append(self.ev(a))
        for k in n.keywords:
            if k.arg is None:
                d = self.ev(k.value)
                if not isinstance(d, dict):
                    raise Unknown("**kw")
                kw.update(d)
            else:
                kw[k.arg] = self.ev(k.value)
        return args, kw

    def ev_Call(self, n):
        f = n.func
        if isinstance(f, ast.Attribute) and f.attr == "__init__" and isinstance(f.value, ast.Call) and \
                isinstance(f.value.func, ast.Name) and f.value.func.id == "super" and not f.value.keywords:
            # super().__init__(...) / super(C, self).__init__(...): the next class in the MRO of the object under construction
            cur, obj = self.env.get("$init_cls"), self.env.get("$init_self")
            if len(f.value.args) == 2:
                c0, obj = self.ev(f.value.args[0]), self.ev(f.value.args[1])
                cur = c0.ci if isinstance(c0, ClassRef) else None
            if cur is None or not isinstance(obj, Obj):
                raise Unknown("super() outside a constructor under interpretation")
            mro = self.repo.mro(obj.ci)
            if cur not in mro:
                raise Unknown("super(): class not in the MRO")
            nxt = mro[mro.index(cur) + 1:]
            args, kw = self.evargs(n)
            for c in nxt:
                if "__init__" in c.methods:
                    if self.W.is_codec(c):
                        self.W.model_init(obj, self.W.qn(c), list(args), dict(kw))
                    else:
                        self.W.interpret(obj, c, c.methods["__init__"], list(args), dict(kw))
                    return None
            if args or kw:
                raise AnalysisError("object.__init__() takes no arguments")
            return None
        if isinstance(f, ast.Attribute) and f.attr == "__init__":
            base = self.ev(f.value)
            if isinstance(base, ClassRef):
                args, kw = self.evargs(n)
                if not args or not isinstance(args[0], Obj):
                    raise Unknown("base __init__ without self")
                self.W.init_as(args[0], base.ci, args[1:], kw)
                return None
        if isinstance(f, ast.Attribute):
            try:
                recv = self.ev(f.value)
            except Unknown:
                recv = _NO
            if isinstance(recv, Obj):
                args, kw = self.evargs(n)
                return self.W.obj_method(recv, f.attr, args, kw)
            if isinstance(recv, list) and f.attr == "append" and len(n.args) == 1 and not n.keywords:
                recv.append(self.ev(n.args[0]))
                return None
            if recv is not _NO and not isinstance(recv, ClassRef):
                raise Unknown("method call on a value: %s" % canon(n)[:60])
        try:
            fv = self.ev(f)
        except Unknown:
            fv = None
        if isinstance(fv, ClassRef) and not self.is_enum(fv.ci):
            args, kw = self.evargs(n)
            return self.W.construct(fv.ci, args, kw)
        return Ev.ev_Call(self, n)

    def run_stmt(self, st):
        if isinstance(st, ast.Assign) and len(st.targets) == 1 and isinstance(st.targets[0], ast.Attribute):
            t = st.targets[0]
            tgt = self.ev(t.value)
            if isinstance(tgt, Obj):
                tgt.attrs[t.attr] = self.ev(st.value)
                return _FALL
        return Ev.run_stmt(self, st)


# ------------------------------------------- descriptors by concrete evaluation (fallback)

class MLam(Lam):
    """a length/presence callback that lives in the concrete evaluator (lambda, function, static or bound method)"""

    def __init__(self, mach, fn):
        from rules import c16
        node = None
        f = fn.func if isinstance(fn, c16.PBound) else fn
        if isinstance(f, c16.PFunc):
            node = f.node
        if node is None:
            node = ast.parse("lambda *a: None", mode="eval").body
        Lam.__init__(self, node, None, {})
        self.mach, self.fn = mach, fn

    def call(self, args):
        from rules import c16
        m = self.mach
        m.fuel, m.depth, m.exc_stack = 200000, 0, []
        try:
            return m.call(self.fn, list(args), {})
        except c16.PyRaise as e:
            raise Raised(e.cls_name)
        except c16.MachUnknown as e:
            raise Unknown(str(e))
        except c16.MachTimeout:
            raise Unknown("callback does not terminate")

    def __repr__(self):
        return "<callback %s>" % canon(self.node)[:60]


class MWorld(World):
    """The PDU definitions built by the concrete evaluator (rules.c16.Mach): trxd_proto.py and codec.py are evaluated as
    they are, the resulting objects are read out (field classes through the codec MRO, name/len/parameters, the bit
    layout the set computed, wrapped envelopes / sequence items) and the callbacks are classified by probing them
    (constant length / all remaining octets / anything else is a callback).  Used when the constant folder cannot
    follow the definitions' source; yields the same descriptors."""

    def __init__(self, repo):
        from rules import c16
        World.__init__(self, repo)
        self.lab = c16.Lab(repo)
        self.m = self.lab.m
        self.tp = self.m.module("trxd_proto")
        self.objs = {}

    def ci_of(self, cls):
        from rules import c16
        if not isinstance(cls, c16.PClass) or not cls.modname or not self.repo.has_mod(cls.modname):
            raise AnalysisError("class %r is not defined in the toolkit" % (cls,))
        parts = cls.qual.split(".")
        ci = self.repo.mod(cls.modname).classes.get(parts[0])
        for p_ in parts[1:]:
            ci = ci.inner.get(p_) if ci is not None else None
        if ci is None:
            raise AnalysisError("class %s not found in %s.py" % (cls.qual, cls.modname))
        return ci

    def get(self, inst, name, default=_NO):
        from rules import c16
        self.m.fuel, self.m.depth = 200000, 0
        try:
            return self.m.getattr_(inst, name)
        except c16.PyRaise:
            if default is not _NO:
                return default
            raise AnalysisError("%r has no attribute %s" % (inst, name))

    def probe(self, fn, args):
        from rules import c16
        self.m.fuel, self.m.depth, self.m.exc_stack = 200000, 0, []
        try:
            return ("ok", self.m.call(fn, list(args), {}))
        except c16.PyRaise as e:
            return ("raise", e.cls_name)
        except c16.MachTimeout:
            return ("timeout",)

    def adopt(self, inst):
        from rules import c16
        if not isinstance(inst, c16.PInst):
            raise AnalysisError("not an object of the definitions: %r" % (inst,))
        o = self.objs.get(id(inst))
        if o is None:
            o = Obj(self.ci_of(inst.cls))
            o.inst = inst
            self.objs[id(inst)] = o
            cl = self.get(inst, "check_len", None)
            if cl is not None:
                o.attrs["check_len"] = cl
        return o

    def codec_kinds_m(self, inst):
        from rules import c16
        return [c.qual for c in inst.cls.mro if isinstance(c, c16.PClass) and c.modname == "codec"]

    def construct_pdu(self, cname):
        from rules import c16
        cls = self.tp
        for part in cname.split("."):
            cls = self.m.getattr_(cls, part)
        r = self.probe(cls, [])
        if r[0] != "ok":
            raise AnalysisError("%s() %s" % (cname, "raises " + r[1] if r[0] == "raise" else "does not terminate"))
        return self.adopt(r[1])

    def classify(self, f, a):
        n = a["len"]
        gl = self.get(f, "get_len")
        rs = [self.probe(gl, [{}, bytes(k)]) for k in (0, 7, 600)]
        if all(r == ("ok", n) for r in rs) and n > 0:
            a["get_len"] = ("default", "fixed")
        elif [r for r in rs] == [("ok", 0), ("ok", 7), ("ok", 600)]:
            a["get_len"] = ("default", "rest")
        else:
            a["get_len"] = MLam(self.m, gl)
        gp = self.get(f, "get_pres")
        rs = [self.probe(gp, [v]) for v in ({}, {"nope": 1, "x": 0})]
        a["get_pres"] = ("default", True) if all(r == ("ok", True) for r in rs) else MLam(self.m, gp)
        a["get_val"] = ("default", "vals[name]")

    def describe(self, env_obj):
        from rules import c16
        struct_ = self.get(env_obj.inst, "STRUCT")
        if not isinstance(struct_, tuple):
            raise AnalysisError("%s.STRUCT is not a tuple" % env_obj.ci.name)
        out, off = [], 0
        for f in struct_:
            o = self.adopt(f)
            kinds = self.codec_kinds_m(f)
            a = o.attrs
            a["name"], a["len"] = self.get(f, "name"), self.get(f, "len")
            p_ = self.get(f, "p", {})
            a["p"] = dict(p_) if isinstance(p_, dict) else {}
            if not isinstance(a["len"], int) or a["len"] < 0:
                raise AnalysisError("field %r: length %r" % (a["name"], a["len"]))
            self.classify(f, a)
            e = {"off": off, "obj": o}
            glen, gpres = cb_kind(a["get_len"]), cb_kind(a["get_pres"])
            if "BitFieldSet" in kinds:
                lay = []
                for bf in self.get(f, "_fields"):
                    bk = self.codec_kinds_m(bf)
                    nm = self.get(bf, "name", None)
                    spare = "BitField.Spare" in bk or nm is None
                    lay.append(dict(name=None if spare else nm, bl=self.get(bf, "bl"), offset=self.get(bf, "offset"),
                                    val=None if spare else self.get(bf, "val", None), spare=spare))
                rem = 8 * a["len"]
                for x in lay:      # the layout the evaluated set computed must be the contiguous MSB-first one its fields declare
                    if x["offset"] != rem - x["bl"]:
                        raise AnalysisError("%s: bit-field %r at offset %r, expected %d" % (o.ci.name, x["name"], x["offset"], rem - x["bl"]))
                    rem -= x["bl"]
                a["layout"] = lay
                e.update(kind="bits", size=a["len"], fields=[[x["name"] if not x["spare"] else None, x["bl"]] for x in lay],
                         fixed={x["name"]: x["val"] for x in lay if x["val"] is not None}, layout=lay)
                used = sum(x["bl"] for x in lay)
                if used != a["len"] * 8:
                    e["unused_bits"] = a["len"] * 8 - used
            elif "Uint" in kinds:
                bo, sg = self.get(f, "BO"), self.get(f, "SIGN")
                e.update(kind=int_kind(a["len"], bo, sg), size=a["len"], name=a["name"], bo=bo, sign=bool(sg))
                mlt, ofs = a["p"].get("mult"), a["p"].get("offset")
                e["neg"] = (mlt == -1 and ofs == 0)
                if (mlt, ofs) not in ((1, 0), (-1, 0)):
                    e["transform"] = (mlt, ofs)
            elif "Spare" in kinds:
                e.update(kind="spare", size=a["len"], name=a["name"])
                if a["p"].get("filler") != b"\x00":
                    e["filler"] = a["p"].get("filler")
            elif "Sequence.F" in kinds:
                seq = self.get(f, "s")
                item = self.adopt(self.get(seq, "_item"))
                a["inner"] = seq
                e.update(kind="seq", name=a["name"], size=a["len"], item=item)
            elif "Envelope.F" in kinds:
                inner = self.adopt(self.get(f, "e"))
                a["inner"] = inner
                e.update(kind="env", name=a["name"], size=a["len"], item=inner)
            elif "Buf" in kinds:
                e.update(kind="buf", name=a["name"], size=a["len"])
            else:
                raise AnalysisError("field class %s has no layout model" % o.ci.name)
            e["len"] = glen if e["kind"] in ("buf", "seq", "env") or glen != "fixed" else "fixed"
            e["pres"] = "always" if gpres is True else gpres
            out.append(e)
            if off is not None and e["len"] == "fixed" and e["pres"] == "always":
                off += e["size"]
            else:
                off = None
        return out


def build_evaluated(L, repo):
    """the PDU objects and descriptors by concrete evaluation (see MWorld)"""
    from rules import c16
    try:
        W = MWorld(repo)
        out = {}
        for pid, cls, inner in PDUS:
            if inner is None:
                obj = W.construct_pdu(cls)
                out[pid] = (obj, W.describe(obj), cls)
            else:
                parent = out[pid[:-1]][1]
                seqs = [e for e in parent if e["kind"] == "seq"]
                ci = W.repo.mod("trxd_proto").classes.get(cls)
                if ci is None or inner not in ci.inner:
                    raise AnalysisError("anchor class trxd_proto.%s.%s vanished" % (cls, inner))
                if len(seqs) == 1 and seqs[0]["item"].ci is ci.inner[inner]:
                    obj = seqs[0]["item"]
                else:
                    obj = W.construct_pdu("%s.%s" % (cls, inner))
                out[pid] = (obj, W.describe(obj), "%s.%s" % (cls, inner))
            L.fn(FP, out[pid][2])
        return W, out
    except c16.MachUnknown as e:
        raise AnalysisError("concrete evaluation of the PDU definitions: %s" % e)
    except c16.PyRaise as e:
        raise AnalysisError("concrete evaluation of the PDU definitions raises %s" % e.cls_name)
    except c16.MachTimeout:
        raise AnalysisError("concrete evaluation of the PDU definitions does not terminate")


# ----------------------------------------------------------- descriptors

def int_kind(size, bo, sign):
    if size == 1:
        return "i8" if sign else "u8"
    return "%s_%s%d" % ("be" if bo == "big" else "le", "i" if sign else "u", size * 8)


def cb_kind(v):
    if isinstance(v, tuple) and v and v[0] == "default":
        return v[1]
    if isinstance(v, Lam):
        return "callback"
    return "?"


def describe_folded(W, env_obj):
    """layout descriptor of an Envelope model object: list of entries"""
    try:
        struct_ = W.obj_attr(env_obj, "STRUCT")
    except Unknown as e:
        raise AnalysisError("%s.STRUCT does not fold: %s" % (env_obj.ci.name, e))
    if not isinstance(struct_, tuple):
        raise AnalysisError("%s.STRUCT is not a tuple" % env_obj.ci.name)
    out = []
    off = 0
    for f in struct_:
        if not isinstance(f, Obj):
            raise AnalysisError("%s.STRUCT element is not a field object: %r" % (env_obj.ci.name, f))
        kinds = W.codec_kinds(f.ci)
        a = f.attrs
        e = {"off": off, "obj": f}
        glen, gpres = cb_kind(a.get("get_len")), cb_kind(a.get("get_pres"))
        if "BitFieldSet" in kinds:
            e.update(kind="bits", size=a["len"], fields=[[x["name"] if not x["spare"] else None, x["bl"]] for x in a["layout"]],
                     fixed={x["name"]: x["val"] for x in a["layout"] if x["val"] is not None}, layout=a["layout"])
            used = sum(x["bl"] for x in a["layout"])
            if used != a["len"] * 8:
                e["unused_bits"] = a["len"] * 8 - used
        elif "Uint" in kinds:
            bo, sg = W.class_attr(f.ci, "BO"), W.class_attr(f.ci, "SIGN")
            e.update(kind=int_kind(a["len"], bo, sg), size=a["len"], name=a["name"], bo=bo, sign=bool(sg))
            m, o = a["p"].get("mult"), a["p"].get("offset")
            e["neg"] = (m == -1 and o == 0)
            if (m, o) not in ((1, 0), (-1, 0)):
                e["transform"] = (m, o)
        elif "Spare" in kinds:
            e.update(kind="spare", size=a["len"], name=a["name"])
            if a["p"].get("filler") != b"\x00":
                e["filler"] = a["p"].get("filler")
        elif "Sequence.F" in kinds:
            e.update(kind="seq", name=a["name"], size=a["len"], item=a["inner"].attrs.get("_item"))
        elif "Envelope.F" in kinds:
            e.update(kind="env", name=a["name"], size=a["len"], item=a["inner"])
        elif "Buf" in kinds:
            e.update(kind="buf", name=a["name"], size=a["len"])
        else:
            raise AnalysisError("field class %s has no layout model" % f.ci.name)
        e["len"] = glen if e["kind"] in ("buf", "seq", "env") or glen != "fixed" else "fixed"
        e["pres"] = "always" if gpres is True else gpres
        if a.get("kw_ignored"):
            e["kw_ignored"] = a["kw_ignored"]
        out.append(e)
        if off is not None and e["len"] == "fixed" and e["pres"] == "always":
            off += e["size"]
        else:
            off = None
    return out


def brief(e):
    """comparable view of an entry"""
    k = e["kind"]
    d = {"off": e["off"], "kind": k}
    if k == "bits":
        d.update(size=e["size"], fields=e["fields"], fixed=e.get("fixed", {}))
        if e.get("unused_bits"):
            d["unused_bits"] = e["unused_bits"]
    elif k in ("buf", "seq", "env"):
        d.update(len=e["len"] if e["len"] != "fixed" else e["size"], pres=e["pres"])
        if k == "seq":
            d["name"] = e.get("name")
    else:
        d.update(size=e["size"])
        if k != "spare":
            d.update(name=ALIAS.get(e["name"], e["name"]), neg=bool(e.get("neg")))
        if e["len"] != "fixed" or e["pres"] != "always":
            d.update(len=e["len"], pres=e["pres"])
    for x in ("transform", "filler", "kw_ignored"):
        if e.get(x):
            d[x] = e[x]
    return d


# ------------------------------------------------------------------ spec

def load_spec():
    p = os.path.join(VERIF, "spec", "trxd.json")
    try:
        with open(p) as f:
            return json.load(f)
    except (OSError, ValueError) as e:
        raise AnalysisError("cannot read spec/trxd.json: %s" % e)


def spec_entry(s, off, fixed=None):
    k = s["kind"]
    d = {"off": off, "kind": k}
    if k == "bits":
        d.update(size=s["size"], fields=[list(x) for x in s["fields"]], fixed=fixed or {})
    elif k == "spare":
        d.update(size=s["size"])
    else:
        d.update(size=s["size"], name=ALIAS.get(s["name"], s["name"]), neg=bool(s.get("neg")))
    return d


def spec_burst(b, off):
    if b.get("legacy_pad"):
        out = [{"off": off, "kind": "buf", "len": "callback", "pres": "always"},
               {"off": None, "kind": "buf", "len": "rest", "pres": "always"}]
    elif b.get("lengths") == "by modulation":
        out = [{"off": off, "kind": "buf", "len": "callback", "pres": "callback" if b.get("absent_if") else "always"}]
    else:
        out = [{"off": off, "kind": "buf", "len": "rest", "pres": "always"}]
    return out


def spec_layout(spec, pdu):
    """expected entries for 'v0Rx', 'v1Tx', 'v2Rx', 'v2RxB' ..."""
    ver, d = int(pdu[1]), pdu[2:4]
    batched = pdu.endswith("B")
    out = []
    if ver in (0, 1):
        for s in spec["hdr_common"]:
            out.append(spec_entry(s, s["off"], {"ver": ver} if s["kind"] == "bits" else None))
        sec = spec[d][str(ver)]
        for s in sec["fields"]:
            out.append(spec_entry(s, s["off"]))
        out += spec_burst(sec["burst"], sec["burst"]["off"])
        return out
    v2 = spec["v2"]
    off = 0
    for s in (v2["hdr_batched"] if batched else v2["hdr_first"]):
        out.append(spec_entry(s, off, None if batched else {"ver": ver}))
        off += s["size"]
    for s in v2[d + "_after_hdr"]:
        out.append(spec_entry(s, off))
        off += s["size"]
    if not batched:
        out.append(spec_entry(v2["fn"], off))
        off += v2["fn"]["size"]
    out += spec_burst(v2["burst"], off)
    if not batched:
        out.append({"off": None, "kind": "seq", "len": "rest", "pres": "always", "name": "bpdu"})
    return out


# -------------------------------------------------- data_msg writer layout

class MsgLayout:
    """Sequence of items gen_msg() appends to the buffer for one message
    class / version / legacy flag, extracted by walking the statements in
    order (branches on the version folded, helper methods inlined)."""

    def __init__(self, repo, ci, ver, legacy):
        self.repo, self.ci, self.ver = repo, ci, ver
        self.ev = Ev(repo, ci.mod, env={"self.ver": ver, "legacy": legacy}, self_cls=ci)
        self.items = []
        c, gm = repo.find_method(ci, "gen_msg")
        if gm is None:
            raise AnalysisError("anchor %s.gen_msg vanished" % ci.name)
        self.walk(gm.body, None, {}, 0)

    def walk(self, stmts, buf, defs, depth):
        if depth > 4:
            raise AnalysisError("gen_msg: inlining too deep")
        for st in stmts:
            if isinstance(st, ast.Expr) and isinstance(st.value, ast.Constant):
                continue
            if isinstance(st, ast.Return):
                if st.value is None or (isinstance(st.value, ast.Name)):
                    return "ret"
                st = ast.Expr(value=st.value)
            if isinstance(st, ast.Expr) and isinstance(st.value, ast.Call):
                c = st.value
                fn = canon(c.func)
                if buf is not None and fn == buf + ".append" and len(c.args) == 1:
                    self.items.append(("octet", c.args[0], dict(defs)))
                elif buf is not None and fn == buf + ".extend" and len(c.args) == 1:
                    self.items.append(("burst", c.args[0], dict(defs)))
                elif fn.startswith("self.") and fn.count(".") == 1:
                    pos = [i for i, a in enumerate(c.args) if isinstance(a, ast.Name) and a.id == buf]
                    if not pos:
                        continue
                    oc, m = self.repo.find_method(self.ci, c.func.attr)
                    if m is None:
                        raise AnalysisError("gen_msg: callee %s unresolved" % fn)
                    r = self.walk(m.body, params(m)[1 + pos[0]], {}, depth + 1)
                elif buf is not None and any(isinstance(x, ast.Name) and x.id == buf for x in ast.walk(c)):
                    raise AnalysisError("gen_msg: buffer use outside the vocabulary: %s" % canon(c)[:60])
                continue
            if isinstance(st, ast.AugAssign) and isinstance(st.target, ast.Name) and st.target.id == buf and isinstance(st.op, ast.Add):
                v = st.value
                if isinstance(v, ast.Call) and canon(v.func) == "struct.pack" and len(v.args) == 2 and isinstance(v.args[0], ast.Constant):
                    self.items.append(("pack", v.args[0].value, v.args[1], dict(defs)))
                elif isinstance(v, ast.Call) and canon(v.func) in ("bytearray", "bytes") and len(v.args) == 1:
                    try:
                        n = self.ev.ev(v.args[0])
                    except (Unknown, Raised):
                        raise AnalysisError("gen_msg: padding size does not fold")
                    self.items.append(("pad", n))
                else:
                    raise AnalysisError("gen_msg: buffer append outside the vocabulary: %s" % canon(st)[:60])
                continue
            if isinstance(st, ast.Assign) and len(st.targets) == 1 and isinstance(st.targets[0], ast.Name):
                if isinstance(st.value, ast.Call) and canon(st.value.func) == "bytearray" and not st.value.args:
                    buf = st.targets[0].id
                else:
                    defs[st.targets[0].id] = st.value
                continue
            if isinstance(st, ast.If):
                try:
                    t = bool(self.ev.ev(st.test))
                except (Unknown, Raised):
                    if canon(st.test) in ("self.burst is not None", "not self.burst is None"):
                        t = True
                    else:
                        raise AnalysisError("gen_msg: branch does not fold: %s" % canon(st.test)[:60])
                if self.walk(st.body if t else st.orelse, buf, defs, depth) == "ret":
                    return "ret"
                continue
            raise AnalysisError("gen_msg: statement outside the vocabulary: %s" % canon(st)[:60])
        return None

    def entries(self):
        """[(off, size, kind, name, neg | bits)] + burst offset + pad"""
        out, off, burst, pad = [], 0, None, 0
        for it in self.items:
            if it[0] == "octet":
                e = it[1]
                if isinstance(e, ast.Name) and e.id in it[2]:
                    e = it[2][e.id]
                if isinstance(e, ast.Call) and canon(e.func) == "self.gen_mts":
                    out.append((off, 1, "mts", "mts", None))
                else:
                    t = X.PyLower().lower(e)
                    out.append((off, 1) + classify_octet(t))
                off += 1
            elif it[0] == "pack":
                fmt, e = it[1], it[2]
                kinds = {">L": "be_u32", ">I": "be_u32", ">h": "be_i16", ">H": "be_u16", ">l": "be_i32", ">i": "be_i32",
                         "<L": "le_u32", "<h": "le_i16", "<H": "le_u16", "b": "i8", "B": "u8"}
                if fmt not in kinds:
                    raise AnalysisError("gen_msg: struct format %r outside the vocabulary" % fmt)
                t = X.PyLower().lower(e)
                if t[0] != "v" or not t[1].startswith("self."):
                    raise AnalysisError("gen_msg: packed expression outside the vocabulary: %s" % canon(e)[:60])
                out.append((off, struct.calcsize(fmt), kinds[fmt], t[1][5:], False))
                off += struct.calcsize(fmt)
            elif it[0] == "burst":
                if burst is not None:
                    raise AnalysisError("gen_msg: two bursts")
                burst = off
                off = None
            elif it[0] == "pad":
                pad += it[1]
        return out, burst, pad


def classify_octet(t):
    if t[0] == "v" and t[1].startswith("self."):
        return ("u8", t[1][5:], False)
    if t[0] == "*" and len(t) == 3 and t[1] == X.C(-1) and t[2][0] == "v" and t[2][1].startswith("self."):
        return ("u8", t[2][1][5:], True)
    if t[0] == "|":
        return ("bits", None, bit_positions(t))
    raise AnalysisError("gen_msg: octet expression outside the vocabulary: %s" % X.show(t)[:60])


def bit_positions(t):
    """{field: (shift, width | None)} of an OR of shifted / masked attributes"""
    parts = t[1:] if t[0] == "|" else (t,)
    out = {}
    for p in parts:
        shift, width = 0, None
        if p[0] == "*" and len(p) == 3 and X.is_c(p[1]) and p[1][1] > 0 and p[1][1] & (p[1][1] - 1) == 0:
            shift = p[1][1].bit_length() - 1
            p = p[2]
        if p[0] == "mod" and X.is_c(p[2]) and p[2][1] & (p[2][1] - 1) == 0:
            width = p[2][1].bit_length() - 1
            p = p[1]
        if p[0] != "v" or not p[1].startswith("self."):
            raise AnalysisError("bit expression outside the vocabulary: %s" % X.show(p)[:60])
        out[p[1][5:]] = (shift, width)
    return out


# ======================================================================= rules

PDUS = [("v0Rx", "PDUv0Rx", None), ("v0Tx", "PDUv0Tx", None), ("v1Rx", "PDUv1Rx", None), ("v1Tx", "PDUv1Tx", None),
        ("v2Rx", "PDUv2Rx", None), ("v2Tx", "PDUv2Tx", None), ("v2RxB", "PDUv2Rx", "BPDU"), ("v2TxB", "PDUv2Tx", "BPDU")]


def build_folded(L, repo):
    if not repo.has_mod("trxd_proto"):
        raise AnalysisError("anchor module trxd_proto.py vanished")
    tmod = repo.mod("trxd_proto")
    W = World(repo)
    out = {}
    for pid, cls, inner in PDUS:
        ci = tmod.classes.get(cls)
        if ci is None:
            raise AnalysisError("anchor class trxd_proto.%s vanished" % cls)
        if inner is None:
            try:
                obj = W.construct(ci, [], {})
            except (Unknown, Raised) as e:
                raise AnalysisError("%s() does not fold: %s" % (cls, e))
            out[pid] = (obj, W.describe(obj), cls)
        else:
            parent = out[pid[:-1]][1]
            seqs = [e for e in parent if e["kind"] == "seq"]
            if inner not in ci.inner:
                raise AnalysisError("anchor class trxd_proto.%s.%s vanished" % (cls, inner))
            if len(seqs) == 1 and isinstance(seqs[0]["item"], Obj) and seqs[0]["item"].ci is ci.inner[inner]:
                obj = seqs[0]["item"]          # the very instance the Sequence was built with
            else:
                obj = W.construct(ci.inner[inner], [], {})
            out[pid] = (obj, W.describe(obj), "%s.%s" % (cls, inner))
        L.fn(FP, out[pid][2])
    return W, out


def build(L, repo):
    """PDU objects + layout descriptors: by constant folding of the definitions' source with the codec constructors
    modelled by contract; where the folder cannot follow the source, by concrete evaluation of trxd_proto.py and
    codec.py (MWorld).  Both yield the same descriptors; how the definitions are written does not enter."""
    try:
        if os.environ.get("VERIF_C17_FORCE_EVAL") == "1":       # self-test of the fallback path
            raise AnalysisError("folding disabled by VERIF_C17_FORCE_EVAL")
        return build_folded(L, repo)
    except (AnalysisError, Unknown, Raised) as e1:
        try:
            W, out = build_evaluated(L, repo)
        except AnalysisError as e2:
            raise AnalysisError("%s; %s" % (e1, e2))
        L.extra.setdefault("notes", []).append("PDU definitions: constant folding stopped (%s); descriptors obtained by concrete evaluation" % str(e1)[:200])
        return W, out


def r1_structure(L, spec, W, pdus):
    R = "C17.R1"
    n = 0
    for pid, (obj, desc, cname) in pdus.items():
        want = spec_layout(spec, pid)
        got = [brief(e) for e in desc]
        line = obj.ci.node.lineno
        L.require(R, FP, cname, "%s: number of fields equals the documented layout" % cname, len(want), len(got), line=line)
        n += 1
        for i, w in enumerate(want):
            g = got[i] if i < len(got) else None
            if g is not None and w["kind"] in ("buf", "seq") and w["off"] is None:
                g = dict(g, off=None)          # position after a variable-length field: order is what counts
            if g is not None and w["kind"] == "buf":
                g = {k: v for k, v in g.items() if k != "name"}
            what = {"bits": "bit-field set %s" % w.get("fields"), "buf": "burst/padding octets (length: %s, presence: %s)" % (w.get("len"), w.get("pres")),
                    "seq": "sequence of batched sub-PDUs", "spare": "%d spare octet(s)" % w.get("size", 0)}.get(
                        w["kind"], "%s '%s'%s" % (w["kind"], w.get("name"), " (negated)" if w.get("neg") else ""))
            L.require(R, FP, cname, "%s field %d at octet %s: %s" % (cname, i, w["off"] if w["off"] is not None else "<after burst>", what),
                      w, g, line=line)
        for e in desc[len(want):]:
            L.ob(R, FP, cname, "%s: no field beyond the documented layout" % cname, "nothing", brief(e), False, line)
        # structural sanity: a field that swallows the rest may only be last
        for i, e in enumerate(desc[:-1]):
            if e["len"] == "rest":
                L.ob(R, FP, cname, "%s: only the last field may take all remaining octets" % cname, "last", "field %d (%s)" % (i, e.get("name")), False, line)
    L.floor(R, "envelopes", n, 8)


def burst_table(repo, W=None):
    """MTS.get_burst_len tabulated over all 16 codes of the 4-bit mod field.  The function is folded by the constant
    evaluator (with the class-body scope of MTS, so that class-level tables and constants resolve); whatever that
    evaluator cannot fold is evaluated by the concrete evaluator (rules.c16.Mach).  How the function computes the
    value (decision chain, lookup table, arithmetic) does not enter."""
    tmod = repo.mod("trxd_proto")
    mts = tmod.classes.get("MTS")
    if mts is None:
        raise AnalysisError("anchor trxd_proto.MTS.get_burst_len vanished")
    c0, m = repo.find_method(mts, "get_burst_len")
    if m is None:
        raise AnalysisError("anchor trxd_proto.MTS.get_burst_len vanished")
    W = W or World(repo)
    tab = {}
    mach = []

    def by_machine(code):
        from rules import c16
        if not mach:
            mm = c16.Mach(repo, fuel=200000)
            mach.append((mm, mm.getattr_(mm.getattr_(mm.module("trxd_proto"), "MTS"), "get_burst_len")))
        mm, f = mach[0]
        mm.fuel, mm.depth = 200000, 0
        try:
            return mm.call(f, [code], {})
        except c16.PyRaise as e:
            return "raises %s" % e.cls_name
        except c16.MachTimeout:
            return "does not terminate"
    for code in range(16):
        try:
            static = any(isinstance(d, ast.Name) and d.id == "staticmethod" for d in m.decorator_list)
            ps = params(m)
            if not static or len(ps) != 1:
                raise Unknown("not a one-argument static method")
            tab[code] = PEv(repo, c0.mod, W=W).call_func(m, c0.mod, [(ps[0], code)], self_cls=c0)
        except Raised as e:
            tab[code] = "raises %s" % e.cls
        except Unknown as e:
            from rules import c16
            try:
                tab[code] = by_machine(code)
            except c16.MachUnknown as e2:
                raise AnalysisError("MTS.get_burst_len does not fold for mod=%d: %s / %s" % (code, e, e2))
    return mts, m, tab


def r2_burst_len(L, repo, spec, W, pdus):
    R = "C17.R2"
    mts_ci, m, tab = burst_table(repo, W)
    fn = "MTS.get_burst_len"
    L.fn(FP, fn)
    mods = spec["mts"]["modulations"]
    width = spec["mts"]["mod_width"]
    assigned = {}
    for name, d in mods.items():
        for s in range(1 << d["set_bits"]):
            code = d["coding"] | s
            if code in assigned:
                raise AnalysisError("spec/trxd.json: modulation code %d assigned twice" % code)
            assigned[code] = (name, s, d["burst_len"])
    lens = sorted({d["burst_len"] for d in mods.values()})
    n = 0
    for code in range(1 << width):
        n += 1
        b = format(code, "0%db" % width)
        if code in assigned:
            name, s, bl = assigned[code]
            L.require(R, FP, fn, "get_burst_len(mod=0b%s) [%s with TSC set %d, as the message codec encodes it] returns that modulation's burst length" % (b, name, s),
                      bl, tab[code], line=m.lineno)
        else:
            ok = tab[code] == "raises ValueError" or tab[code] in lens
            L.ob(R, FP, fn, "get_burst_len(mod=0b%s) [not assigned by the modulation table] raises ValueError or returns a documented burst length" % b,
                 "raises ValueError | one of %s" % lens, tab[code], ok, m.lineno)
    L.floor(R, "modulation codes", n, 16)
    # data_msg.Modulation agrees with the table
    dmod = repo.mod("data_msg")
    L.unit(FD)
    mci = dmod.classes.get("Modulation")
    if mci is None:
        raise AnalysisError("anchor data_msg.Modulation vanished")
    mem = {x.name: x for x in Ev(repo, dmod).enum_members(mci)}
    L.require(R, FD, "Modulation", "message codec's modulation names equal the reference table", sorted(mods), sorted(mem), line=mci.node.lineno)
    for name in sorted(set(mods) & set(mem)):
        x = mem[name]
        L.require(R, FD, "Modulation", "Modulation.%s (coding, burst length) equals the reference table" % name,
                  (mods[name]["coding"], mods[name]["burst_len"]), (x.attrs.get("coding"), x.attrs.get("bl")), line=mci.node.lineno)
    # BurstBits: length by mod, absent iff nope
    nb = 0
    for pid, (obj, desc, cname) in pdus.items():
        for i, e in enumerate(desc):
            a = e["obj"].attrs
            if e["kind"] != "buf" or not isinstance(a.get("get_pres"), Lam):
                continue
            nb += 1
            line = a["get_pres"].node.lineno
            got = {}
            for nope in (0, 1):
                try:
                    got[nope] = W.apply(a["get_pres"], [{"nope": nope}])
                except Raised as ex:
                    got[nope] = "raises %s" % ex.cls
                except Unknown as ex:
                    raise AnalysisError("%s presence callback does not fold: %s" % (cname, ex))
            L.ob(R, FP, cname, "%s '%s': the burst is absent iff nope (presence callback folded over nope in {0,1}; only the bool False means absent)" % (cname, a["name"]),
                 {0: True, 1: False}, got, got[0] is True and got[1] is False, line)
            names_before = [x["name"] for d in desc[:i] if d["kind"] == "bits" for x in d["layout"]]
            L.ob(R, FP, cname, "%s '%s': nope and mod are decoded (by the MTS octet of the same envelope) before the burst field needs them" % (cname, a["name"]),
                 ["mod", "nope"], sorted(set(names_before) & {"mod", "nope"}), {"mod", "nope"} <= set(names_before), line)
    L.floor(R, "BurstBits fields", nb, 5)
    return tab


def _bit_domain(x):
    """values the encoder of one named bit field accepts (C16: every value below 2**bl; the fixed value if one is set)"""
    return [x["val"]] if x["val"] is not None else range(1 << x["bl"])


def r7_length_totality(L, repo, spec, W, pdus):
    """C17.R7 (exhaustive over the finite domain of the MTS octet).  Clauses decided: "decodes what it encodes" together
    with "the burst length is determined by the modulation bits", quantified "for all field values ..., all modulation
    codes".  A burst field whose length comes from a callback is encoded without the callback being consulted
    (Field.to_bytes() takes the value as it is; C16 decides that on codec.py) and the bit-field encoder accepts every
    value of the mod field, so every value of the bit-field set carrying `mod` is put on the wire with its burst.  The
    decoder of the same definition obtains the burst's extent from the length callback alone: for every value of that
    set under which the presence callback does not say "absent", the length callback must therefore return a length -
    if it raises (or returns no natural number) no burst at all decodes for that code and the definition refuses its own
    output.  Necessary for the property whatever lengths are documented: the rule demands a length, not a particular
    one (R2 compares the values).  The callbacks are folded - by the constant evaluator, or by the concrete evaluator
    when the definitions were built by it - over ALL values of the named bit fields of the set that carries `mod`
    (nope x mod x tsc: 256 values), no sampling; how the callback or MTS.get_burst_len computes the length does not
    enter."""
    import itertools
    R = "C17.R7"
    nb = 0
    nvals = 0
    for pid, (obj, desc, cname) in pdus.items():
        for i, e in enumerate(desc):
            a = e["obj"].attrs
            lam = a.get("get_len")
            if e["kind"] != "buf" or not isinstance(lam, Lam):
                continue
            # the bit-field set (decoded before this field) that carries the modulation code
            sets = [d for d in desc[:i] if d["kind"] == "bits" and any(x["name"] == "mod" and not x["spare"] for x in d["layout"])]
            if not sets:
                continue                        # length not driven by a modulation code (v0 Rx: R3)
            if len(sets) != 1:
                raise AnalysisError("%s: %d bit-field sets carry a field 'mod' before '%s'" % (cname, len(sets), a["name"]))
            named = [x for x in sets[0]["layout"] if not x["spare"]]
            size = 1
            for x in named:
                size *= len(_bit_domain(x))
            if size > 4096:
                raise AnalysisError("%s: the bit-field set carrying 'mod' has %d values - too many to enumerate" % (cname, size))
            # other fields decoded earlier: any value will do for a callback that is determined by the modulation bits;
            # a callback reading something that is not decoded yet raises KeyError in the toolkit as it does here
            base = {}
            for d in desc[:i]:
                if d["kind"] == "bits":
                    for x in d["layout"]:
                        if not x["spare"]:
                            base[x["name"]] = x["val"] if x["val"] is not None else 0
                elif "bo" in d:                 # integer field
                    base[d["name"]] = 0
            pres = a.get("get_pres") if isinstance(a.get("get_pres"), Lam) else None
            nb += 1
            line = lam.node.lineno if hasattr(lam.node, "lineno") else e["obj"].ci.node.lineno
            present = 0
            bad = {}
            memo = {}
            for combo in itertools.product(*[_bit_domain(x) for x in named]):
                v = dict(base)
                v.update((x["name"], c) for x, c in zip(named, combo))
                nvals += 1
                try:
                    if pres is not None and W.apply(pres, [dict(v)]) is False:
                        continue                # no burst announced (NOPE / IDLE indication)
                except Raised as ex:
                    raise AnalysisError("%s '%s': presence callback raises %s" % (cname, a["name"], ex.cls))
                except Unknown as ex:
                    raise AnalysisError("%s presence callback does not fold: %s" % (cname, ex))
                present += 1
                try:
                    got = W.apply(lam, [dict(v), b""])
                except Raised as ex:
                    got = "raises %s" % ex.cls
                except Unknown as ex:
                    raise AnalysisError("%s length callback %s does not fold: %s" % (cname, canon(lam.node)[:60], ex))
                if not (isinstance(got, int) and not isinstance(got, bool) and got >= 0):
                    bad.setdefault((v["mod"], brief_val(got)), []).append(v)
            want = "a length for each of the %d values that announce a burst" % present
            found = want
            if bad:
                mbl = [x["bl"] for x in named if x["name"] == "mod"][0]
                found = "length callback %s gives no length for " % canon(lam.node)[:80] + ", ".join(
                    "mod=0b%s (%s, for %d values with that code)" % (format(m, "0%db" % mbl), g, len(vs))
                    for (m, g), vs in sorted(bad.items(), key=lambda kv: (kv[0][0], str(kv[0][1]))))
            L.ob(R, FP, cname, "%s '%s': the length callback yields a burst length for every value of (%s) that announces a burst" %
                 (cname, a["name"], " x ".join("%s:%d" % (x["name"], x["bl"]) for x in named)),
                 want, found, not bad, line)
            if present == 0:
                raise AnalysisError("%s '%s': no value of the bit-field set announces a burst" % (cname, a["name"]))
    L.floor(R, "burst fields with a length by modulation", nb, 5)
    L.floor(R, "values of the MTS octet folded", nvals, 5 * 256)


def brief_val(v):
    return v if isinstance(v, str) else "returns %r" % (v,)


def r3_v0rx(L, repo, spec, W, pdus):
    R = "C17.R3"
    obj, desc, cname = pdus["v0Rx"]
    fn = "PDUv0Rx.__init__"
    L.fn(FP, fn)
    b = spec["Rx"]["0"]["burst"]
    lens, pad = b["lengths"], b["legacy_pad"]
    cbs = [e for e in desc if isinstance(e["obj"].attrs.get("get_len"), Lam)]
    if len(cbs) != 1:
        raise AnalysisError("PDUv0Rx: length callback not found (anchor vanished)")
    e = cbs[0]
    L.require(R, FP, fn, "the length callback is installed on the burst buffer", "buf", e["kind"], line=e["obj"].attrs["get_len"].node.lineno)
    if e["kind"] != "buf":
        return
    lam = e["obj"].attrs["get_len"]
    line = lam.node.lineno
    hdr = e["off"]
    L.require(R, FP, fn, "the length callback is installed on the field that starts where the v0 Rx header ends", spec["Rx"]["0"]["hdr_len"], hdr, line=line)
    idx_ = desc.index(e)
    rest = desc[idx_ + 1:]
    L.ob(R, FP, fn, "what the callback leaves over goes to one trailing optional padding buffer (takes all remaining octets, always present)",
         [("buf", "rest", "always")], [(x["kind"], x["len"], x["pres"]) for x in rest],
         [(x["kind"], x["len"], x["pres"]) for x in rest] == [("buf", "rest", "always")], line)
    n = 0
    for bl in lens:
        for p in sorted({0, pad}):
            remaining = bl + p
            try:
                got = W.apply(lam, [None, bytes(remaining)])
            except Raised as ex:
                got = "raises %s" % ex.cls
            except Unknown as ex:
                raise AnalysisError("PDUv0Rx length callback does not fold: %s" % ex)
            n += 1
            L.require(R, FP, fn, "soft-bits length callback: a v0 Rx datagram with a %d-octet burst and %d legacy padding octets (%d octets remaining after the header) yields burst length %d, the rest going to `pad`" % (
                bl, p, remaining, bl), bl, got, line=line)
    L.floor(R, "v0 Rx remaining lengths", n, 4)
    # threshold shape (for the record: which lengths map where)
    try:
        t = X.PyLower(env={canon(ast.parse("len(%s)" % lam.node.args.args[1].arg, mode="eval").body): X.V("remaining")}).lower(lam.node.body)
        L.extra.setdefault("notes", []).append("PDUv0Rx soft-bits length callback normal form: %s" % X.show(t))
    except Exception:      # purely informational
        pass


def r4_msg_codec(L, repo, spec, W, pdus):
    R = "C17.R4"
    dmod = repo.mod("data_msg")
    n = 0
    for d, cls in (("Tx", "TxMsg"), ("Rx", "RxMsg")):
        ci = dmod.classes.get(cls)
        if ci is None:
            raise AnalysisError("anchor data_msg.%s vanished" % cls)
        for ver in (0, 1):
            pid = "v%d%s" % (ver, d)
            obj, desc, cname = pdus[pid]
            ents, burst, pad = MsgLayout(repo, ci, ver, True).entries()
            L.fn(FD, "%s.gen_msg" % cls)
            fixed = [e for e in desc if e["kind"] not in ("buf", "seq")]
            got, want = [], []
            for e in fixed:
                if e["kind"] == "bits" and e["off"] == 0:
                    got.append((e["off"], e["size"], "bits", None, {x["name"]: (x["offset"], x["bl"]) for x in e["layout"] if not x["spare"]}))
                elif e["kind"] == "bits":
                    got.append((e["off"], e["size"], "mts", "mts", None))
                else:
                    got.append((e["off"], e["size"], e["kind"], ALIAS.get(e["name"], e["name"]), bool(e.get("neg"))))
            for m in ents:
                if m[2] == "bits":
                    # width of an unmasked field = up to the next field / the octet's end
                    bp = {}
                    for k, (sh, w) in m[4].items():
                        hi = min([s for s, _ in m[4].values() if s > sh] + [8])
                        bp[k] = (sh, w if w is not None else hi - sh)
                    # the version nibble occupies the top 4 bits; a reserved bit may separate fields
                    want.append((m[0], m[1], "bits", None, bp))
                else:
                    want.append(m)
            # header octet: compare shift exactly, width: definition's field must lie inside the writer's span
            ok = len(got) == len(want)
            diffs = []
            for g, w in zip(got, want):
                if g[2] == "bits" and w[2] == "bits":
                    for k in sorted(set(g[4]) | set(w[4])):
                        gs, ws = g[4].get(k), w[4].get(k)
                        if gs is None or ws is None or gs[0] != ws[0] or gs[1] > ws[1]:
                            ok = False
                            diffs.append((k, gs, ws))
                    if g[:2] != w[:2]:
                        ok = False
                        diffs.append((g[:2], w[:2]))
                elif g != w:
                    ok = False
                    diffs.append((g, w))
            n += 1
            L.ob(R, FP, cname, "%s header fields (offset, size, kind, name, negation; bit positions of ver/tn) equal what %s.gen_msg writes for version %d" % (cname, cls, ver),
                 [w[:4] + (w[4] if not isinstance(w[4], dict) else sorted(w[4].items()),) for w in want],
                 [g[:4] + (g[4] if not isinstance(g[4], dict) else sorted(g[4].items()),) for g in got] if not ok else "equal",
                 ok, obj.ci.node.lineno, note=str(diffs) if diffs else None)
            bursts = [e for e in desc if e["kind"] == "buf"]
            L.require(R, FP, cname, "%s: the burst starts where %s.gen_msg puts it (version %d)" % (cname, cls, ver), burst,
                      bursts[0]["off"] if bursts else None, line=obj.ci.node.lineno)
            hl = Ev(repo, dmod, env={"self.ver": ver}, self_cls=ci)
            try:
                hdr_len = hl.class_attr(ci, "HDR_LEN")
            except (Unknown, Raised) as ex:
                raise AnalysisError("%s.HDR_LEN does not fold: %s" % (cls, ex))
            L.require(R, FD, "%s.HDR_LEN" % cls, "%s header length for version %d equals the reference table and the definition's burst offset" % (cls, ver),
                      (spec[d][str(ver)]["hdr_len"], bursts[0]["off"] if bursts else None), (hdr_len, burst), line=ci.node.lineno)
            if d == "Rx" and ver == 0:
                L.require(R, FD, "Msg.gen_msg", "the message codec appends exactly the reference table's legacy padding to a v0 Rx datagram when asked to",
                          spec["Rx"]["0"]["burst"]["legacy_pad"], pad)
                _, _, pad0 = MsgLayout(repo, ci, ver, False).entries()
                L.require(R, FD, "Msg.gen_msg", "no padding without the legacy flag", 0, pad0)
            if ver == 1:
                _, _, pad1 = MsgLayout(repo, ci, ver, True).entries()
                L.require(R, FD, "Msg.gen_msg", "version 1 datagrams (%s) are never padded" % d, 0, pad1)
    L.floor(R, "message codec layouts", n, 4)
    # MTS bit positions
    rci = dmod.classes["RxMsg"]
    gm = rci.methods.get("gen_mts")
    if gm is None:
        raise AnalysisError("anchor RxMsg.gen_mts vanished")
    L.fn(FD, "RxMsg.gen_mts")
    fw = Fwd(split=True)
    fw.run(gm.body)
    ev = Ev(repo, dmod, self_cls=rci)

    def const(e):
        # only named constants (upper-case class attributes) and literals fold; message fields stay symbolic
        if not (isinstance(e, ast.Constant) or (isinstance(e, ast.Attribute) and e.attr.isupper())):
            return None
        try:
            v = ev.ev(e)
            return v if isinstance(v, int) and not isinstance(v, bool) else None
        except (Unknown, Raised):
            return None
    nope_val, pos = None, None
    for conds, r in fw.returns:
        if r is None:
            continue
        t = X.PyLower(const=const).lower(r)
        if X.is_c(t):
            nope_val = t[1]
        else:
            pos = bit_positions(t)
    if nope_val is None or pos is None:
        raise AnalysisError("RxMsg.gen_mts: shape unclassifiable")
    mts_sets = [e for e in pdus["v1Rx"][1] if e["kind"] == "bits" and e["off"] != 0]
    if len(mts_sets) != 1:
        raise AnalysisError("PDUv1Rx: MTS octet not found")
    lay = {x["name"]: x for x in mts_sets[0]["layout"] if not x["spare"]}
    defn = {"nope": 1 << lay["nope"]["offset"] if "nope" in lay else None,
            "coding shift": lay.get("mod", {}).get("offset"), "tsc_set shift": lay.get("mod", {}).get("offset"),
            "tsc": (lay.get("tsc", {}).get("offset"), lay.get("tsc", {}).get("bl"))}
    writer = {"nope": nope_val, "coding shift": pos.get("mod_type.coding", (None,))[0], "tsc_set shift": pos.get("tsc_set", (None,))[0],
              "tsc": pos.get("tsc")}
    L.require(R, FP, "MTS", "MTS bit positions (nope bit, modulation/TSC-set shift, TSC shift and width) equal what RxMsg.gen_mts writes",
              writer, defn, line=mts_sets[0]["obj"].ci.node.lineno)
    sm = spec["mts"]
    L.require(R, FP, "MTS", "MTS bit positions equal the reference table (nope bit, mod shift/width, tsc width)",
              {"nope_bit": sm["nope_bit"], "mod_shift": sm["mod_shift"], "mod_width": sm["mod_width"], "tsc_width": sm["tsc_width"]},
              {"nope_bit": lay.get("nope", {}).get("offset"), "mod_shift": lay.get("mod", {}).get("offset"),
               "mod_width": lay.get("mod", {}).get("bl"), "tsc_width": lay.get("tsc", {}).get("bl")}, line=mts_sets[0]["obj"].ci.node.lineno)


# ------------------------------------------------- evaluated rules (semantic: code folded over witnesses)

class _NullLedger:
    """build() registers functions on a ledger; when C16 borrows the descriptors nothing must be registered"""

    def __init__(self, repo):
        self.repo = repo.root
        self.extra = {}

    def fn(self, *a):
        pass

    def unit(self, *a):
        pass


def apply_cb(W, lam, args):
    from rules import c16
    try:
        return W.apply(lam, args)
    except Raised as ex:
        raise c16.RefErr(ex.cls)
    except Unknown as ex:
        raise AnalysisError("callback %s does not fold: %s" % (canon(lam.node)[:60], ex))


def ref_env(W, desc, check_len=True, name="Envelope"):
    """reference description (rules.c16.REnv: the documented block semantics) of a definition given by its layout
    descriptor; the definition's own callbacks are folded by the constant evaluator"""
    from rules import c16
    fields = []
    for e in desc:
        a = e["obj"].attrs
        cb = {}
        for attr, key in (("get_len", "getlen"), ("get_pres", "pres"), ("get_val", "getval")):
            lam = a.get(attr)
            if isinstance(lam, Lam):
                cb[key] = (lambda l: (lambda *args: apply_cb(W, l, list(args))))(lam)
        k = e["kind"]
        if k == "bits":
            f = c16.RBits([(x["name"] if not x["spare"] else None, x["bl"], x["val"]) for x in e["layout"]], None, e["size"])
            if cb:
                raise AnalysisError("bit-field set with callbacks")
        elif k == "spare":
            f = c16.RSpare(a["name"], a["len"], a["p"].get("filler"), **cb)
        elif k == "buf":
            f = c16.RBuf(a["name"], a["len"], **cb)
        elif k == "seq":
            item = e["item"]
            if not isinstance(item, Obj):
                raise AnalysisError("sequence item is not an envelope")
            f = c16.RSeqF(ref_env(W, W.describe(item), False, item.ci.name), a["name"], a["len"], **cb)
        elif k == "env":
            inner = e["item"]
            if not isinstance(inner, Obj):
                raise AnalysisError("nested envelope is not an envelope")
            f = c16.REnvF(ref_env(W, W.describe(inner), inner.attrs.get("check_len", True), inner.ci.name), a["name"], a["len"], **cb)
        else:
            f = c16.RIntSpec(a["name"], a["len"], e["bo"], e["sign"], a["p"].get("offset", 0), a["p"].get("mult", 1), **cb)
        fields.append(f)
    return c16.REnv(fields, check_len, name)


def definition_refs(lab):
    """[(qualified class name, reference description, constructor thunk for the evaluated class)] of the TRXD PDU
    envelopes - used by C16 (the toolkit's own compositions of the codec blocks) and by R6 below"""
    repo = lab.repo
    try:
        W, pdus = build(_NullLedger(repo), repo)
    except (Unknown, Raised) as e:
        raise AnalysisError("PDU definitions do not fold: %s" % e)
    tp = lab.m.module("trxd_proto")
    out = []
    for pid, (obj, desc, cname) in pdus.items():
        try:
            ref = ref_env(W, desc, True, cname)
        except (Unknown, Raised) as e:
            raise AnalysisError("%s: layout does not fold: %s" % (cname, e))
        cls = tp
        for part in cname.split("."):
            cls = lab.m.getattr_(cls, part)
        out.append((cname, ref, (lambda c: (lambda: lab.m.call(c, [], {})))(cls)))
    return out


def r6_value_level(L, repo):
    """R6 (value level, evaluated).  Clause decided on witnesses: "each declarative TRXD PDU definition ... decodes what it
    encodes ... a version-2 PDU with any number of batched sub-PDUs round-trips with every sub-PDU intact".  Every PDU
    class of trxd_proto is instantiated and evaluated by the concrete evaluator (codec.py and trxd_proto.py as they
    are) on value assignments generated from its own layout (0..8 batched sub-PDUs with differing BATCH flags, all
    burst lengths the length callbacks yield, NOPE indications); outcomes are compared with the block semantics
    applied to the layout R1 compares with the specification."""
    from rules import c16
    R = "C17.R6"
    try:
        lab = c16.Lab(repo)
        defs = definition_refs(lab)
    except (c16.MachUnknown, AnalysisError) as e:
        L.extra.setdefault("notes", []).append("[C17.R6] PDU definitions cannot be evaluated value-level: %s" % e)
        return None
    except c16.PyRaise as e:
        raise AnalysisError("evaluating codec.py / trxd_proto.py raises %s" % e.cls_name)
    n = 0
    fams = []
    for cname, ref, make in defs:
        fam = c16.Family(R, cname, "%s: to_bytes() yields the octets its layout declares, from_bytes(to_bytes(v)) returns v - every batched sub-PDU "
                         "included - consuming exactly the datagram, and re-encoding reproduces the octets" % cname)
        fams.append(fam)
        try:
            k = c16.eval_definition(lab, fam, ref, make, variants=12)
            if k == 0:
                fam.unknown = "no value assignment in the domain of the definition could be generated"
        except c16.MachUnknown as ex:
            fam.unknown = str(ex)
        except c16.PyRaise as ex:
            fam.fail("evaluating the definition raises %s outside any modelled outcome" % ex.cls_name)
        except c16.MachTimeout:
            fam.fail("evaluating the definition does not terminate (step budget exhausted)")
    return commit_families(L, fams, "PDU definitions evaluated value-level", 8)


def _mod_bursts(ref):
    """[(envelope, burst field)] of a reference description, batched item envelopes included: buffers whose length comes
    from a callback and that follow a `mod` bit field of the same envelope"""
    from rules import c16
    out, seen = [], False
    for f in ref.fields:
        if isinstance(f, c16.RBits):
            seen = seen or any(n == "mod" for n, bl, v in f.fields)
        elif isinstance(f, c16.RBuf) and f.getlen is not None and seen:
            out.append((ref, f))
        elif isinstance(f, c16.RSeqF):
            out += _mod_bursts(f.item)
    return out


def _neutral_vals(env, mod, flex, subs=()):
    """value assignment with every field at its neutral value, nope = 0, the given modulation code and a burst of exactly the
    length the burst field's own length callback (= what the decode direction consumes) yields for it; None outside the
    callback's domain (R2/R7 decide that).  `flex` collects the burst fields whose declared length is lifted: the reference
    outcome is the documented one (length by modulation only)."""
    from rules import c16
    vals = {}
    for f in env.fields:
        try:
            if isinstance(f, c16.RBits):
                for name, bl, val in f.fields:
                    if name is not None:
                        vals[name] = val if val is not None else (mod if name == "mod" else 0)
            elif f.absent(vals) or isinstance(f, c16.RSpare):
                continue
            elif isinstance(f, c16.RInt):
                vals[f.name] = f.offset
            elif isinstance(f, c16.RSeqF):
                vals[f.name] = [_neutral_vals(f.item, m, flex) for m in subs]
                if any(x is None for x in vals[f.name]):
                    return None
            elif isinstance(f, c16.RBuf):
                n = f.getlen(vals, bytes(4096)) if f.getlen is not None else f.len
                if isinstance(n, bool) or not isinstance(n, int) or not 0 <= n <= 4096:
                    return None
                vals[f.name] = bytes((mod * 16 + x) & 0xff for x in range(n))
                if f.getlen is not None and "mod" in vals:
                    flex.append(f)
            else:
                return None
        except c16.RefErr:
            return None
    return vals


def r8_encode_by_modulation(L, repo):
    """R8 (encode direction, evaluated).  Clauses: "the burst length is determined by the modulation bits" and "encodes to
    the documented octet layout and decodes what it encodes".  For every PDU class with a modulation-driven burst field
    (main part and batched sub-PDU) and every code 0..15 of `mod` for which the field's length callback yields a length n
    (the length the decode direction consumes), to_bytes() of a PDU carrying exactly n burst octets is evaluated by the
    concrete evaluator on codec.py / trxd_proto.py as they are - Field.to_bytes() with its check against self.len / DEF_LEN
    included: it must yield header + n octets (the block semantics with the length taken from the modulation alone), and
    from_bytes() of these octets must return the values.  A declared fixed length that contradicts the callback for some
    code makes that code decodable but not encodable."""
    from rules import c16
    R = "C17.R8"
    try:
        lab = c16.Lab(repo)
        defs = definition_refs(lab)
    except (c16.MachUnknown, AnalysisError) as e:
        L.extra.setdefault("notes", []).append("[C17.R8] PDU definitions cannot be evaluated value-level: %s" % e)
        return None
    except c16.PyRaise as e:
        raise AnalysisError("evaluating codec.py / trxd_proto.py raises %s" % e.cls_name)
    fams, ncodes = [], set()
    for cname, ref, make in defs:
        bursts = _mod_bursts(ref)
        if not bursts:
            continue
        own = [f for env, f in bursts if env is ref]
        sub = [f for env, f in bursts if env is not ref]
        for part, fld in [("main part", f) for f in own] + [("batched sub-PDU", f) for f in sub]:
            fam = c16.Family(R, cname, "%s '%s' (%s): for every modulation code the length callback assigns a burst length to, a PDU with a burst of "
                             "exactly that length encodes to header + burst (Field.to_bytes() length check included) and decodes back" % (cname, fld.name, part))
            fams.append(fam)
            modelled, noted = None, []
            try:
                try:
                    e = make()
                except c16.MachUnknown as ex:
                    e, modelled = None, str(ex)
                for code in range(16):
                    flex = []
                    v = _neutral_vals(ref, code if part == "main part" else 0, flex, () if part == "main part" else (code,))
                    if v is None:
                        continue
                    model = c16.ref_out(lambda: ref.encode(v))      # block semantics with the declared lengths
                    saved = [(f, f.len) for f in flex]
                    for f in flex:
                        f.len = 0
                    try:
                        want = c16.ref_out(lambda: ref.encode(v))
                        back = c16.dec_pair(ref, want[1]) if want[0] == "ok" else None
                    finally:
                        for f, n in saved:
                            f.len = n
                    if want[0] != "ok":
                        continue
                    burst = v.get(fld.name) if part == "main part" else v_sub_burst(v, fld.name)
                    if burst is None:
                        continue            # no burst announced for nope = 0: the presence rule (R2) decides that
                    ncodes.add(code)
                    what = "mod=0b%s, %d burst octets" % (format(code, "04b"), len(burst))
                    try:
                        if modelled:
                            raise c16.MachUnknown(modelled)
                        fam.check("to_bytes() of a PDU with %s" % what, lab.e_enc(e, v), want)
                    except c16.MachUnknown as ex:
                        # codec.py / trxd_proto.py not evaluable: Field.to_bytes() as C16 decides it, applied to the folded layout
                        if modelled not in noted:
                            modelled = str(ex)
                            noted.append(modelled)
                            L.extra.setdefault("notes", []).append("[C17.R8] %s: not evaluable (%s); encode direction folded with the modelled Field.to_bytes()" % (cname, modelled[:120]))
                        fam.check("to_bytes() of a PDU with %s (folded)" % what, model, want)
                        continue
                    if back is not None and back[0] == "ok" and back[1][1] == len(want[1]) and all(back[1][0].get(x) == y for x, y in v.items()):
                        fam.check("from_bytes() of the %d octets of a PDU with %s" % (len(want[1]), what), lab.e_dec(e, want[1]), back)
            except c16.MachUnknown as ex:
                fam.unknown = str(ex)
            except c16.PyRaise as ex:
                fam.fail("evaluating the definition raises %s outside any modelled outcome" % ex.cls_name)
            except c16.MachTimeout:
                fam.fail("evaluating the definition does not terminate (step budget exhausted)")
    V = commit_families(L, fams, "modulation-driven burst fields evaluated in the encode direction", 5)
    if not V.unknown:
        L.floor(R, "modulation codes with a burst length (encode direction)", len(ncodes), 14)
    return V


def v_sub_burst(v, name):
    for x in v.values():
        if isinstance(x, list) and x and isinstance(x[0], dict) and name in x[0]:
            return x[0][name]
    return None


def commit_families(L, fams, what, floor):
    from rules import c16
    n = 0
    want = "no counterexample among the evaluated witnesses"
    for f in fams:
        if f.unknown is not None and f.bad is None:
            continue
        n += 1
        L.ob(f.rule, FP, f.func, f.key, want, f.bad if f.bad is not None else want, f.bad is None)
    V = c16.Verdict(fams)
    if V.unknown:
        # the evaluated rule adds to R1..R5 (which decide the structure by folding): where the concrete evaluator cannot
        # follow the code this rule gives no verdict of its own and says so in the evidence
        L.extra.setdefault("notes", []).append("[%s] %s: not evaluable: %s" % (fams[0].rule if fams else "C17", what, V.unknown_text()))
    else:
        L.floor(fams[0].rule if fams else "C17", what, n, floor)
    return V


def r4_evaluated(L, repo, spec, W, pdus):
    """R4 (evaluated).  Clause: "every version-0/1 datagram produced by the message codec, including legacy-padded ones,
    is accepted by the corresponding definition with identical field values".  Witness messages (boundary header
    values, every modulation with every TSC set, GMSK and EDGE bursts, NOPE indications, legacy padding on/off) are
    generated by TxMsg/RxMsg.gen_msg() under the concrete evaluator and handed to the evaluated PDU class; the
    decoded values must be the message's fields.  How gen_msg assembles the octets does not enter.  The definition gets
    the datagram as produced - the object gen_msg() returned (a bytearray stays a mutable, unhashable buffer) - and the
    same octets as bytes; a decode that hashes its input (functools.lru_cache, a dict keyed by the octets) rejects the former."""
    from rules import c16
    import array as _array
    R = "C17.R4"
    try:
        lab = c16.Lab(repo)
        m = lab.m
        dm = m.module("data_msg")
        tp = m.module("trxd_proto")
        Mod = m.getattr_(dm, "Modulation")
    except c16.MachUnknown as e:
        raise AnalysisError("data_msg.py / trxd_proto.py cannot be evaluated: %s" % e)
    except c16.PyRaise as e:
        raise AnalysisError("evaluating data_msg.py / trxd_proto.py raises %s" % e.cls_name)
    L.unit(FD)
    fams = []
    burst_names = {}
    for pid in ("v0Rx", "v0Tx", "v1Rx", "v1Tx"):
        burst_names[pid] = [e["obj"].attrs["name"] for e in pdus[pid][1] if e["kind"] == "buf"]

    def message(cls, attrs):
        msg = m.call(m.getattr_(dm, cls), [], {})
        for k, v in attrs.items():
            m.setattr_(msg, k, v)
        return msg

    def one(fam, pid, cls, attrs, expect, legacy, what):
        pdu = m.call(m.getattr_(tp, pdus[pid][2]), [], {})
        # the domain is what the message codec itself accepts: a message its validate() rejects yields no datagram
        v = lab.run(lambda: lab.meth(message(cls, attrs), "validate"))
        if v[0] == "raise":
            fam.skipped = getattr(fam, "skipped", 0) + 1
            return
        p = lab.run(lambda: lab.meth(message(cls, attrs), "gen_msg", legacy))
        if p[0] == "ok" and not isinstance(p[1], (bytes, bytearray, memoryview)):
            raise c16.MachUnknown("gen_msg() returns a %s object" % type(p[1]).__name__)
        d = (p[0], bytes(p[1])) if p[0] == "ok" else p
        if d[0] != "ok":
            fam.fail("%s: validate() accepts the message but gen_msg() does not produce a datagram (%s)" % (what, c16.fmt_out(d)))
            return
        # the definition gets the datagram AS PRODUCED (the object gen_msg() returned: a mutable buffer stays one) and
        # the same octets as the immutable bytes a socket delivers; both must be accepted, with the same values
        got = lab.e_dec(pdu, p[1])
        if got[0] != "ok":
            fam.fail("%s: datagram %s... (%d octets, the %s object gen_msg() returned) is not accepted by the definition (%s)" % (
                what, d[1][:12].hex(), len(d[1]), type(p[1]).__name__, c16.fmt_out(got)))
            return
        if type(p[1]) is not bytes:
            alt = lab.e_dec(m.call(m.getattr_(tp, pdus[pid][2]), [], {}), d[1])
            if alt[0] != "ok":
                fam.fail("%s: datagram %s... (%d octets, as bytes) is not accepted by the definition (%s)" % (what, d[1][:12].hex(), len(d[1]), c16.fmt_out(alt)))
                return
            if alt[1] != got[1]:
                fam.fail("%s: datagram %s... decodes differently as bytes and as the %s gen_msg() returned" % (what, d[1][:12].hex(), type(p[1]).__name__))
                return
        vals, n = got[1]
        vals = {ALIAS.get(k, k): v for k, v in vals.items()}
        diff = {k: (vals.get(k, "<absent>"), v) for k, v in expect.items() if (vals.get(k, "<absent>") != v)}
        if n != len(d[1]):
            diff["<octets consumed>"] = (n, len(d[1]))
        if diff:
            fam.fail("%s: datagram %s... decodes with other field values: %s" % (
                what, d[1][:12].hex(), ", ".join("%s = %r (message: %r)" % (k, a, b) for k, (a, b) in sorted(diff.items()))[:300]))
        else:
            fam.ok()

    hdrs = [(0, 0), (0x123456, 5), (2715647, 7), (1, 3)]      # fn < GSM hyperframe (2715648)
    # ---- Tx ----
    for ver in (0, 1):
        pid = "v%dTx" % ver
        fam = c16.Family(R, pdus[pid][2], "%s accepts every datagram TxMsg.gen_msg() produces for version %d with identical field values "
                         "(ver, tn, fn, pwr, hard bits; GMSK and EDGE bursts)" % (pdus[pid][2], ver))
        fams.append(fam)
        try:
            bn = burst_names[pid]
            if len(bn) != 1:
                raise AnalysisError("%s: expected one burst field" % pid)
            for i, (fn, tn) in enumerate(hdrs):
                for pwr in (0, 255, 37):
                    bl = (148, 444)[(i + pwr) % 2]
                    burst = bytearray(((x * 7 + i) >> 1) & 1 for x in range(bl))
                    exp = {"ver": ver, "tn": tn, "fn": fn, "pwr": pwr, bn[0]: bytes(burst)}
                    for legacy in ((False, True) if ver == 1 else (False,)):      # (a legacy-padded v0 Tx datagram is outside the reference table)
                        one(fam, pid, "TxMsg", {"ver": ver, "fn": fn, "tn": tn, "pwr": pwr, "burst": burst}, exp, legacy,
                            "TxMsg(ver=%d, fn=%d, tn=%d, pwr=%d, %d bits).gen_msg(legacy=%s)" % (ver, fn, tn, pwr, bl, legacy))
        except c16.MachUnknown as ex:
            fam.unknown = str(ex)
        except c16.PyRaise as ex:
            fam.fail("evaluation raises %s outside any modelled outcome" % ex.cls_name)
        except c16.MachTimeout:
            fam.fail("evaluation does not terminate (step budget exhausted)")
    # ---- Rx ----
    members = list(Mod.enum_members or [])
    if len(members) < 2:
        raise AnalysisError("data_msg.Modulation: members not found")
    for ver in (0, 1):
        pid = "v%dRx" % ver
        fam = c16.Family(R, pdus[pid][2], "%s accepts every datagram RxMsg.gen_msg() produces for version %d with identical field values "
                         "(ver, tn, fn, rssi, toa256%s, soft bits%s)" % (
                             pdus[pid][2], ver, ", nope/mod/tsc, C/I; every modulation with every TSC set, NOPE indications" if ver else "",
                             "; legacy padding on/off" if ver == 0 else "; the legacy flag adds nothing"))
        fams.append(fam)
        try:
            bn = burst_names[pid]
            cases = []
            if ver == 0:
                for i, (fn, tn) in enumerate(hdrs):
                    for j, (rssi, toa) in enumerate(((-120, -32768), (-47, 32767), (-110, -3))):
                        for legacy in (False, True):
                            cases.append((fn, tn, rssi, toa, None, None, None, None, (148, 444)[(i + j) % 2], False, legacy))
            else:
                k = 0
                for mem in members:
                    coding = m.getattr_(mem, "coding")
                    bl = m.getattr_(mem, "bl")
                    gmsk = m.getattr_(mem, "_name_") == "ModGMSK"
                    for ts in range(4 if gmsk else 2):
                        fn, tn = hdrs[k % 4]
                        rssi, toa = ((-120, -32768), (-47, 32767), (-110, -3))[k % 3]
                        cases.append((fn, tn, rssi, toa, mem, ts, (0, 3, 7)[k % 3], (-1280, 16, 1280)[k % 3], bl, False, bool(k % 2)))
                        k += 1
                for k, (fn, tn) in enumerate(hdrs[:2]):
                    cases.append((fn, tn, -60, 0, members[0], 0, 0, 0, None, True, bool(k)))
            for fn, tn, rssi, toa, mem, ts, tsc, ci, bl, nope, legacy in cases:
                attrs = {"ver": ver, "fn": fn, "tn": tn, "rssi": rssi, "toa256": toa}
                exp = {"ver": ver, "tn": tn, "fn": fn, "rssi": rssi, "toa256": toa}
                if bl is not None:
                    sb = [((x * 37 + tn * 11 + fn) % 255) - 127 for x in range(bl)]
                    attrs["burst"] = _array.array("b", sb)
                    exp[bn[0]] = bytes(127 - x for x in sb)
                if ver == 0:
                    if len(bn) > 1:
                        exp[bn[1]] = b"\x00\x00" if legacy else b""
                else:
                    attrs.update(ci=ci, nope_ind=nope)
                    exp["ci"] = ci
                    if nope:
                        exp.update(nope=1)
                    else:
                        attrs.update(mod_type=mem, tsc_set=ts, tsc=tsc)
                        exp.update(nope=0, mod=m.getattr_(mem, "coding") | ts, tsc=tsc)
                what = "RxMsg(ver=%d, fn=%d, tn=%d, rssi=%d, toa256=%d%s%s).gen_msg(legacy=%s)" % (
                    ver, fn, tn, rssi, toa, "" if mem is None or nope else ", %s, tsc_set=%d, tsc=%d, ci=%d" % (m.getattr_(mem, "_name_"), ts, tsc, ci),
                    ", NOPE" if nope else ", %d soft bits" % bl, legacy)
                one(fam, pid, "RxMsg", attrs, exp, legacy, what)
                if nope:
                    pdu = m.call(m.getattr_(tp, pdus[pid][2]), [], {})
                    d = lab.run(lambda: bytes(lab.meth(message("RxMsg", attrs), "gen_msg", legacy)))
                    if d[0] == "ok":
                        got = lab.e_dec(pdu, d[1])
                        if got[0] == "ok" and bn[0] in got[1][0]:
                            fam.fail("%s: a NOPE indication decodes with a burst" % what)
        except c16.MachUnknown as ex:
            fam.unknown = str(ex)
        except c16.PyRaise as ex:
            fam.fail("evaluation raises %s outside any modelled outcome" % ex.cls_name)
        except c16.MachTimeout:
            fam.fail("evaluation does not terminate (step budget exhausted)")
    for fam in fams:
        if fam.bad is None and fam.unknown is None and fam.n < 6:
            fam.unknown = "the message codec's validate() rejects the witness messages (%d of %d)" % (getattr(fam, "skipped", 0), getattr(fam, "skipped", 0) + fam.n)
    return fams


def r5_batching(L, repo, spec, W, pdus, tab):
    R = "C17.R5"
    n = 0
    for pid in ("v2Rx", "v2Tx"):
        obj, desc, cname = pdus[pid]
        line = obj.ci.node.lineno
        seqs = [(i, e) for i, e in enumerate(desc) if e["kind"] == "seq"]
        L.require(R, FP, cname, "%s has exactly one sequence field" % cname, 1, len(seqs), line=line)
        if len(seqs) != 1:
            continue
        i, e = seqs[0]
        n += 1
        L.require(R, FP, cname, "%s: `bpdu` is a Sequence field of flexible length (takes all remaining octets), always present, placed last" % cname,
                  ("bpdu", "rest", "always", len(desc) - 1), (e["name"], e["len"], e["pres"], i), line=line)
        item = e["item"]
        if not isinstance(item, Obj):
            raise AnalysisError("%s: sequence item is not an envelope" % cname)
        L.require(R, FP, cname, "%s: the batched item is the BPDU envelope of the same class" % cname, "%s.BPDU" % cname,
                  "%s.%s" % (cname, item.ci.name) if item.ci in obj.ci.inner.values() else item.ci.name, line=line)
        L.require(R, FP, cname, "%s: the item envelope's tail check is disabled (by Sequence.__init__), the outer envelope's is on" % cname,
                  (False, True), (item.attrs.get("check_len"), obj.attrs.get("check_len")), line=line)
        bdesc = pdus[pid + "B"][1]
        names = [x["name"] for d in bdesc if d["kind"] == "bits" for x in d["layout"] if not x["spare"]] + \
                [d.get("name") for d in bdesc if d["kind"] not in ("bits",)]
        L.ob(R, FP, cname, "%s: batched sub-PDUs carry neither a version nibble nor a frame number" % cname, "no ver, no fn",
             sorted(set(names) & {"ver", "fn"}), not (set(names) & {"ver", "fn"}), line)
    L.floor(R, "batched PDU classes", n, 2)
    # every burst field's length is driven by its own envelope's mod
    nb = 0
    for pid, (obj, desc, cname) in pdus.items():
        if not pid.startswith(("v1Rx", "v2")):
            continue
        for e in desc:
            a = e["obj"].attrs
            if e["kind"] != "buf":
                continue
            lam = a.get("get_len")
            if not isinstance(lam, Lam):
                L.ob(R, FP, cname, "%s '%s': burst length is driven by the modulation" % (cname, a["name"]), "length callback", cb_kind(lam), False, obj.ci.node.lineno)
                continue
            got = {}
            for code in range(16):
                try:
                    got[code] = W.apply(lam, [{"mod": code}, b""])
                except Raised as ex:
                    got[code] = "raises %s" % ex.cls
                except Unknown as ex:
                    raise AnalysisError("%s length callback does not fold: %s" % (cname, ex))
            nb += 1
            L.require(R, FP, cname, "%s '%s': the burst length callback depends only on this envelope's own `mod` and equals MTS.get_burst_len for all 16 codes" % (cname, a["name"]),
                      tab, got, line=lam.node.lineno)
    L.floor(R, "burst fields with a modulation-driven length", nb, 5)


def r5_sub_pdu_lists(L, repo):
    """R5 (batching, per decode).  Clause decided: "a version-2 PDU with any number of batched sub-PDUs round-trips
    with every sub-PDU intact" - for every PDU decoded by a process, not only the first.  PDUv2Rx/Tx hand their
    `bpdu` octets to codec.Sequence.from_bytes; the list of sub-PDUs it yields must be created by that decode.
    One list object outliving the call (default-argument / class-level / module-level object that is only ever
    appended to) makes every later PDU also carry the sub-PDUs of the earlier ones.  Decided by C16's
    result-ownership analysis (rules.c16.r6_ownership) on the resolved origin of the returned object."""
    from rules import c16
    c16.r6_ownership(L, repo, R="C17.R5",
                     key="batched sub-PDUs: the `bpdu` list a decode yields (codec.Sequence.from_bytes) is created by that "
                         "decode - not one default-argument, class-level or module-level object that still holds the "
                         "sub-PDUs of PDUs decoded earlier")


def build_all(L, repo):
    spec = load_spec()
    W, pdus = build(L, repo)
    return spec, W, pdus


def run(L, tier):
    from rules import c16
    repo = Repo(L.repo)
    L.unit(FP)
    L.unit(rel("codec"))
    from report import STAGE_FAILED
    b = L.stage(build_all, L, repo)
    if b is not STAGE_FAILED:
        spec, W, pdus = b
        L.stage(r1_structure, L, spec, W, pdus)
        tab = L.stage(r2_burst_len, L, repo, spec, W, pdus)
        L.stage(r3_v0rx, L, repo, spec, W, pdus)
        L.stage(r7_length_totality, L, repo, spec, W, pdus)
        # R4: decided by evaluating the message codec's datagrams against the evaluated definitions; the extraction of
        # the writer layout from the statements of gen_msg() is a proof attempt for all field values that is reported
        # only along with an evaluated counterexample
        fams = L.stage(r4_evaluated, L, repo, spec, W, pdus)
        if fams is STAGE_FAILED:
            V = c16.Verdict(None, error=L.deficits.pop() if L.deficits else "R4 not evaluable")
        else:
            V = c16.Verdict(fams)
            want = "no counterexample among the evaluated witnesses"
            n = 0
            for f in fams:
                if f.unknown is None or f.bad is not None:
                    n += 1
                    L.ob(f.rule, FP, f.func, f.key, want, f.bad if f.bad is not None else want, f.bad is None)
            if not V.unknown:
                L.floor("C17.R4", "message codec layouts (evaluated)", n, 4)
            else:
                L.extra.setdefault("notes", []).append("[C17.R4] message codec not evaluable: %s" % V.unknown_text())
        c16.symbolic(L, V, r4_msg_codec, repo, spec, W, pdus)
        L.stage(r5_batching, L, repo, spec, W, pdus, tab)
    # R6 evaluates every PDU class on several datagrams one after the other (same object): it is also the semantic decision
    # for "every decode yields its own sub-PDU list", of which the origin analysis below is the proof attempt for all inputs
    V6 = L.stage(r6_value_level, L, repo)
    if V6 is STAGE_FAILED or V6 is None:
        V6 = c16.Verdict(None, error="PDU definitions not evaluable value-level")
    c16.symbolic(L, V6, r5_sub_pdu_lists, repo)
    # R8: the encode direction of every modulation-driven burst field, all 16 codes (independent of R6's witnesses)
    L.stage(r8_encode_by_modulation, L, repo)
