# C14 -- no datagram or capture content can crash the tools.

import ast
import re
from pyfront import clone as _clone
import os

from report import AnalysisError
from pyfront import (Repo, CFG, canon, guard_literals, literals, qualname,
                     calls_in, enclosing_func, TK)
from pyutil import params, deep_subst, find_calls, lit_fmt, rel, branch_subst, close_subst
from escape import Escape
from lencheck import LenCheck
from consteval import fold, Unknown, Ev, Raised
import exprnf as X

EXPLANATION = (
    "Exception-escape + taint analysis from the socket/file reads: every "
    "partial operation applied to received data (decode, int(), constant "
    "subscripts, struct.unpack, %, randint, sleep) and every raise reachable "
    "from the data path, the control path and the capture reader must be "
    "caught before it leaves the thread's top-level entry or be made total by a "
    "dominating check; length-guard intervals prove every index/unpack of the "
    "TRXD parser for every header version; attributes stored from received "
    "integers and used in partial operations on other paths (clock thread) "
    "must be sanitised where stored or guarded where used; for trxcon (clang "
    "AST of trx_if.c) pointers that may be NULL (strchr) must not be offset or "
    "dereferenced unguarded and received-buffer stores stay in bounds.")
ASSUMPTIONS = [
    "str.split() returns at least one element (request[0] is total)",
    "callee resolution by class hierarchy + method name inside the flat toolkit namespace; unresolved callees with tainted arguments end the analysis (exit 2)",
    "'goes on serving subsequent commands correctly' is decided only as: no exception/UB path exists and state stores are guarded",
    "OS errors and resource exhaustion are out of scope",
]


def r1_parser(L, repo):
    F = rel("data_msg")
    L.unit(F)
    known = list(fold(repo, repo.mod("data_msg"), ast.parse("Msg.KNOWN_VERSIONS", mode="eval").body))
    n_acc = 0
    for cls in ("TxMsg", "RxMsg"):
        ci = repo.need_class("data_msg", cls)
        L.fn(F, cls + ".parse_msg")
        c0, init0 = repo.find_method(ci, "__init__")
        dflt = None
        if init0 is not None:
            ps0 = [a.arg for a in init0.args.args]
            if "ver" in ps0:
                i = ps0.index("ver") - (len(ps0) - len(init0.args.defaults))
                if 0 <= i < len(init0.args.defaults):
                    dflt = fold(repo, ci.mod, init0.args.defaults[i])
        if dflt is None:
            raise AnalysisError("default header version of %s does not fold" % cls)
        for v in range(0, 16):
            lc = LenCheck(repo, ci, {"self.ver": v}, initial={"self.ver": dflt})
            acc = lc.run("parse_msg")
            for node, ecls, qn in lc.raises:
                if ecls != "ValueError":
                    L.ob("C14.R1", F, qn, "%s, version %d: `%s` signals only ValueError" % (cls, v, canon(node)[:50]),
                         "ValueError", ecls, False, node.lineno)
            for a in acc:
                n_acc += 1
                L.ob("C14.R1", F, a.func, "%s, version %d: %s is inside the length proven by the guards" % (cls, v, a.what),
                     a.need, a.have, a.ok, a.node.lineno)
            if v not in known:
                # octets of the common header (version + TN, frame number) are the same in every version: reading them
                # before the version test is harmless; what must not be read are octets behind the common header
                chl = Ev(repo, ci.mod, self_cls=ci).ev(ast.parse("self.CHDR_LEN", mode="eval").body)
                def need_of(a_):
                    m_ = re.match(r"len >= (\d+)", str(a_.need))
                    return int(m_.group(1)) if m_ else None
                deep = [a for a in acc if not (need_of(a) is not None and isinstance(chl, int) and need_of(a) <= chl)
                        and not a.what.startswith("msg[0]") and "[0]" not in a.what]
                L.ob("C14.R1", F, cls + ".parse_msg", "%s: unknown version %d is rejected before any version-specific field is read" % (cls, v),
                     [], [a.what for a in deep], not deep)
            # HDR_LEN must fold (not raise IndexError) for every known version
            if v in known:
                try:
                    Ev(repo, ci.mod, env={"self.ver": v}, self_cls=ci).ev(ast.parse("self.HDR_LEN", mode="eval").body)
                    ok = True
                except Raised as e:
                    ok = False
                L.ob("C14.R1", F, cls + ".HDR_LEN", "%s.HDR_LEN is defined for known version %d (IndexError branch unreachable)" % (cls, v),
                     "folds", "folds" if ok else "raises", ok)
        # explicit raises reachable from parse_msg
        es = Escape(repo, sources=())
        es.run(ci, "parse_msg", tainted=["msg"])
        seen = set()
        for s in es.sites:
            if s.kind != "raise" or id(s.node) in seen:
                continue
            seen.add(id(s.node))
            if s.func.endswith(".HDR_LEN"):
                continue     # shown unreachable above
            L.ob("C14.R1", F, s.func, "parser signals `%s` with ValueError only" % canon(s.node)[:60], "ValueError", s.exc,
                 s.exc == "ValueError" or s.caught is not None, s.node.lineno)
    L.floor("C14.R1", "buffer accesses checked in parse_msg (all versions)", n_acc, 30)
    return all(o.ok for o in L.obs if o.rule == "C14.R1")


def r12_tokens(L, repo):
    """The assumption behind `request[0]` ("index 0 of a split() result") is only true for split WITH a separator:
    `"".split(" ") == [""]` but `"".split() == []`.  The token list the control interface hands to its command
    handlers must have a verb slot for EVERY datagram that passes the signature test - including the bare signature
    a truncated command leaves behind ("CMD", "CMD\0", "CMD  \0\0", "CMD \t \0").  Decided by folding
    CTRLInterface.prepare_req() on those hostile witnesses (result: a list of at least one string); the structural
    record proves it for all inputs when every returned value is `<str>.split(<separator>)`."""
    FCI = rel("ctrl_if")
    ci, pr = repo.need_method("ctrl_if", "CTRLInterface", "prepare_req")
    L.unit(FCI)
    L.fn(FCI, "CTRLInterface.prepare_req")
    P = params(pr)[1]
    memo = {}

    def empty_ok():
        # an empty token list is harmless when the verb matcher is total on it, or when the receive path tests the
        # list before handing it to the command handlers
        if "r" in memo:
            return memo["r"]
        ok_ = False
        c2, vc = repo.find_method(ci, "verify_cmd")
        if vc is not None:
            ps = params(vc)
            e2 = Ev(repo, c2.mod, env={ps[1]: [], ps[2]: "POWERON", ps[3]: 0}, self_cls=ci)
            try:
                e2.run_block(vc.body)
                ok_ = True
            except (Unknown, Raised):
                ok_ = False
        c3, hr = repo.find_method(ci, "handle_rx")
        if not ok_ and hr is not None:
            cfg = CFG(hr)
            for c_ in find_calls(hr, attr="parse_cmd"):
                arg = canon(c_.args[0]) if c_.args else None
                lits = guard_literals(cfg, cfg.node_of(c_))
                if arg and any(re.search(r"\b%s\b" % re.escape(arg), t) for t, p_ in lits):
                    ok_ = True
        memo["r"] = ok_
        return ok_
    wit = ["CMD","CMD\0", "CMD ", "CMD  \0\0", "CMD \t \0", "CMD\0\0\0\0", "CMD\n", "CMDX", "CMD POWERON", "CMD  SETTA  1 \0",
           "CMD \0 \0", "CMD\t\0"]
    for w in wit:
        e = Ev(repo, ci.mod, env={P: w}, self_cls=ci)
        e.ignore_calls = ("log.", "logging.")
        try:
            r = e.run_block(pr.body)
            got = r[1] if isinstance(r, tuple) else None
        except Unknown as ex:
            raise AnalysisError("prepare_req does not fold for %r: %s" % (w, ex))
        except Raised as ex:
            got = "raises %s" % ex.cls
        ok = isinstance(got, list) and len(got) >= 1 and all(isinstance(x, str) for x in got)
        if got == []:
            ok = empty_ok()
        L.ob("C14.R12", FCI, "CTRLInterface.prepare_req", "datagram %r yields a token list with a verb slot (request[0] is total)" % w,
             "a list of at least one string", got, ok, pr.lineno)

    def shape():
        rets = [n for n in ast.walk(pr) if isinstance(n, ast.Return)]
        fs = deep_subst(pr)
        for r_ in rets:
            v = r_.value
            txt = canon(v, fs) if v is not None else None
            ok = False
            try:
                c_ = ast.parse(txt, mode="eval").body if txt else None
                ok = isinstance(c_, ast.Call) and isinstance(c_.func, ast.Attribute) and c_.func.attr == "split" and len(c_.args) >= 1 \
                    and not (isinstance(c_.args[0], ast.Constant) and c_.args[0].value is None)
            except SyntaxError:
                pass
            L.ob("C14.R12", FCI, "CTRLInterface.prepare_req", "returned token list is a split on an explicit separator (never empty, for all inputs)",
                 "<str>.split(<separator>)", txt, ok, r_.lineno)
    L.structural("C14.R12 token list is never empty for all inputs (split with a separator)", shape)


def site_key(s):
    ctx = ""
    cur = getattr(s.node, "_parent", None)
    while cur is not None:
        if isinstance(cur, ast.If):
            for (t, p) in literals(cur.test, True):
                if p and "verify_cmd(" in t and any(s.node is x for b in cur.body for x in ast.walk(b)):
                    try:
                        c = ast.parse(t, mode="eval").body
                        ctx = " [%s/%s]" % (c.args[1].value, c.args[2].value)
                    except Exception:
                        pass
            if ctx:
                break
        cur = getattr(cur, "_parent", None)
    return "%s%s in %s may raise %s" % (s.desc, ctx, s.func, s.exc)


def arity_guard(es, s, repo):
    """constant subscript request[i]: proven by a dominating verify_cmd(request, VERB, n) with n >= i"""
    _, base, idx, st = s.guard
    if idx == 0:
        return "index 0 of a split() result"
    fd = enclosing_func(s.node)
    if fd is None or isinstance(fd, ast.Lambda):
        return None
    cfg = es.cfg(fd)
    try:
        node = cfg.node_of(s.node)
    except AnalysisError:
        return None
    # `base.insert(k, x)` / `base.append(x)` executed unconditionally before the access lengthen the list: a split()
    # result has at least one element, every dominating insert at an index within the known length adds one
    minlen = 1
    grew = []
    for c_ in ast.walk(fd):
        if isinstance(c_, ast.Call) and isinstance(c_.func, ast.Attribute) and canon(c_.func.value) == base \
                and c_.func.attr in ("insert", "append"):
            try:
                if cfg.dominates(cfg.node_of(c_), node) and cfg.node_of(c_) is not node:
                    grew.append(c_)
            except AnalysisError:
                pass
    for c_ in sorted(grew, key=lambda x: x.lineno):
        if c_.func.attr == "append":
            minlen += 1
        elif c_.args and isinstance(c_.args[0], ast.Constant) and isinstance(c_.args[0].value, int) and 0 <= c_.args[0].value <= minlen:
            minlen += 1
    if isinstance(idx, int) and 0 <= idx < minlen:
        return "list of at least %d elements (split() result lengthened by %d dominating insert/append)" % (minlen, minlen - 1)
    for (t, p) in guard_literals(cfg, node):
        if not p or ".verify_cmd(%s, " % base not in t:
            continue
        try:
            call = ast.parse(t, mode="eval").body
            argc = call.args[2].value
        except Exception:
            continue
        if isinstance(argc, int) and argc >= idx:
            return t
    return None


def _tri(test, env, konst):
    """three-valued truth of a condition by interval arithmetic: True / False / None (unknown)"""
    if isinstance(test, ast.UnaryOp) and isinstance(test.op, ast.Not):
        v = _tri(test.operand, env, konst)
        return None if v is None else (not v)
    if isinstance(test, ast.BoolOp):
        vs = [_tri(v, env, konst) for v in test.values]
        if isinstance(test.op, ast.And):
            return False if any(v is False for v in vs) else (True if all(v is True for v in vs) else None)
        return True if any(v is True for v in vs) else (False if all(v is False for v in vs) else None)
    if isinstance(test, ast.Compare):
        res = []
        left = test.left
        for op, right in zip(test.ops, test.comparators):
            a, b = interval(konst(left), env), interval(konst(right), env)
            left = right
            if a is None or b is None:
                res.append(None)
                continue
            r = None
            if isinstance(op, ast.Lt):
                r = True if a[1] < b[0] else (False if a[0] >= b[1] else None)
            elif isinstance(op, ast.LtE):
                r = True if a[1] <= b[0] else (False if a[0] > b[1] else None)
            elif isinstance(op, ast.Gt):
                r = True if a[0] > b[1] else (False if a[1] <= b[0] else None)
            elif isinstance(op, ast.GtE):
                r = True if a[0] >= b[1] else (False if a[1] < b[0] else None)
            elif isinstance(op, ast.Eq):
                r = True if a[0] == a[1] == b[0] == b[1] else (False if a[1] < b[0] or b[1] < a[0] else None)
            elif isinstance(op, ast.NotEq):
                r = False if a[0] == a[1] == b[0] == b[1] else (True if a[1] < b[0] or b[1] < a[0] else None)
            res.append(r)
        return False if any(r is False for r in res) else (True if all(r is True for r in res) else None)
    return None


def _thread_identity(test, pol, repo, es):
    """`<thread attr> is threading.current_thread()` (required true for the branch) can only hold in code the thread
    itself executes: with the analysed entry point outside the name-resolved closure of every `Thread(target = T)` whose
    object is stored in that attribute, the branch is dead on this path."""
    from pyutil import _name_callgraph
    if not pol or not isinstance(test, ast.Compare) or len(test.ops) != 1 or not isinstance(test.ops[0], (ast.Is, ast.Eq)):
        return None
    a, b = test.left, test.comparators[0]
    def is_cur(x):
        return isinstance(x, ast.Call) and canon(x.func) in ("threading.current_thread", "current_thread", "threading.currentThread")
    thr = b if is_cur(a) else a if is_cur(b) else None
    if thr is None or not isinstance(thr, ast.Attribute):
        return None
    funcs, callees = _name_callgraph(repo)
    targets = []
    n_store = 0
    for m in repo.tk_modules():
        for x in ast.walk(m.tree):
            if isinstance(x, ast.Assign) and any(isinstance(t, ast.Attribute) and t.attr == thr.attr for t in x.targets):
                if isinstance(x.value, ast.Constant) and x.value.value is None:
                    continue
                n_store += 1
                if isinstance(x.value, ast.Call) and canon(x.value.func).split(".")[-1] == "Thread":
                    tg = next((k.value for k in x.value.keywords if k.arg == "target"), None)
                    if tg is not None:
                        targets.append((m, tg))
    if not targets or len(targets) != n_store:
        return None
    seen, work = set(), []
    for m, tg in targets:
        work.extend(callees(ast.Call(func=tg, args=[], keywords=[]), m.name))
    while work:
        k = work.pop()
        if k in seen:
            continue
        seen.add(k)
        work.extend(callees(funcs[k][1], funcs[k][0].name))
    entry = getattr(es, "entry", None)
    if entry is None:
        return None
    ecls, emeth = entry.split(".", 1)
    # the entry point (and hence this path) belongs to the thread's code when a method of that name is in its closure
    if any(k[2] == emeth for k in seen):
        return None
    return "unreachable on this path: `%s` holds only in code the thread itself runs (closure of its target: %d functions), the entry %s is not among them" % (
        canon(test)[:60], len(seen), entry)


def dead_raise(site, repo, es):
    """the raise sits in a branch that interval arithmetic decides is never taken: operands are bounded by the ranges
    established where the attributes are stored (`x in range(a, b)` guards of every store), the component ranges of
    fn2gsm_time (T1 0..2047, T2 0..25, T3 0..50, TC 0..7) and folded class constants"""
    node = site.node
    fd = enclosing_func(node)
    if fd is None:
        return None
    env = {"t1": (0, 2047), "t2": (0, 25), "t3": (0, 50), "tc": (0, 7)}
    per = {}
    for st in es.stores:
        try:
            cfg = st.cfg
            sb = branch_subst(cfg.func.body)
            val = canon(st.value, sb)
            rng = None
            for t, p_ in guard_literals(cfg, cfg.node_of(st.node), sb):
                import re as _re
                m_ = _re.fullmatch(_re.escape(val) + r" in range\((-?\d+), (-?\d+)\)", t)
                if m_ and p_:
                    rng = (int(m_.group(1)), int(m_.group(2)) - 1)
            per.setdefault(st.attr, []).append(rng)
        except AnalysisError:
            per.setdefault(st.attr, []).append(None)
    for a, rs in per.items():
        if rs and all(r is not None for r in rs):
            env["self." + a] = (min(r[0] for r in rs), max(r[1] for r in rs))
    subst = deep_subst(fd)
    cur = fd
    while cur is not None and not isinstance(cur, ast.ClassDef):
        cur = getattr(cur, "_parent", None)
    ci = site.mod.classes.get(cur.name) if cur is not None else None
    from pyfront import _Subst

    def konst(e):
        e2 = _Subst(subst).visit(_clone(e))

        class K(ast.NodeTransformer):
            def visit_Attribute(self_, n_):
                t_ = canon(n_)
                if t_ in env:
                    return n_
                try:
                    v_ = Ev(repo, site.mod, self_cls=ci).ev(n_)
                    if isinstance(v_, int) and not isinstance(v_, bool) and n_.attr.isupper():
                        return ast.Constant(value=v_)
                except (Unknown, Raised, RecursionError):
                    pass
                return n_
        return K().visit(e2)
    child, par = node, getattr(node, "_parent", None)
    while par is not None and par is not fd:
        if isinstance(par, ast.If):
            pol = any(child is x for x in par.body)
            why_t = _thread_identity(par.test, pol, repo, es)
            if why_t:
                return why_t
            v = _tri(par.test, env, konst)
            if v is not None and v != pol:
                return "unreachable: `%s` is always %s (interval arithmetic over validated attribute ranges)" % (
                    canon(par.test)[:50], v)
        child, par = par, getattr(par, "_parent", None)
    return None


def report_sites(L, rule, es, repo, what, accept=None):
    groups = {}
    order = []
    for s in es.sites:
        k = (id(s.node), s.exc)
        if k not in groups:
            groups[k] = []
            order.append(k)
        groups[k].append(s)
    n = 0
    for k in order:
        occ = groups[k]
        s = occ[0]
        if s.kind == "raise" and s.exc in ("NotImplementedError",):
            continue
        n += 1
        whys = []
        bad = None
        for o in occ:
            why = o.caught
            if why is None and o.kind == "subscript":
                why = arity_guard(es, o, repo)
            if why is None and accept is not None:
                why = accept(o)
            if why is None and o.kind == "raise":
                why = dead_raise(o, repo, es)
            if why is None:
                bad = o
                break
            whys.append(why)
        L.ob(rule, s.mod.rel, s.func, "%s: %s" % (what, site_key(s)),
             "caught before leaving %s, or total by a dominating check" % es.entry,
             ("covered: %s" % sorted(set(whys))[0]) if bad is None else "escapes via " + " -> ".join(bad.chain[-4:]),
             bad is None, getattr(s.node, "lineno", None))
    for (node, mod, fn) in es.unresolved:
        raise AnalysisError("%s: unresolved callee with received data: %s in %s" % (what, canon(node)[:60], fn))
    return n


def r2_data_path(L, repo, r1_ok):
    ci = repo.need_class("transceiver", "Transceiver")
    es = Escape(repo, sources=("recvfrom", "recv"))
    es.run(ci, "recv_data_msg")
    for f in sorted(es.visited_funcs):
        L.functions.add(f)

    def accept(s):
        # index / unpack inside the TRXD parser: proven total by the length guards (C14.R1)
        if r1_ok and s.kind in ("subscript", "unpack") and s.func.split(".")[0] in ("Msg", "TxMsg", "RxMsg"):
            return "inside the length proven by parse_msg's guards (C14.R1)"
        return None
    n = report_sites(L, "C14.R2", es, repo, "data path", accept)
    L.floor("C14.R2", "partial operations / raises on the TRXD receive path", n, 8)
    # recv_data_msg returns on a falsy message
    c, fd = repo.need_method("transceiver", "Transceiver", "recv_data_msg")
    L.unit(rel("transceiver"))
    L.unit(rel("data_if"))
    return es


def r3_ctrl_path(L, repo):
    ci = repo.need_class("ctrl_if_trx", "CTRLInterfaceTRX")
    es = Escape(repo, sources=("recvfrom", "recv"))
    es.run(ci, "handle_rx")
    for f in sorted(es.visited_funcs):
        L.functions.add(f)
    for m in ("ctrl_if", "ctrl_if_trx", "fake_trx", "transceiver", "gsm_shared", "fake_pm", "data_if"):
        L.unit(rel(m))
    n = report_sites(L, "C14.R3", es, repo, "control path")
    L.floor("C14.R3", "partial operations / raises on the TRXC receive path", n, 20)
    # the caller of handle_rx has no handler: confirm (else the rule would over-report)
    c, run = repo.need_method("fake_trx", "Application", "run")
    calls = find_calls(run, attr="handle_rx")
    L.floor("C14.R3", "handle_rx call in Application.run", len(calls), 1)
    return es


# -- attribute sanitisation ------------------------------------------------------

class Use:
    def __init__(self, attr, node, mod, func, kind, need, desc, guard_ok):
        self.attr, self.node, self.mod, self.func = attr, node, mod, func
        self.kind, self.need, self.desc, self.guard_ok = kind, need, desc, guard_ok


def mentions(e, attr):
    for n in ast.walk(e):
        if isinstance(n, ast.Attribute) and n.attr == attr:
            return True
    return False


def attr_uses(repo, attrs):
    """partial operations anywhere in the toolkit whose operands mention a
    tainted attribute"""
    uses = []
    for m in repo.tk_modules():
        for fd in ast.walk(m.tree):
            if not isinstance(fd, ast.FunctionDef):
                continue
            subst = deep_subst(fd)
            cfg = None
            for n in ast.walk(fd):
                if enclosing_func(n) is not fd:
                    continue
                kind = None
                ops = []
                if isinstance(n, ast.Call) and canon(n.func) in ("random.randint", "randint") and len(n.args) == 2:
                    kind, ops = "randint", list(n.args)
                elif isinstance(n, ast.BinOp) and isinstance(n.op, (ast.Mod, ast.FloorDiv, ast.Div)) and not (
                        isinstance(n.left, ast.Constant) and isinstance(n.left.value, str)) and not \
                        isinstance(n.right, ast.Tuple) and not (
                        isinstance(n.left, ast.Name) and isinstance(subst.get(n.left.id), ast.Constant)
                        and isinstance(subst[n.left.id].value, str)):
                    kind, ops = "div", [n.right]
                elif isinstance(n, ast.Call) and canon(n.func) == "time.sleep" and n.args:
                    kind, ops = "sleep", [n.args[0]]
                elif isinstance(n, ast.Subscript) and isinstance(n.ctx, ast.Load) and not isinstance(n.slice, ast.Slice):
                    kind, ops = "index", [n.slice]
                if kind is None:
                    continue
                import copy
                from pyfront import _Subst
                ops2 = [_Subst(subst).visit(_clone(o)) for o in ops]
                for a in attrs:
                    if not any(mentions(o, a) for o in ops2):
                        continue
                    if cfg is None:
                        cfg = CFG(fd)
                    try:
                        lits = guard_literals(cfg, cfg.node_of(n), subst)
                    except AnalysisError:
                        lits = set()
                    uses.append((a, n, m, qualname(n), kind, ops2, lits, fd))
    return uses


def lin_attr(e, attr):
    """coefficient of `<x>.attr` and remaining terms when e is linear"""
    try:
        t = X.PyLower().lower(e)
    except AnalysisError:
        return None
    co, c = X.linear(t)
    k = 0
    for name, v in co.items():
        if name.endswith("." + attr):
            k += v
    return k, co, c


def precondition(attr, kind, ops, repo, mod, fd):
    """what the operation needs from the attribute: ('ge0',) ('ne0',) ('range', lo, hi) ('bounded',) or None if total"""
    if kind == "randint":
        a, b = ops
        try:
            d = X.sub(X.PyLower().lower(b), X.PyLower().lower(a))
        except AnalysisError:
            return ("unknown",)
        co, c = X.linear(d)
        k = sum(v for n, v in co.items() if n.endswith("." + attr))
        rest = {n: v for n, v in co.items() if not n.endswith("." + attr)}
        if not rest and k > 0 and c >= 0:
            return ("ge0",)
        if k == 0:
            return None
        return ("unknown",)
    if kind == "div":
        e = ops[0]
        if isinstance(e, ast.Attribute) and e.attr == attr:
            return ("ne0",)
        if isinstance(e, ast.Call) and canon(e.func) == "len":
            return ("nonempty",)
        return ("unknown",)
    if kind == "sleep":
        return ("bounded",)
    if kind == "index":
        return ("index", ops[0])
    return ("unknown",)


def store_establishes(st, need, repo):
    """does the store site's guard set (in its function) establish `need` for the stored value?"""
    cfg = st.cfg
    fd = cfg.func
    subst = branch_subst(fd.body)
    try:
        node = cfg.node_of(st.node)
    except AnalysisError:
        return False, []
    # the stored value is a local with several definitions (e.g. a default on one path, a parsed and validated
    # number on the other): decide per reaching definition, with the guards on the paths from that definition
    if isinstance(st.value, ast.Name):
        nm = st.value.id
        defs = [n_ for n_ in ast.walk(fd) if isinstance(n_, ast.Assign) and len(n_.targets) == 1 and
                isinstance(n_.targets[0], ast.Name) and n_.targets[0].id == nm]
        if len(defs) >= 2:
            from pyfront import guard_literals_from
            verdicts, shown = [], []
            for d in defs:
                try:
                    dn = cfg.node_of(d)
                except AnalysisError:
                    continue
                rel_ = guard_literals_from(cfg, dn, node)
                if rel_ is None:
                    continue
                # killed by another definition on every path?  (conservative: keep it)
                if isinstance(d.value, ast.Constant) and isinstance(d.value.value, int) and not isinstance(d.value.value, bool):
                    c = d.value.value
                    okc = {"ge0": c >= 0, "ne0": c != 0, "range": need[0] == "range" and need[1] <= c <= need[2]}.get(need[0], False)
                    verdicts.append(okc)
                    shown.append("%s = %d" % (nm, c))
                    continue
                ok_, _ = _need_in(need, nm, rel_)
                verdicts.append(ok_)
                shown.append("%s = %s under %s" % (nm, canon(d.value)[:30], lit_fmt(rel_)))
            if verdicts:
                return all(verdicts), shown
    val = canon(st.value, subst)
    lits = guard_literals(cfg, node, subst)
    return _need_in(need, val, lits)


def _need_in(need, val, lits):
    fl = lit_fmt(lits)
    if need[0] == "ge0":
        return ((val + " < 0", False) in lits) or (("0 < " + val, True) in lits), fl
    if need[0] == "ne0":
        return (("0 < " + val, True) in lits) or (("0 == " + val, False) in lits), fl
    if need[0] == "range":
        lo, hi = need[1], need[2]
        ok_lo = (val + " < %d" % lo, False) in lits
        ok_hi = ("%d < %s" % (hi, val), False) in lits
        inr = any(p and t == "%s in range(%d, %d)" % (val, lo, hi + 1) for t, p in lits)
        return (ok_lo and ok_hi) or inr, fl
    if need[0] == "nonempty":
        import re as _re
        m_ = _re.fullmatch(r"(?:list|tuple|sorted)\((.+)\)", val)
        if m_:
            val = m_.group(1)       # a copy of a sequence is as long as the sequence
        return (("0 == len(%s)" % val, False) in lits) or ((val, True) in lits) or (("0 < len(%s)" % val, True) in lits), fl
    return False, fl


def index_need(repo, m, fd, idx_expr, attr, n):
    """for LIST[idx]: the range of the attribute that keeps idx inside a constant-length list; None if not derivable"""
    base = n.value
    try:
        ci = None
        cdef = None
        cur = fd
        while cur is not None and not isinstance(cur, ast.ClassDef):
            cur = getattr(cur, "_parent", None)
        if cur is not None:
            ci = m.classes.get(cur.name)
        lst = Ev(repo, m, self_cls=ci).ev(base)
        size = len(lst)
    except Exception:
        return None
    # idx = (attr ^ (x & 63)) + y  with y in a known range: use interval evaluation
    return size


def interval(e, env):
    """interval of an integer expression; env maps canonical text -> (lo, hi)"""
    t = canon(e)
    if t in env:
        return env[t]
    if isinstance(e, ast.Constant) and isinstance(e.value, int):
        return (e.value, e.value)
    if isinstance(e, ast.BinOp):
        a, b = interval(e.left, env), interval(e.right, env)
        if a is None or b is None:
            # x & c  is bounded by c even when x is unknown
            if isinstance(e.op, ast.BitAnd):
                for side in (e.left, e.right):
                    if isinstance(side, ast.Constant) and isinstance(side.value, int) and side.value >= 0:
                        return (0, side.value)
            if isinstance(e.op, ast.Mod) and b is not None and b[0] > 0:
                return (0, b[1] - 1)
            return None
        if isinstance(e.op, ast.Add):
            return (a[0] + b[0], a[1] + b[1])
        if isinstance(e.op, ast.Sub):
            return (a[0] - b[1], a[1] - b[0])
        if isinstance(e.op, ast.BitAnd):
            if a[0] >= 0 and b[0] >= 0:
                return (0, min(a[1], b[1]))
            for side in (a, b):
                if side[0] == side[1] and side[0] >= 0:
                    return (0, side[0])
            return None
        if isinstance(e.op, (ast.BitXor, ast.BitOr)):
            if a[0] >= 0 and b[0] >= 0:
                bits = max(a[1], b[1]).bit_length()
                return (0, (1 << bits) - 1)
            return None
        if isinstance(e.op, ast.Mod) and b[0] > 0:
            return (0, b[1] - 1)
        if isinstance(e.op, ast.Mult) and a[0] >= 0 and b[0] >= 0:
            return (a[0] * b[0], a[1] * b[1])
    return None


def r4_attrs(L, repo, es):
    stores = {}
    for st in es.stores:
        stores.setdefault(st.attr, []).append(st)
    attrs = sorted(stores)
    L.extra["tainted_attributes"] = attrs
    L.floor("C14.R4", "attributes stored from received integers", len(attrs), 12)
    uses = attr_uses(repo, attrs)
    n = 0
    for (a, node, m, qn, kind, ops, lits, fd) in uses:
        need = precondition(a, kind, ops, repo, m, fd)
        if need is None:
            continue
        desc = "%s in %s" % (kind, qn)
        desc_full = "%s `%s` in %s" % (kind, canon(node)[:50], qn)
        if need[0] == "index":
            size = index_need(repo, m, fd, need[1], a, node)
            if size is None:
                # index into a runtime list: total if it is a `% len(list)` residue of the same list
                idx = need[1]
                base = canon(node.value)
                ok_mod = isinstance(idx, ast.BinOp) and isinstance(idx.op, ast.Mod) and \
                    canon(idx.right) in ("len(%s)" % base,)
                if ok_mod:
                    need = ("nonempty_list", base)
                    if not (isinstance(node.value, ast.Attribute) and node.value.attr == a):
                        continue       # this attribute only takes part in the (total) `% len(list)` index
                else:
                    continue
            else:
                # find the attribute range that keeps the index inside [0, size)
                env = {"fn % 51": (0, 50), "fn % 26": (0, 25), "fn // (26 * 51)": (0, 2047)}
                att_txt = None
                for sub in ast.walk(need[1]):
                    if isinstance(sub, ast.Attribute) and sub.attr == a:
                        att_txt = canon(sub)
                if att_txt is None:
                    continue
                # tuple unpacked temporaries (t1, t2, t3, tc) are bounded by fn2gsm_time's component ranges
                for nm, rng in (("t1", (0, 2047)), ("t2", (0, 25)), ("t3", (0, 50)), ("tc", (0, 7))):
                    env[nm] = rng
                # search the largest power-of-two bound for which the index stays in range
                best = None
                for bits in range(0, 17):
                    env[att_txt] = (0, (1 << bits) - 1)
                    iv = interval(need[1], env)
                    if iv is not None and iv[0] >= 0 and iv[1] < size:
                        best = (1 << bits) - 1
                if best is None:
                    need = ("unknown",)
                else:
                    need = ("range", 0, best)
        n += 1
        # 1. use-site guard
        use_ok = False
        att_texts = {canon(s) for o in ops for s in ast.walk(o) if isinstance(s, ast.Attribute) and s.attr == a}
        for at in att_texts:
            if need[0] == "ge0" and ((at + " < 0", False) in lits or ("0 < " + at, True) in lits):
                use_ok = True
            if need[0] == "ne0" and (("0 < " + at, True) in lits or ("0 == " + at, False) in lits):
                use_ok = True
        if need[0] == "bounded":
            # sleep(): negative rejected by the use-site guard, the upper bound must come from the store site
            pos = any(("0 < " + at, True) in lits for at in att_texts)
            need_store = ("upper",)
            for st in stores[a]:
                ok, fl = store_establishes(st, ("never",), repo)
                cfg = st.cfg
                subst = branch_subst(cfg.func.body)
                val = canon(st.value, subst)
                lits_s = guard_literals(cfg, cfg.node_of(st.node), subst)
                upper = any((not p) and t.endswith(" < " + val) and t.split(" < ")[0].lstrip("-").isdigit() for t, p in lits_s)
                # (the keys name the stored attribute and the operation, not the function the operation happens to live in;
                # lower and upper bound are separate obligations: losing the `> 0` guard is not the known upper-bound gap)
                L.ob("C14.R4", st.mod.rel, st.func,
                     "`%s` is stored from a received integer and later used by %s: the use is guarded by value > 0" % (a, kind),
                     "use guarded by `> 0`", "use (%s) guards: %s" % (desc, lit_fmt(lits)), pos, st.node.lineno)
                L.ob("C14.R4", st.mod.rel, st.func,
                     "`%s` is stored from a received integer and later used by %s: needs 0 < value <= a finite bound" % (a, kind),
                     "store guarded by an upper bound", "store guards: %s" % lit_fmt(lits_s),
                     upper, st.node.lineno)
            continue
        if need[0] == "nonempty_list":
            # the list attribute must be proven non-empty where it is stored
            for st in stores.get(a, []):
                ok, fl = store_establishes(st, ("nonempty",), repo)
                L.ob("C14.R4", st.mod.rel, st.func, "`%s` is stored from received data and later indexed modulo its length (%s): must be non-empty" % (a, desc),
                     "store dominated by a non-empty check", fl, ok, st.node.lineno)
            continue
        if need[0] == "unknown":
            raise AnalysisError("C14.R4: cannot derive the precondition of %s on attribute %s" % (desc, a))
        for st in stores[a]:
            ok, fl = (True, ["use site guarded"]) if use_ok else store_establishes(st, need, repo)
            if not ok and st.func.endswith("ctrl_cmd_handler") and need[0] in ("ge0", "ne0", "range"):
                ok2, why2 = _store_fold(repo, a, need)
                if ok2:
                    ok, fl = True, [why2]
            L.ob("C14.R4", st.mod.rel, st.func,
                 "`%s` is stored from a received integer and later used by %s: needs %s" % (a, desc, need_txt(need)),
                 "established where stored or guarded where used", fl, ok, st.node.lineno)
    L.floor("C14.R4", "partial operations on sanitisable attributes", n, 5)


def _store_fold(repo, attr, need):
    """The guard that establishes the precondition may sit in a helper and reach the store through a correlated value
    (`params = None if threshold < 0 else (base, threshold)` ... `if params is None: return`): decide by folding the
    simulation command handler for every documented FAKE_* / SETTA form over sign / boundary witnesses of each argument -
    whatever the handler leaves in the attribute satisfies the precondition (the handler's decisions on an integer
    argument are comparisons with small constants: piecewise constant between the witnesses)."""
    import itertools
    import json as _json
    from cmdfold import fold_fake_cmd
    VERIF_ = os.path.dirname(os.path.dirname(os.path.dirname(os.path.abspath(__file__))))
    try:
        spec = _json.load(open(os.path.join(VERIF_, "spec", "trxc.json")))
    except (OSError, ValueError):
        return False, None
    wit = ["-70000", "-2", "-1", "0", "1", "2", "70000"]

    def sat(v):
        if not isinstance(v, int) or isinstance(v, bool):
            return False
        if need[0] == "ge0":
            return v >= 0
        if need[0] == "ne0":
            return v != 0
        return need[1] <= v <= need[2]
    good = 5 if need[0] != "range" else need[1]
    n = 0
    for verb, d in sorted(spec["verbs"].items()):
        if not (verb.startswith("FAKE_") or verb == "SETTA"):
            continue
        for argc in (d.get("argc") or [d.get("min", 0)]):
            if argc > 2:
                continue
            for args in itertools.product(wit, repeat=argc):
                try:
                    f = fold_fake_cmd(repo, [verb] + list(args), {"self." + attr: good})
                except AnalysisError:
                    return False, None
                n += 1
                v = f.env.get("self." + attr, good)
                if not sat(v):
                    return False, None
    if n < 20:
        return False, None
    return True, "decided by folding the handler for %d command / argument witnesses: `%s` always satisfies it afterwards" % (n, attr)


def need_txt(need):
    return {"ge0": "value >= 0", "ne0": "value != 0", "nonempty": "a non-empty sequence"}.get(need[0], "value in %s..%s" % (need[1:3] if len(need) > 2 else ("?", "?")))


def r5_capture(L, repo):
    F = rel("data_dump")
    L.unit(F)
    ci = repo.need_class("data_dump", "DATADumpFile")
    for entry in ("parse_all", "parse_msg"):
        es = Escape(repo, sources=("read",))
        es.run(ci, entry)
        for f in sorted(es.visited_funcs):
            L.functions.add(f)

        def accept(s):
            # parse_hdr's unpack is total when every call site passes a buffer of the checked header length
            if s.kind == "unpack" and s.func.endswith("parse_hdr"):
                return hdr_len_proof(repo, ci)
            if s.kind == "unpack":
                return slice_len_proof(s, repo, ci)
            return None
        n = report_sites(L, "C14.R5", es, repo, "capture reader (%s)" % entry, accept)
        L.floor("C14.R5", "partial operations in the capture reader", n, 3)


def slice_len_proof(s, repo, ci):
    """`struct.unpack(<fmt>, X[a:b])` is total when `len(X) == HDR_LENGTH` holds on every path to it, the constant slice
    lies inside that length and has exactly the size the format needs"""
    import struct as _struct
    call = s.node
    if not (isinstance(call, ast.Call) and len(call.args) == 2 and isinstance(call.args[0], ast.Constant) and isinstance(call.args[0].value, str)):
        return None
    buf = call.args[1]
    if not (isinstance(buf, ast.Subscript) and isinstance(buf.slice, ast.Slice) and isinstance(buf.value, ast.Name) and buf.slice.step is None):
        return None
    try:
        a = fold(repo, ci.mod, buf.slice.lower, self_cls=ci) if buf.slice.lower is not None else 0
        b = fold(repo, ci.mod, buf.slice.upper, self_cls=ci) if buf.slice.upper is not None else None
        hl = fold(repo, ci.mod, ast.parse("self.HDR_LENGTH", mode="eval").body, self_cls=ci)
        need = _struct.calcsize(call.args[0].value)
    except (Unknown, Raised, _struct.error):
        return None
    fd = enclosing_func(call)
    if fd is None or isinstance(fd, ast.Lambda) or not all(isinstance(x, int) for x in (a, b, hl)):
        return None
    cfg = CFG(fd)
    try:
        lits = guard_literals(cfg, cfg.node_of(call))
    except AnalysisError:
        return None
    x, y = sorted(["len(%s)" % buf.value.id, "self.HDR_LENGTH"])
    if ("%s == %s" % (x, y), True) in lits and 0 <= a < b <= hl and b - a == need:
        return "len(%s) == HDR_LENGTH (%d) dominates the unpack and the slice [%d:%d] has the %d octets `%s` needs" % (
            buf.value.id, hl, a, b, need, call.args[0].value)
    return None


def hdr_len_proof(repo, ci):
    """every call of parse_hdr in DATADumpFile is dominated by len(buf) == HDR_LENGTH and parse_hdr's slices fit"""
    c0, ph = repo.find_method(ci, "parse_hdr")
    hl = fold(repo, ci.mod, ast.parse("self.HDR_LENGTH", mode="eval").body, self_cls=ci)
    lc = LenCheck(repo, ci, {})
    acc = lc.run("parse_hdr", lb=hl)
    if not acc or not all(a.ok for a in acc):
        return None
    for c in ci.methods.values():
        for call in find_calls(c, attr="parse_hdr"):
            cfg = CFG(c)
            arg = canon(call.args[0])
            lits = guard_literals(cfg, cfg.node_of(call))
            a, b = sorted(["len(%s)" % arg, "self.HDR_LENGTH"])
            if ("%s == %s" % (a, b), True) not in lits:
                return None
    return "len(hdr) == HDR_LENGTH (%d) dominates every parse_hdr() call and covers its slices" % hl


# -- C side: trxcon ---------------------------------------------------------------

MAYBE_NULL = {"strchr", "strrchr", "strstr", "memchr", "strpbrk", "strtok", "getenv"}


DEREF_ARGS = {"sscanf", "strlen", "strcmp", "strncmp", "strcpy", "strncpy", "atoi", "atol", "strtol", "strtoul", "memcpy",
              "memcmp", "strcat", "strdup", "printf", "sprintf", "snprintf", "osmo_strlcpy"}


def r6_c_null(L):
    from cfront import TU, CCFG, kids, kind, strip, walk, ctext, calls_to, call_args, expr_guards
    tu = TU(L.repo, "trxcon", "src/trx_if.c", L=L)
    F = tu.rel
    n_ptr = 0
    for fname in ("trx_ctrl_read_cb", "trx_if_measure_rsp_cb", "trx_data_rx_cb"):
        f = tu.func(fname)
        L.fn(F, fname)
        g = CCFG(tu, f)
        # pointers assigned from may-return-NULL functions
        cand = {}
        for n in walk(tu.body(f)):
            if kind(n) == "BinaryOperator" and n.get("opcode") == "=":
                lhs, rhs = kids(n)
                r = strip(rhs, casts=True)
                if kind(r) == "CallExpr":
                    cal = ctext(kids(r)[0])
                    if cal in MAYBE_NULL and kind(strip(lhs)) == "DeclRefExpr":
                        cand[ctext(lhs)] = (cal, n)
            if kind(n) == "VarDecl" and kids(n):
                r = strip(kids(n)[-1], casts=True)
                if kind(r) == "CallExpr" and ctext(kids(r)[0]) in MAYBE_NULL:
                    cand[n.get("name")] = (ctext(kids(r)[0]), n)
        # results of may-return-NULL functions used on the spot (no variable, hence no possible NULL test)
        for n in walk(tu.body(f)):
            if kind(n) != "CallExpr" or ctext(kids(n)[0]) not in MAYBE_NULL:
                continue
            par, child = tu.parent.get(id(n)), n
            while par is not None and kind(par) in ("ImplicitCastExpr", "CStyleCastExpr", "ParenExpr"):
                child, par = par, tu.parent.get(id(par))
            if par is None:
                continue
            pk, use = kind(par), None
            if pk == "BinaryOperator" and par.get("opcode") in ("+", "-"):
                other = [x for x in kids(par) if x is not child]
                if not (par.get("opcode") == "-" and other and "*" in strip(other[0]).get("type", {}).get("qualType", "")):
                    use = "offset `%s`" % ctext(par)[:60]
            elif pk == "ArraySubscriptExpr" and kids(par)[0] is child:
                use = "subscript `%s`" % ctext(par)[:60]
            elif pk == "UnaryOperator" and par.get("opcode") == "*":
                use = "dereference `%s`" % ctext(par)[:60]
            elif pk == "MemberExpr":
                use = "member access `%s`" % ctext(par)[:60]
            elif pk == "CallExpr" and kids(par)[0] is not child and ctext(kids(par)[0]) in DEREF_ARGS:
                use = "argument of %s()" % ctext(kids(par)[0])
            if use is None:
                continue
            n_ptr += 1
            L.ob("C14.R6", F, fname, "result of %s(...) may be NULL and is used without a test: %s" % (ctext(kids(n)[0]), use),
                 "stored and tested against NULL before use", "used directly", False, tu.line(n))
        for p, (cal, asg) in cand.items():
            n_ptr += 1
            # uses: p + k, p[k], *p, p->x
            for n in walk(tu.body(f)):
                use = None
                k = kind(n)
                ks = kids(n)
                if k == "BinaryOperator" and n.get("opcode") in ("+", "-") and any(ctext(x) == p for x in ks):
                    par = tu.parent.get(id(n))
                    # p - buf (pointer difference) does not dereference; p + k passed on / dereferenced does
                    if n.get("opcode") == "-" and ctext(ks[0]) == p and "*" in (strip(ks[1]).get("type", {}).get("qualType", "")):
                        use = "difference"
                    else:
                        use = "offset `%s`" % ctext(n)
                elif k == "ArraySubscriptExpr" and ctext(ks[0]) == p:
                    use = "subscript `%s`" % ctext(n)
                elif k == "UnaryOperator" and n.get("opcode") == "*" and ctext(ks[0]) == p:
                    use = "dereference `%s`" % ctext(n)
                if use is None:
                    continue
                lits = g.guard_lits(g.node_of(n)) | expr_guards(tu, n)
                ok = (p, True) in lits or any(
                    (not pol) and t.replace(" ", "") in ("%s==0" % p, "0==%s" % p, "%s==(void*)0" % p, "(void*)0==%s" % p)
                    for t, pol in lits)
                L.ob("C14.R6", F, fname, "pointer `%s` = %s(...) may be NULL: %s must be guarded by a NULL test" % (p, cal, use),
                     "dominated by `%s != NULL`" % p, sorted(("" if pl else "!") + t for t, pl in lits)[:6], ok, tu.line(n))
    L.floor("C14.R6", "may-be-NULL pointers in the TRXC response parser", n_ptr, 1)
    # R8: NUL store index and read sizes stay inside the receive buffers
    from cfront import array_extent
    for fname in ("trx_ctrl_read_cb", "trx_data_rx_cb"):
        f = tu.func(fname)
        bufdecl = [n for n in walk(tu.body(f)) if kind(n) == "VarDecl" and n.get("name") == "buf"]
        if not bufdecl:
            raise AnalysisError("%s: receive buffer `buf` vanished" % fname)
        ext = array_extent(bufdecl[0].get("type", {}).get("qualType"))
        if ext is None:
            raise AnalysisError("%s: receive buffer `buf` is not a local array any more (%s): its extent cannot be compared with the read size" % (
                fname, bufdecl[0].get("type", {}).get("qualType")))
        reads = calls_to(f, "read")
        L.floor("C14.R8", "read() calls in %s" % fname, len(reads), 1)
        for r in reads:
            a = call_args(r)
            size = tu.fold(a[2])
            stores_nul = [n for n in walk(tu.body(f)) if kind(n) == "BinaryOperator" and n.get("opcode") == "=" and
                          ctext(kids(n)[0]) == "buf[read_len]"]
            limit = ext - 1 if stores_nul else ext
            L.ob("C14.R8", F, fname, "read() into buf[%s] requests at most %s octets%s" % (
                ext, limit, " (room for the terminator stored at buf[read_len])" if stores_nul else ""),
                "<= %s" % limit, size, size is not None and ctext(a[1]) == "buf" and size <= limit, tu.line(r))
    # fixed offsets into the response buffer stay inside the array
    f = tu.func("trx_ctrl_read_cb")
    ext = 1024
    for n in walk(tu.body(f)):
        if kind(n) == "BinaryOperator" and n.get("opcode") == "+" and ctext(kids(n)[0]) == "buf":
            k = tu.fold(kids(n)[1])
            if k is not None:
                L.ob("C14.R8", F, "trx_ctrl_read_cb", "fixed offset `%s` lies inside the response buffer" % ctext(n),
                     "< sizeof(buf)", k, 0 <= k < ext, tu.line(n))
    # ... and inside the TEXT received: a string operation that starts at buf + K reads from the terminator on unless the K
    # octets before it are known to be text.  What establishes that is a successful comparison of the prefix with a
    # literal (`strncmp(buf, "RSP ", 4) == 0`: 4 octets without NUL); an offset behind a successful comparison with the
    # pending command (not a literal: its length is not known here) is not decided by this rule.
    import re as _re
    g8 = CCFG(tu, f)
    n_off = 0
    for n in walk(tu.body(f)):
        if not (kind(n) == "BinaryOperator" and n.get("opcode") == "+" and ctext(kids(n)[0]) == "buf"):
            continue
        k = tu.fold(kids(n)[1])
        if k is None or k <= 0:
            continue
        try:
            lits = g8.guard_lits(g8.node_of(n))
        except AnalysisError:
            continue
        known, undecided = 0, False
        for t, pol in lits:
            m_ = _re.fullmatch(r'(?:strncmp|memcmp|strncasecmp)\(\(?buf(?: \+ (\d+))?\)?, "((?:[^"\\]|\\.)*)", (\d+)\)', t)
            m2 = _re.fullmatch(r'(?:strncmp|memcmp|strncasecmp)\("((?:[^"\\]|\\.)*)", \(?buf(?: \+ (\d+))?\)?, (\d+)\)', t)
            if m_ or m2:
                off, lit, cnt = (m_.group(1), m_.group(2), m_.group(3)) if m_ else (m2.group(2), m2.group(1), m2.group(3))
                if pol is False and "\\" not in lit:
                    known = max(known, int(off or 0) + min(int(cnt), len(lit)))
            elif _re.search(r"\bbuf\b", t) and not _re.fullmatch(r"\d+ <=? read_len", t):
                undecided = True
            elif _re.fullmatch(r"\d+ <=? read_len", t) and pol:
                c_ = int(t.split()[0]) + (1 if " < " in t else 0)
                known = max(known, c_)
        if undecided and known < k:
            continue
        n_off += 1
        L.ob("C14.R8", F, "trx_ctrl_read_cb", "string operation at `%s`: the %d octets before it are received text (signature compared over at least that many characters)" % (ctext(n), k),
             ">= %d octets established by the dominating comparisons" % k, known, known >= k, tu.line(n))
    L.floor("C14.R8", "fixed offsets into the response text decided", n_off, 1)


def r10_list_head(L):
    """R10 (no response datagram makes trxcon read outside its objects): `llist_entry(<head>.next, ...)` yields a
    message only when the list is not empty - on an empty list `.next` is the head itself and the "entry" is the
    enclosing trx_instance read at a negative offset.  Every first-entry access to a list head in trx_if.c must be
    guarded, on every path, by `llist_empty(&<head>)` being false (if-guard with early exit, or the loop condition)."""
    from cfront import TU, CCFG, kids, kind, strip, walk, ctext
    tu = TU(L.repo, "trxcon", "src/trx_if.c", L=L)
    F = tu.rel
    n_sites = 0
    for fname_, f in sorted(tu.functions.items()):
        if not any(kind(c) == "CompoundStmt" for c in kids(f)):
            continue
        if not str(f.get("loc", {}).get("file", tu.rel)).endswith("trx_if.c") and f.get("loc", {}).get("includedFrom"):
            continue
        body = tu.body(f)
        g = None
        for n in walk(body):
            if kind(n) != "StmtExpr":
                continue
            heads = []
            for m in walk(n):
                if kind(m) == "MemberExpr" and m.get("name") in ("next", "prev"):
                    base = kids(m)[0] if kids(m) else None
                    if base is not None and "llist_head" in strip(base, casts=True).get("type", {}).get("qualType", ""):
                        heads.append(ctext(strip(base, casts=True)))
            if not heads:
                continue
            if g is None:
                g = CCFG(tu, f)
            fname = f.get("name")
            L.fn(F, fname)
            for h in sorted(set(heads)):
                n_sites += 1
                lits = g.guard_lits(g.node_of(n))
                want = "llist_empty(&%s)" % h
                ok = any((not pol) and t.replace(" ", "") == want.replace(" ", "") for t, pol in lits)
                L.ob("C14.R10", F, fname, "first entry of `%s` is taken only when the list is not empty" % h,
                     "dominated by `!%s`" % want, sorted(("" if pl else "!") + t for t, pl in lits)[:6], ok, tu.line(n))
    L.floor("C14.R10", "first-entry accesses to list heads in trx_if.c", n_sites, 3)


def r13_use_after_release(L):
    """R13 (no datagram makes trxcon touch memory out of bounds - released objects): typestate over the statement CFG
    of every function of trx_if.c.  A local pointer is RELEASED by `talloc_free(p)`; the transceiver instance and every
    queued command taken from its list are released by `osmo_fsm_inst_term(<inst>->fi, ..)` when the FSM's cleanup
    call-back frees them (read off the clean-up function of this file: it calls talloc_free() on its private pointer
    and flushes the command list).  On no path from a release to the function's exit may the released pointer be
    dereferenced (`p->m`, `*p`, `p[i]`) before it is assigned again: a malformed / unexpected response reaches exactly
    these error exits."""
    from cfront import TU, CCFG, kids, kind, strip, walk, ctext
    tu = TU(L.repo, "trxcon", "src/trx_if.c", L=L)
    F = tu.rel
    # does terminating the FSM release the instance?  (clean-up call-back frees its private pointer)
    term_frees = False
    for fname_, f in tu.functions.items():
        if "cleanup" in fname_ and any(kind(c) == "CompoundStmt" for c in kids(f)):
            calls = [ctext(kids(n)[0]) for n in walk(tu.body(f)) if kind(n) == "CallExpr"]
            if "talloc_free" in calls:
                term_frees = True
    L.extra["c14_r13_term_releases_instance"] = term_frees

    def derefs(ast_, name):
        out = []
        for n in walk(ast_):
            k = kind(n)
            ks = kids(n)
            base = None
            if k == "MemberExpr" and n.get("isArrow") and ks:
                base = ks[0]
            elif k == "UnaryOperator" and n.get("opcode") == "*" and ks:
                base = ks[0]
            elif k == "ArraySubscriptExpr" and ks:
                base = ks[0]
            if base is not None:
                b = strip(base, casts=True)
                par = tu.parent.get(id(n))
                while par is not None and kind(par) == "ParenExpr":
                    par = tu.parent.get(id(par))
                if par is not None and kind(par) == "UnaryOperator" and par.get("opcode") == "&":
                    # `&p->m` computes an address and reads nothing - unless the address is handed to a function,
                    # which is going to use the released object
                    up = tu.parent.get(id(par))
                    while up is not None and kind(up) in ("ParenExpr", "ImplicitCastExpr", "CStyleCastExpr"):
                        up = tu.parent.get(id(up))
                    if not (up is not None and kind(up) == "CallExpr"):
                        continue
                if kind(b) == "DeclRefExpr" and ctext(b) == name:
                    out.append(n)
        return out

    def assigns(ast_, name):
        for n in walk(ast_):
            if kind(n) == "BinaryOperator" and n.get("opcode") == "=" and kids(n):
                l = strip(kids(n)[0])
                if kind(l) == "DeclRefExpr" and ctext(l) == name:
                    return True
        return False
    n_rel = 0
    for fname_, f in sorted(tu.functions.items()):
        if not any(kind(c) == "CompoundStmt" for c in kids(f)):
            continue
        if not str(f.get("loc", {}).get("file", tu.rel)).endswith("trx_if.c") and f.get("loc", {}).get("includedFrom"):
            continue
        body = tu.body(f)
        rels = []          # (call node, [released names], description)
        ptr_locals = {}
        for n in walk(body):
            if kind(n) in ("VarDecl", "ParmVarDecl") and "*" in n.get("type", {}).get("qualType", ""):
                ptr_locals[n.get("name")] = n.get("type", {}).get("qualType", "")
        for pd in kids(f):
            if kind(pd) == "ParmVarDecl" and "*" in pd.get("type", {}).get("qualType", ""):
                ptr_locals[pd.get("name")] = pd.get("type", {}).get("qualType", "")
        for n in walk(body):
            if kind(n) != "CallExpr":
                continue
            cal = ctext(kids(n)[0])
            args = kids(n)[1:]
            if cal == "talloc_free" and args:
                a = strip(args[0], casts=True)
                if kind(a) == "DeclRefExpr":
                    rels.append((n, [ctext(a)], "talloc_free(%s)" % ctext(a)))
            elif cal == "osmo_fsm_inst_term" and args and term_frees:
                a = strip(args[0], casts=True)
                if kind(a) == "MemberExpr" and a.get("isArrow") and kind(strip(kids(a)[0], casts=True)) == "DeclRefExpr":
                    inst = ctext(strip(kids(a)[0], casts=True))
                    names = [inst] + sorted(nm for nm, ty in ptr_locals.items() if "trx_ctrl_msg" in ty)
                    rels.append((n, names, "osmo_fsm_inst_term(%s->fi, ..)" % inst))
        if not rels:
            continue
        g = CCFG(tu, f)
        L.fn(F, fname_)
        for call, names, desc in rels:
            n_rel += 1
            start = g.node_of(call)
            for nm in names:
                seen, work, bad = set(), [x for x, _l in start.succ], []
                while work:
                    nd = work.pop()
                    if nd.id in seen:
                        continue
                    seen.add(nd.id)
                    a_ = nd.cond if nd.kind in ("cond", "switch") and getattr(nd, "cond", None) is not None else nd.ast
                    if nd.kind in ("cond", "switch") and getattr(nd, "cond", None) is None:
                        a_ = None
                    if nd.kind in ("label", "case"):
                        a_ = None
                    if a_ is not None and isinstance(a_, dict) and a_.get("kind") != "DoHead":
                        bad += [(x, nd) for x in derefs(a_, nm)]
                        if assigns(a_, nm):
                            continue
                    work.extend(x for x, _l in nd.succ)
                found = sorted({"`%s`" % ctext(x)[:50] for x, _nd in bad})
                L.ob("C14.R13", F, fname_, "`%s` is not dereferenced after %s released it" % (nm, desc), "no dereference on any path to the exit",
                     found, not found, tu.line(bad[0][0]) if bad else tu.line(call))
    L.floor("C14.R13", "release sites in trx_if.c", n_rel, 3)


def r11_clock_path(L, repo):
    """R11 (no datagram can crash the tools - clock thread): what the clock thread executes for queued bursts
    (Application.clck_handler -> Transceiver.clck_tick -> forward_msg -> handle_data_msg -> send_msg) raises nothing that
    leaves the thread: explicit raises and operations that are partial whatever the data (a %-format whose conversions
    do not match the values supplied) are sites; value-dependent operations on queued fields are R4's."""
    ci = repo.need_class("fake_trx", "Application")
    es = Escape(repo, sources=("recvfrom", "recv"))
    es.run(ci, "clck_handler")
    for f in sorted(es.visited_funcs):
        L.functions.add(f)
    def accept(s):
        # explicit raises and value-dependent partial operations on queued fields are decided where the values are
        # sanitised (R2 for the parser, R4 for stored attributes); this path adds the operations that fail whatever the data
        if s.kind != "format":
            return "value-dependent: decided by C14.R2 / C14.R4"
        return None
    n = report_sites(L, "C14.R11", es, repo, "clock thread", accept)
    L.floor("C14.R11", "functions reached from the clock handler", len(es.visited_funcs), 5)


def _none_crash_use(n):
    """n: a Load of an optional field `self.X`. Description of the use if it raises when the field is None
    (attribute access, subscript, len()/int()/abs(), arithmetic, ordering comparison, numeric format conversion),
    None if the use is harmless (identity/equality/truth test, %s / {} formatting, passing the value on)."""
    import re
    par = getattr(n, "_parent", None)
    if isinstance(par, ast.Attribute) and par.value is n:
        return "attribute access `%s`" % canon(par)
    if isinstance(par, ast.Subscript) and par.value is n:
        return "subscript `%s`" % canon(par)[:40]
    if isinstance(par, ast.Call) and n in par.args and canon(par.func) in ("len", "int", "abs", "float", "hex", "bin", "range"):
        return "%s() of the field" % canon(par.func)
    if isinstance(par, ast.Compare):
        ops = par.ops
        if all(isinstance(o, (ast.Is, ast.IsNot, ast.Eq, ast.NotEq, ast.In, ast.NotIn)) for o in ops):
            return None
        return "ordering comparison `%s`" % canon(par)[:40]
    if isinstance(par, ast.UnaryOp) and isinstance(par.op, (ast.USub, ast.UAdd, ast.Invert)):
        return "arithmetic `%s`" % canon(par)[:40]
    if isinstance(par, ast.Tuple):
        gp = getattr(par, "_parent", None)
        if isinstance(gp, ast.BinOp) and isinstance(gp.op, ast.Mod) and gp.right is par:
            par_fmt, idx = gp, par.elts.index(n)
        else:
            return None
    elif isinstance(par, ast.BinOp) and isinstance(par.op, ast.Mod) and par.right is n:
        par_fmt, idx = par, 0
    elif isinstance(par, ast.BinOp):
        if isinstance(par.op, ast.Mod) and par.left is n:
            return "arithmetic `%s`" % canon(par)[:40]
        if isinstance(par.op, ast.Add) and isinstance(par.left if par.right is n else par.right, (ast.Constant, ast.JoinedStr)):
            return "concatenation `%s`" % canon(par)[:40]
        return "arithmetic `%s`" % canon(par)[:40]
    elif isinstance(par, ast.FormattedValue):
        if par.format_spec is None:
            return None
        spec = canon(par.format_spec)
        return "format spec %s" % spec if re.search(r"[dxXobeEfFgGn%c]", spec) else None
    else:
        return None
    if not (isinstance(par_fmt.left, ast.Constant) and isinstance(par_fmt.left.value, str)):
        return "formatting with a non-literal template"
    convs = re.findall(r"%[-#0 +]*\d*(?:\.\d+)?([diouxXeEfFgGcrsa%])", par_fmt.left.value)
    convs = [c for c in convs if c != "%"]
    if idx >= len(convs):
        return "format argument without conversion"
    return None if convs[idx] in "rsa" else "numeric conversion %%%s" % convs[idx]


def _expr_none_guards(n):
    """literals established by short-circuit evaluation inside the expression that contains n"""
    out = set()
    child, par = n, getattr(n, "_parent", None)
    while par is not None and isinstance(par, ast.expr):
        if isinstance(par, ast.BoolOp):
            i = next((k for k, v in enumerate(par.values) if v is child), None)
            if i is not None:
                for v in par.values[:i]:
                    for t, p_ in literals(v, isinstance(par.op, ast.And)):
                        out.add((t, p_))
        elif isinstance(par, ast.IfExp) and child is not par.test:
            for t, p_ in literals(par.test, child is par.body):
                out.add((t, p_))
        child, par = par, getattr(par, "_parent", None)
    return out


def r9_desc_total(L, repo):
    """R9: the header-description helpers are total. They are called from the log lines of the datagram path, in
    particular from the `except ValueError` handler of DATAInterface.send_msg, i.e. exactly for messages that did NOT
    validate, whose optional fields may still be None (e.g. no modulation matches the burst length). An exception
    raised there escapes the handler into the clock thread. Every use of an optional field that raises on None must
    be dominated by a not-None test of that field."""
    F = rel("data_msg")
    n_uses, n_fns, all_opt = 0, 0, set()
    for cname in ("Msg", "TxMsg", "RxMsg"):
        ci = repo.need_class("data_msg", cname)
        optional = set()
        for c in repo.mro(ci):
            for an, av in c.attrs.items():
                if isinstance(av, ast.Constant) and av.value is None:
                    optional.add(an)
            init = c.methods.get("__init__")
            if init is None:
                continue
            a_ = init.args
            for p_, d in zip(a_.args[len(a_.args) - len(a_.defaults):], a_.defaults):
                if isinstance(d, ast.Constant) and d.value is None:
                    optional.add(p_.arg)
            for st in ast.walk(init):
                if isinstance(st, ast.Assign) and isinstance(st.value, ast.Constant) and st.value.value is None:
                    for t in st.targets:
                        if isinstance(t, ast.Attribute) and canon(t.value) == "self":
                            optional.add(t.attr)
        # attributes assigned from a function that can return None (e.g. mod_type = Modulation.pick_by_bl(...))
        for m in repo.tk_modules():
            for st in ast.walk(m.tree):
                if isinstance(st, ast.Assign) and isinstance(st.value, ast.Call) and isinstance(st.value.func, ast.Attribute):
                    cal = st.value.func
                    tgt_cls = repo.cls(m, cal.value.id) if isinstance(cal.value, ast.Name) else None
                    if tgt_cls is None:
                        continue
                    c2, m2 = repo.find_method(tgt_cls, cal.attr)
                    if m2 is None or not any(isinstance(r, ast.Return) and (r.value is None or (
                            isinstance(r.value, ast.Constant) and r.value.value is None)) for r in ast.walk(m2)):
                        continue
                    for t in st.targets:
                        if isinstance(t, ast.Attribute):
                            optional.add(t.attr)
        fd = ci.methods.get("desc_hdr")
        if fd is None:
            if cname == "Msg":
                raise AnalysisError("data_msg.Msg.desc_hdr vanished")
            continue
        fn = "%s.desc_hdr" % cname
        L.fn(F, fn)
        n_fns += 1
        all_opt |= optional
        cfg = CFG(fd)
        for n in ast.walk(fd):
            if not (isinstance(n, ast.Attribute) and isinstance(n.ctx, ast.Load) and canon(n.value) == "self"
                    and n.attr in optional):
                continue
            use = _none_crash_use(n)
            if use is None:
                continue
            n_uses += 1
            node = cfg.node_of(n)
            lits = set(guard_literals(cfg, node)) | _expr_none_guards(n)
            key = "None is self.%s" % n.attr
            ok = (key, False) in lits or ("self.%s" % n.attr, True) in lits
            L.ob("C14.R9", F, fn, "optional field `%s`: %s is reached only when the field is not None" % (n.attr, use),
                 "guarded by `self.%s is not None`" % n.attr, lit_fmt(lits)[:6], ok, n.lineno)
    L.floor("C14.R9", "optional message fields recognised (constructor / class defaults of None, may-be-None assignments)", len(all_opt), 8)
    L.floor("C14.R9", "desc_hdr implementations analysed", n_fns, 3)
    L.extra["c14_r9_none_sensitive_uses"] = n_uses


def run(L, tier):
    repo = Repo(L.repo)
    r1_ok = L.stage(r1_parser, L, repo)
    L.stage(r2_data_path, L, repo, r1_ok)
    es = L.stage(r3_ctrl_path, L, repo)
    L.stage(r4_attrs, L, repo, es)
    L.stage(r5_capture, L, repo)
    L.stage(r6_c_null, L)
    L.stage(r10_list_head, L)
    L.stage(r13_use_after_release, L)
    L.stage(r11_clock_path, L, repo)
    L.stage(r9_desc_total, L, repo)
    L.stage(r12_tokens, L, repo)
