# C08 -- Firmware TDMA scheduler: each item runs exactly in its scheduled frame.
#
# Technique: clang AST (cfront) -> statement CFG -> a value-numbering dataflow
# ("symbolic state" abstract interpretation, no path enumeration): every local
# variable is mapped to a term over parameters, constants, merge symbols
# phi(var, merge node) and memory loads ld(lvalue, version); memory versions
# are tracked per field group (num_items / cur_bucket / item slots / other
# roots) and renewed by every store or unknown call.  Two terms that are equal
# denote the same run-time value, so "the index of the store is the count the
# capacity check tested, on the same bucket, with no increment in between"
# becomes term equality + edge dominance.  Rules R1..R5 are phrased over these
# terms, CFG guards (edge dominators), must-pass-through and folded constants.
# (The fixpoint is computed by plain sweeps; should they not settle -- a merge symbol of an earlier loop carried unchanged
# through two nested loops can flip between the two loop heads' symbols -- the same equations are solved monotonically:
# sticky merge symbols, removal of trivial ones, re-check by the plain sweep.)
# A local that holds a helper's `cond ? NULL : &slot` result is refined on the two
# edges of a NULL test (branch refinement); the test's guard atoms include the
# helper's own condition, so a capacity check inside a helper guards the caller's stores.
# R5 evaluates the sort helper with a concrete interpreter of the clang AST (class CEval) per fill level over priority
# witnesses (all two-priority assignments, all weak orderings of up to 4 items, permutations with int16 extremes) and
# judges the order sequence it leaves; the selection-sort shape rule is its structural (for-all) record / fall-back.
# R6 follows the priority from the scheduling parameter through the item field
# to the operands of the sort comparison on the resolved clang types and
# evaluates the composed integer conversions over the finite int16 domain.
# R7 evaluates tdma_sched_reset concretely (same transfer functions, constant
# folding through the CFG) for every ring position and collects the set of
# buckets whose fill count ends as 0; a branch on anything but the ring position
# (statistics of what is dropped, log lines) is run down both arms to its
# post-dominator, where the arms must agree on the fill-count writes.
# R8 runs tdma_schedule_set concretely (same transfer functions, class Replay) over small witness sets with empty
# frames and compares the bucket every item lands in with (cur + offset + markers before it) mod ring.
# R9 evaluates the sort helper for every fill level (counters concrete, priority comparisons followed both ways) and
# collects the seq[] positions written on every path: definite initialisation of what the execute loop reads.
# R10 / R11 evaluate tdma_schedule / tdma_schedule_set with the concrete interpreter (CEval) on a concrete ring object:
# every (ring position, offset) pair of the quantifier must be accepted on an empty ring (R10); a set is refused exactly
# when one of its items meets a full frame, markers place nothing and abort nothing (R11).  R12 evaluates the GSM-time
# one-shot layer (sched_gsmtime.c, linuxlist.h followed through its inline functions and container_of) on all
# registration orders of two / three events and compares what is handed to tdma_schedule_set with the single-event runs.

import itertools
import os
import shutil
import tempfile

from report import AnalysisError
from cfront import TU, CCFG, kids, kind, strip, walk, array_extent, sizeof_operand_type
import exprnf as X

EXPLANATION = (
    "Static analysis of layer1/tdma_sched.c on the clang AST: a value-numbering dataflow over the "
    "statement CFG resolves every pointer/temporary to a term over parameters, merge symbols and "
    "versioned memory loads. On these terms the rules decide for all ring positions, offsets and "
    "fill levels: every item-slot store is indexed by the bucket's own num_items, edge-dominated by "
    "num_items < ARRAY_SIZE(item) on the same bucket with no write in between, overflow returns a "
    "negative value without storing, num_items is incremented exactly once per stored slot and every path that "
    "increments it stores the slot -- decided on the path structure, whichever of store and increment comes first; a "
    "slot handed out by a helper (`full ? NULL : &item[num_items]`, the helper's returns joined to one ?: term) is "
    "resolved by the caller's NULL test: on the non-NULL edge the pointer is the slot address and the helper's "
    "capacity test holds there, on the very count the address was formed with (R1); "
    "every bucket[] index is cur_bucket, (cur_bucket + x) mod ARRAY_SIZE(bucket) or a bounded loop "
    "counter, cur_bucket is written once, only by tdma_sched_advance, with (cur_bucket + 1) mod ring "
    "(R2, who-may-write over the layer1 TUs); a ring index that is not in that normal form (division-free wrap: "
    "compare / subtract with a modulo fall-back, hand-rolled `x < ring-1 ? x+1 : 0`) is decided by value: abstracted "
    "to a function of (ring position, offset) and evaluated for all ARRAY_SIZE(bucket) positions x every offset of "
    "the offset's C type (uint8_t: 256) against (cur_bucket + offset) mod ring, a position carried from one loop "
    "iteration to the next by an induction step evaluated under the path's branch conditions; differences come with "
    "the concrete position/offset (R2, R3); tdma_schedule/tdma_schedule_set place items at "
    "frame_offset + number of end-of-frame markers consumed (inductive check with a ghost counter; the bucket is followed "
    "through sched->bucket[index] or through a local pointer carried around the loop whose every value is &sched->bucket[index]; "
    "an access path / invariant the induction does not recognise is an open structural record when the witness folds R8/R10/R11 "
    "place every item in its frame), "
    "store the caller's parameters / the set entry with the caller's p3, store nothing for markers "
    "and leave at the end marker (R3); tdma_sched_execute runs the current bucket's items 0..n-1 of "
    "the sorted sequence with their own (p1,p2,p3) -- the loop's upper end is evaluated for every fill level "
    "0..ARRAY_SIZE(item), through clamping/min helpers (helper results are ?: terms over their branch conditions) "
    "-- and empties that bucket on every non-error return: by a store of 0 after the last callback, or by leaving over a "
    "branch edge whose condition holds for fill level 0 only (evaluated for all fill levels, on the count as it is at the branch) "
    "(R4); the sort helper is evaluated (a concrete interpreter of its clang AST: exact integer conversions, pointers, "
    "arrays, structs, loops, helper calls) for every fill level 0..ARRAY_SIZE(item) on priority witnesses -- all 2^n "
    "assignments of two priorities, every weak ordering of up to four items, permutations and tie patterns with the int16 "
    "extremes for fuller buckets -- and the order sequence it leaves must select every item of the bucket exactly once, "
    "unchanged, in ascending priority, the positions behind the fill level holding their own index; a difference is a "
    "concrete bucket; that the helper initialises the full identity sequence and exchanges when the earlier element's "
    "prio is greater, comparing prio only, on the current sequence (selection-sort shape, for all bucket contents) is the "
    "structural record, and the deciding rule when the helper cannot be evaluated (R5); the priority parameter stored by "
    "tdma_schedule, the "
    "item field prio, every temporary (scalar, or element of a local key array) and every integral conversion up to the two operands of the sort's "
    "comparison (resolved, desugared clang types) compose to a chain that preserves the order of all int16 "
    "priorities -- evaluated over the 65536-value domain, violations come with a concrete pair (R6); "
    "tdma_sched_reset is evaluated concretely for each of the 25 ring positions (branches that are functions of the "
    "position followed; any other branch -- on a fill count, a counter of dropped items -- run down both arms to its "
    "post-dominator, where both must have made the same fill-count writes, the locals they disagree on being unknown "
    "from there on) and leaves num_items = 0 in every bucket other than the current one (R7); "
    "tdma_schedule_set, whose control flow depends on the kind of the set entries and the fill counts only, is run "
    "concretely over all 31 witness sets of up to four entries over {item, END_FRAME} (empty frames, leading / trailing / "
    "consecutive markers) at three (ring position, offset, fill level) points and copies every item entry into bucket "
    "(cur_bucket + frame_offset + markers before it) mod ring, nothing for a marker (R8: every marker advances the "
    "frame by exactly one, item in between or not; the for-all-sets statement is R3's induction); the sort helper, "
    "evaluated for each fill level 0..ARRAY_SIZE(item) with its counters and fill-level tests concrete and its priority "
    "comparisons followed both ways, has written every position seq[0 .. num_items-1] that tdma_sched_execute reads "
    "when it returns, on every path (R9: definite initialisation of the order sequence in the same call, whatever the "
    "storage class of the array); tdma_schedule and tdma_schedule_set, evaluated by the concrete interpreter on a concrete "
    "ring for every ring position x frame offset 0..ARRAY_SIZE(bucket)-1 with empty buckets, report success and leave the "
    "item(s) once in bucket (cur_bucket + offset [+ markers]) mod ring -- no offset of the quantifier is refused (R10); "
    "tdma_schedule_set, evaluated for every number of items already in the frame, refuses a set exactly when one of its items "
    "meets a frame holding ARRAY_SIZE(item) items: a marker on an exactly full frame neither stores nor aborts, one item too "
    "many gives a negative value, items scheduled before are kept (R11); the one-shot layer layer1/sched_gsmtime.c, evaluated "
    "with the linuxlist.h primitives over every sequence of two and three registrations, hands every event to "
    "tdma_schedule_set exactly once, with its own set and p3, for the frame it gets when registered alone, also when an overdue "
    "event (registered after its hand-over point) is pending ahead of the in-time ones, and after sched_gsmtime_reset() "
    "(evaluated with one, two and three events pending) no cancelled event reaches tdma_schedule_set while events registered "
    "after the reset are handed over exactly once (R12); tdma_schedule is evaluated for "
    "every number of items already in its frame (counted up to exactly ARRAY_SIZE(item), then refused) and every store of the "
    "witness folds is performed in the declared type of the member it hits, bit-field widths included (R11); the declared "
    "types of num_items and cur_bucket can represent 0..ARRAY_SIZE(item) and 0..ARRAY_SIZE(bucket)-1 (R13); every function whose "
    "address the scheduler compares call-backs with (the end-of-set marker) has external linkage, so the marker the sets of "
    "other translation units store is the compared object (R14); tdma_sched_execute / tdma_sched_advance, evaluated on a "
    "concrete ring with call-back models over execute/advance witness histories, run every item exactly once in the execute "
    "call of its frame -- also an item a running call-back schedules with offset 0 into the frame being executed -- and leave "
    "the executed frame empty (R15).")
ASSUMPTIONS = [
    "type-based aliasing: stores through int*/non-scheduler lvalues do not modify scheduler fields; "
    "distinct field names of the scheduler structs do not overlap",
    "integer conversions on frame offsets / ring indices are value-preserving inside the property's "
    "quantifier (offsets 0..24, ring positions 0..24, at most 8 items)",
    "puts/printf/putchar have no effect on scheduler memory; memcpy/memset write exactly their destination object",
    "scheduler functions are not re-entered concurrently (no interrupt interleaving is modelled); callbacks "
    "that schedule into the running frame are outside the decided clauses",
    "struct l1s (the single scheduler instance) is zero-initialised by the C runtime",
    "callbacks run by tdma_sched_execute do not advance the ring (tdma_sched_advance is called by the frame "
    "interrupt between executions), so sched->cur_bucket names the same bucket before and after the callbacks",
    "integer widths are those of the firmware target as resolved by clang --target=arm-none-eabi (char 8, short 16, "
    "int/long 32, long long 64 bits); an out-of-range conversion to a signed type wraps modulo 2^N (gcc/clang)",
    "the bucket the running tdma_sched_execute iterates over may be left to it by tdma_sched_reset (it is emptied "
    "by R4's store); every other bucket must be emptied by the reset itself",
    "the address of a member or array element of an object (&bucket->item[n]) is never NULL; an access through a "
    "pointer that may be NULL is judged, where it does not trap, as an access to its non-NULL alternative",
    "the callbacks of real set entries are functions other than tdma_end_set (SCHED_ITEM tables name real handlers); "
    "every bucket may hold any fill level 0..ARRAY_SIZE(item) when a set is scheduled (R8 runs with all buckets at one "
    "common fill level that leaves room for the witness set)",
    "the priority sort helper is called by tdma_sched_execute with the bucket it executes and does not change that "
    "bucket's num_items (checked), so the fill level it sees is the number of positions the execute loop reads; "
    "positions >= num_items (items scheduled on the fly into the running frame) are outside the decided clauses",
    "a negative return value of tdma_schedule / tdma_schedule_set / sched_gsmtime reports an error, a non-negative one success "
    "(the convention of their callers); call-backs of real items are neither NULL nor tdma_end_set",
    "the offsetof() inside a container_of() expression names the member whose type the macro's __mptr declaration checks "
    "(R12 gives no verdict when the container struct has several members of that type); LLIST_POISON values are never "
    "dereferenced by correct code (a dereference is no verdict)",
    "sched_gsmtime_execute(fn) is called once per TDMA frame with consecutive frame numbers, before the ring advances "
    "(tail of l1_sync), so a set handed to tdma_schedule_set(offset) in frame fn starts in frame fn + offset; the events "
    "whose hand-over is judged are registered at least the scheduling lead ahead (what becomes of an overdue event is not "
    "judged) and frame numbers do not wrap inside a witness history",
    "item sets handed to tdma_schedule_set are defined in translation units other than tdma_sched.c (prim_*.c; checked in "
    "the thorough tier), so a marker with internal linkage declared in a header is never the compared function (R14)",
    "bit-fields: a bit-field of an unsigned type is unsigned; a value a signed bit-field can only hold under one of the two "
    "signedness conventions (gcc default / AAPCS) is no verdict",
]

FW = "src/target/firmware"
MAIN = "layer1/tdma_sched.c"
C0 = X.C(0)
C1 = X.C(1)
TD_GROUPS = ("num_items", "cur_bucket", "item")
IO_FUNCS = {"puts", "printf", "putchar", "printd", "cons_puts", "sercomm_putchar"}
ITEM_FIELDS = ("cb", "p1", "p2", "p3", "prio", "flags")
SCHED = ("fld", ("g", "l1s"), "tdma_sched")


# ------------------------------------------------------------------ terms

def show(t):
    if not isinstance(t, tuple):
        return str(t)
    k = t[0]
    if k == "c":
        return str(t[1])
    if k == "p":
        return t[2]
    if k == "phi":
        return "phi(%s)" % t[2]
    if k == "ld":
        return show(t[1])
    if k == "fld":
        b = t[1]
        if t == SCHED:
            return "sched"
        if b[0] == "deref" and b[1][0] != "padd":
            return "%s->%s" % (show(b[1]), t[2])
        return "%s.%s" % (show(b), t[2])
    if k == "idx":
        return "%s[%s]" % (show(t[1]), show(t[2]))
    if k == "deref":
        if t[1][0] == "padd":
            return "%s[%s]" % (show(t[1][1]), show(t[1][2]))
        return "*%s" % show(t[1])
    if k == "addr":
        return "&%s" % show(t[1])
    if k == "padd":
        return "(%s + %s)" % (show(t[1]), show(t[2]))
    if k in ("g", "loc", "fn"):
        return t[1]
    if k == "res":
        return "<result of call>"
    if k == "undef":
        return "<uninitialised %s>" % t[1]
    if k == "sizeof":
        return "sizeof(%s)" % t[1]
    if k in ("+", "*", "&", "|", "^"):
        return "(" + (" %s " % k).join(show(x) for x in t[1:]) + ")"
    if k in ("mod", "div", "<<", ">>"):
        return "(%s %s %s)" % (show(t[1]), k, show(t[2]))
    if k == "cmp":
        return "(%s %s %s)" % (show(t[2]), t[1], show(t[3]))
    if k == "not":
        return "!%s" % show(t[1])
    if k == "ite":
        return "(%s ? %s : %s)" % (show(t[1]), show(t[2]), show(t[3]))
    if k == "str":
        return "\"...\""
    return "<%s>" % k


def subterms(t):
    stack = [t]
    while stack:
        x = stack.pop()
        yield x
        if isinstance(x, tuple):
            for y in x[1:]:
                if isinstance(y, tuple):
                    stack.append(y)


def contains(t, sub):
    return any(x == sub for x in subterms(t))


def unver(t):
    """The term with memory versions erased (same lvalue, any time)."""
    return rebuild(t, lambda x: ("ld", unver(x[1]), None) if x[0] == "ld" else None)


def padd(p, i):
    if i == C0:
        return p
    if p[0] == "addr" and p[1][0] == "idx":
        return ("addr", ("idx", p[1][1], X.add(p[1][2], i)))
    if p[0] == "padd":
        return padd(p[1], X.add(p[2], i))
    return ("padd", p, i)


def deref(p):
    if p[0] == "addr":
        return p[1]
    return ("deref", p)


def addr(lv):
    if lv[0] == "deref":
        return lv[1]
    return ("addr", lv)


def rebuild(t, leaf):
    """Re-normalise a term bottom-up after substituting leaves."""
    if not isinstance(t, tuple):
        return t
    r = leaf(t)
    if r is not None:
        return r
    k = t[0]
    if k in ("c", "p", "g", "loc", "fn", "undef", "sizeof", "str", "res", "phi", "mv"):
        return t
    sub = tuple(rebuild(x, leaf) if isinstance(x, tuple) else x for x in t[1:])
    if k == "+":
        return X.add(*sub)
    if k == "*":
        return X.mul(*sub)
    if k == "mod":
        return X.mod(*sub)
    if k == "padd":
        return padd(*sub)
    if k == "deref":
        return deref(*sub)
    if k == "addr":
        return addr(*sub)
    return (k,) + sub


def lv_path(lv):
    """(root, [components leaf-first]) of an lvalue term."""
    comps = []
    cur = lv
    while True:
        if cur[0] == "fld":
            comps.append(cur[2])
            cur = cur[1]
        elif cur[0] == "idx":
            comps.append("[]")
            cur = cur[1]
        else:
            return cur, comps


def item_slot(lv):
    """The enclosing item slot idx(fld(B,'item'), I) of an lvalue, or None."""
    cur = lv
    while cur[0] in ("fld", "idx"):
        if cur[0] == "idx" and cur[1][0] == "fld" and cur[1][2] == "item":
            return cur
        cur = cur[1]
    return None


def strip_const(qt):
    return (qt or "").replace("const ", "").replace("volatile ", "").strip()


class Unknown(Exception):
    pass


def eval_term(t, leaf):
    """Integer value of a term; `leaf(t)` gives the value of a load / symbol or None.  Raises Unknown for
    anything that is not arithmetic, comparison, boolean connective or ?: over evaluable leaves."""
    if not isinstance(t, tuple):
        raise Unknown()
    k = t[0]
    if k == "c":
        return t[1]
    v = leaf(t)
    if v is not None:
        return v
    if k in ("+", "*", "&", "|", "^"):
        vals = [eval_term(x, leaf) for x in t[1:]]
        r = vals[0]
        for x in vals[1:]:
            r = r + x if k == "+" else r * x if k == "*" else r & x if k == "&" else r | x if k == "|" else r ^ x
        return r
    if k in ("mod", "div"):
        x, y = eval_term(t[1], leaf), eval_term(t[2], leaf)
        if x < 0 or y <= 0:
            raise Unknown()
        return x % y if k == "mod" else x // y
    if k in ("<<", ">>"):
        x, y = eval_term(t[1], leaf), eval_term(t[2], leaf)
        if x < 0 or not 0 <= y < 32:
            raise Unknown()
        return x << y if k == "<<" else x >> y
    if k == "cmp":
        x, y = eval_term(t[2], leaf), eval_term(t[3], leaf)
        if t[1] == "<":
            return int(x < y)
        if t[1] == "==":
            return int(x == y)
        raise Unknown()
    if k == "not":
        return int(eval_term(t[1], leaf) == 0)
    if k == "and":
        return int(eval_term(t[1], leaf) != 0 and eval_term(t[2], leaf) != 0)
    if k == "or":
        return int(eval_term(t[1], leaf) != 0 or eval_term(t[2], leaf) != 0)
    if k == "ite":
        return eval_term(t[2], leaf) if eval_term(t[1], leaf) != 0 else eval_term(t[3], leaf)
    raise Unknown()


# ------------------------------------------------------- pointers that may be NULL
# A helper such as `slot = bucket_free_item(bucket)` is summarised to the decision term
# `full ? NULL : &bucket->item[bucket->num_items]`.  The caller's `if (!slot) return -1;` then decides which alternative
# the pointer is: on the edge where it is not NULL it IS the address (and `full` is false there -- the capacity guard the
# helper tested holds on that edge, on the very count the address was formed with); on the other edge it is NULL (and
# `full` holds when the other alternative is an address, which is never NULL).

def term_atoms(t, pol):
    """Guard atoms (same vocabulary as Fn.batoms) that hold when the condition TERM t is true (pol) / false."""
    if not isinstance(t, tuple):
        return set()
    k = t[0]
    if k == "not":
        return term_atoms(t[1], not pol)
    if k in ("and", "or"):
        if (k == "and") == pol:
            return term_atoms(t[1], pol) | term_atoms(t[2], pol)
        return set()
    if k == "cmp" and t[1] == "<":
        return {("<", t[2], t[3], pol)}
    if k == "cmp" and t[1] == "==":
        lo, hi = sorted([t[2], t[3]], key=repr)
        return {("==", lo, hi, pol)}
    if k == "c":
        return set()
    lo, hi = sorted([C0, t], key=repr)
    return {("==", lo, hi, not pol)}


def is_address(t):
    """&object.member / &array[i]: never NULL (see ASSUMPTIONS)."""
    return isinstance(t, tuple) and t[0] == "addr"


def ptr_alternatives(t):
    """The non-NULL alternatives of a pointer term `c1 ? NULL : (c2 ? NULL : p)`."""
    if isinstance(t, tuple) and t[0] == "ite":
        return ptr_alternatives(t[2]) | ptr_alternatives(t[3])
    return set() if t == C0 else {t}


def ptr_resolve(t, null):
    """The value of pointer term t on an edge where it was found (not) NULL."""
    if null:
        return C0
    while isinstance(t, tuple) and t[0] == "ite":
        if t[2] == C0:
            t = t[3]
        elif t[3] == C0:
            t = t[2]
        else:
            break
    return t


def null_atoms(t, null):
    """Atoms implied by `t == NULL` (null) / `t != NULL` for a ?: pointer term t."""
    out = set()
    while isinstance(t, tuple) and t[0] == "ite":
        c, x, y = t[1], t[2], t[3]
        if not null:
            if x == C0:
                out |= term_atoms(c, False)
                t = y
            elif y == C0:
                out |= term_atoms(c, True)
                t = x
            else:
                break
        else:
            if x == C0 and is_address(y):
                out |= term_atoms(c, True)
            elif y == C0 and is_address(x):
                out |= term_atoms(c, False)
            break
    return out


def null_tests(atoms):
    """(pointer term, found NULL?) for the atoms `0 == t` / `0 != t` over ?: pointer terms."""
    for at in atoms:
        if at[0] == "==" and C0 in (at[1], at[2]):
            t = at[2] if at[1] == C0 else at[1]
            if isinstance(t, tuple) and t[0] == "ite" and (C0 in (t[2], t[3])):
                yield t, at[3]


def mentions_scheduler(t):
    return any(isinstance(x, tuple) and (x == SCHED or (x[0] == "fld" and x[2] in ("bucket", "item", "num_items", "cur_bucket")))
               for x in subterms(t))


# ------------------------------------------------------- per-function engine

class Ctx:
    def __init__(self, tu):
        self.tu = tu
        self.fns = {}
        self.stack = []

    def fn(self, name):
        if name not in self.fns:
            if name in self.stack or len(self.stack) > 3:
                return None
            self.stack.append(name)
            try:
                self.fns[name] = Fn(self, name)
            finally:
                self.stack.pop()
        return self.fns[name]


class Fn:
    """Value-numbering dataflow of one function (see header)."""

    def __init__(self, ctx, name, ghost=None):
        self.ctx = ctx
        self.tu = ctx.tu
        self.name = name
        self.f = self.tu.func(name)
        self.g = CCFG(self.tu, self.f)
        self.ghost = ghost or {}          # (node id, label) -> ghost counter key
        self.params = self.tu.fparams(self.f)
        self.vname = {}                   # decl id -> display name
        self.vclass = {}                  # decl id -> 'scalar' | 'mem' | 'static'
        self.vtype = {}
        self._collect_locals()
        self.stores, self.sites, self.icalls, self.calls, self.rets = [], [], [], [], []
        self.world = False
        self.rec = False
        self._atoms = {}
        self._gatoms = {}
        self._clauses = {}
        self.refine = {}                  # (cond node id, label) -> {local key: value on that edge}
        self.solve()
        self.record()

    # -- declarations -------------------------------------------------------
    def _collect_locals(self):
        names = {}
        for n in walk(self.f):
            if kind(n) in ("ParmVarDecl", "VarDecl") and n is not self.f:
                nm = n.get("name") or "<anon>"
                names[nm] = names.get(nm, 0) + 1
                self.vname[n["id"]] = nm if names[nm] == 1 else "%s'%d" % (nm, names[nm])
                qt = n.get("type", {}).get("qualType", "")
                self.vtype[n["id"]] = qt
                if n.get("storageClass") in ("static", "extern"):
                    self.vclass[n["id"]] = "static"
                elif "[" in qt or (strip_const(qt).startswith(("struct ", "union ")) and "*" not in qt):
                    self.vclass[n["id"]] = "mem"
                else:
                    self.vclass[n["id"]] = "scalar"
        for n in walk(self.f):
            if kind(n) == "UnaryOperator" and n.get("opcode") == "&":
                c = strip(kids(n)[0])
                if kind(c) == "DeclRefExpr" and self.vclass.get(c.get("referencedDecl", {}).get("id")) == "scalar":
                    raise AnalysisError("%s(): address of local %s taken -- value tracking unclassifiable" % (
                        self.name, c["referencedDecl"].get("name")))

    # -- state --------------------------------------------------------------
    def keyname(self, key):
        if key[0] == "L":
            return self.vname.get(key[1], str(key[1]))
        if key[0] == "M":
            return "M:%s" % (key[1],)
        if key[0] == "G":
            return "#%s" % key[1]
        return key[0]

    def get(self, st, key):
        v = st.get(key)
        if v is not None:
            return v
        if key[0] == "L":
            return ("undef", self.keyname(key))
        if key[0] == "G":
            return C0
        return "entry"

    def ver(self, grp, st=None):
        st = self.st if st is None else st
        if grp == "ALL":
            return tuple(self.ver(x, st) for x in TD_GROUPS)
        if grp in TD_GROUPS:
            return ("ver", grp, self.get(st, ("M", grp)), self.get(st, ("W",)))
        return ("ver", grp, self.get(st, ("M", grp)), self.get(st, ("W",)), self.get(st, ("W2",)))

    def token(self):
        self.k += 1
        return ("mv", self.name, self.cur.id, self.k)

    def bump(self, grp):
        if grp == "ALL":
            for x in TD_GROUPS:
                self.st[("M", x)] = self.token()
        elif grp == "WORLD":
            self.st[("W",)] = self.token()
            if self.rec:
                self.world = True
        elif grp == "OTHER":
            self.st[("W2",)] = self.token()
        else:
            self.st[("M", grp)] = self.token()

    def group(self, lv, qt=None):
        root, comps = lv_path(lv)
        if "item" in comps:
            return "item"
        leaf = comps[0] if comps else None
        if leaf in ("num_items", "cur_bucket"):
            return leaf
        q = strip_const(qt)
        whole = ("struct tdma_sched_bucket", "struct tdma_scheduler", "struct l1s_state")
        if q.startswith(whole) and "*" not in q:
            return "ALL"
        if leaf == "tdma_sched" or (leaf == "[]" and len(comps) > 1 and comps[1] == "bucket") or leaf == "bucket":
            return "ALL"
        if root[0] in ("g", "loc"):
            if root == ("g", "l1s") and not comps:
                return "ALL"
            return (root[0], root[1])
        if root[0] == "deref":
            p = root[1]
            while p[0] == "padd":
                p = p[1]
            if p[0] == "p":
                return ("pp", p[1])
        return "OTHER"

    # -- fixpoint -------------------------------------------------------------
    def edge_state(self, p, label):
        st = self.out[p.id]
        gk = self.ghost.get((p.id, label))
        if gk is not None:
            st = dict(st)
            st[gk] = X.add(self.get(st, gk), C1)
        ref = self.refine.get((p.id, label))
        if ref:
            st = dict(st)
            for k, (old, new) in ref.items():
                if st.get(k) == old:
                    st[k] = new
        return st

    def merge(self, n, ins, sticky=False):
        if len(ins) == 1:
            return dict(ins[0])
        keys = set()
        for s in ins:
            keys |= set(s)
        st = {}
        prev = self.inn.get(n.id) or {}
        for k in keys:
            phi = ("phi", self.name, self.keyname(k), n.id)
            vals = {self.get(s, k) for s in ins}
            vals.discard(phi)             # a value carried around a loop unchanged is no new value
            if len(vals) == 1 and not (sticky and prev.get(k) == phi):
                st[k] = next(iter(vals))
            else:
                st[k] = phi
        return st

    def solve(self):
        g = self.g
        self.inn, self.out = {}, {}
        init = {}
        for i, p in enumerate(self.params):
            init[("L", p["id"])] = ("p", i, p.get("name") or "arg%d" % i)
        order = [g.entry] + [n for n in g.nodes if n is not g.entry]
        for _ in range(80):
            if not self.sweep(init, order):
                return
        # The sweep above takes "the value at a merge is the one incoming value (the merge's own symbol aside), else
        # the merge's symbol" literally in every round; a value that is a merge symbol of an EARLIER loop and passes
        # unchanged through two nested loops can then flip between the symbols of the two loop heads for ever (each
        # head sees the other's stale symbol).  Same equations, solved monotonically instead: a merge symbol, once
        # taken, is kept (sticky sweep -- terminates), then every symbol all of whose incoming values are one value v
        # is replaced by v (trivial-phi removal), and the result is checked to be a solution of the original equations
        # by one forced sweep + sweeps until nothing changes.
        self.inn, self.out, self.refine = {}, {}, {}
        for _ in range(200):
            if not self.sweep(init, order, sticky=True):
                break
        else:
            raise AnalysisError("%s(): value dataflow did not converge" % self.name)
        for _ in range(200):
            sub = self.trivial_phis()
            if not sub:
                break

            def leaf(t, sub=sub):
                return sub.get(t) if t[0] == "phi" else None
            for states in (self.inn, self.out):
                for nid, st in states.items():
                    states[nid] = {k: rebuild(v, leaf) for k, v in st.items()}
        else:
            raise AnalysisError("%s(): value dataflow did not converge" % self.name)
        self.sweep(init, order, force=True)
        for _ in range(80):
            if not self.sweep(init, order):
                return
        raise AnalysisError("%s(): value dataflow did not converge" % self.name)

    def sweep(self, init, order, sticky=False, force=False):
        g = self.g
        changed = False
        for n in order:
            if n is g.entry:
                st = dict(init)
            else:
                ins = [self.edge_state(p, l) for (p, l) in n.pred if p.id in self.out]
                if not ins:
                    continue
                st = self.merge(n, ins, sticky)
            if not force and n.id in self.out and self.inn.get(n.id) == st:
                continue
            self.inn[n.id] = st
            o = self.transfer(n, dict(st), False)
            if self.out.get(n.id) != o:
                self.out[n.id] = o
                changed = True
        return changed

    def trivial_phis(self):
        """Merge symbols whose incoming values (the symbol itself aside) are one and the same value."""
        sub = {}
        for n in self.g.nodes:
            if n is self.g.entry or n.id not in self.inn:
                continue
            ins = [self.edge_state(p, l) for (p, l) in n.pred if p.id in self.out]
            if len(ins) < 2:
                continue
            for k, v in self.inn[n.id].items():
                phi = ("phi", self.name, self.keyname(k), n.id)
                if v != phi:
                    continue
                vals = {self.get(s, k) for s in ins}
                vals.discard(phi)
                if len(vals) == 1:
                    w = next(iter(vals))
                    if not contains(w, phi):
                        sub[phi] = w
        return sub

    def record(self):
        for n in self.g.nodes:
            if n.id in self.inn:
                self.transfer(n, dict(self.inn[n.id]), True)

    def transfer(self, n, st, rec):
        self.st, self.cur, self.rec, self.k = st, n, rec, 0
        if n.kind == "stmt":
            self.exec_stmt(n.ast)
        elif n.kind in ("cond", "switch"):
            if getattr(n, "cond", None):
                t = self.rval(n.cond)
                if n.kind == "cond":
                    self.branch_refine(n, t)
        self.rec = False
        return self.st

    def branch_refine(self, n, t):
        """A NULL test of a local that holds a helper's `full ? NULL : &slot` result decides the local on both edges."""
        for label in (True, False):
            ref = {}
            for (pt, null) in null_tests(term_atoms(t, label)):
                new = ptr_resolve(pt, null)
                for k, v in self.st.items():
                    if k[0] == "L" and v == pt:
                        ref[k] = (pt, new)
            if ref:
                self.refine[(n.id, label)] = ref
            else:
                self.refine.pop((n.id, label), None)

    def exec_stmt(self, a):
        k = kind(a)
        if k == "DeclStmt":
            for d in kids(a):
                if kind(d) != "VarDecl":
                    continue
                cls = self.vclass.get(d["id"])
                init = kids(d)[-1] if d.get("init") and kids(d) else None
                if cls == "scalar":
                    self.st[("L", d["id"])] = self.rval(init) if init is not None else \
                        ("undef", self.vname[d["id"]])
                elif cls == "mem":
                    if init is not None:
                        for c in walk(init):
                            if kind(c) == "CallExpr":
                                raise AnalysisError("%s(): call inside aggregate initialiser" % self.name)
                    self.bump(("loc", self.vname[d["id"]]))
            return
        if k == "ReturnStmt":
            v = self.rval(kids(a)[0]) if kids(a) else None
            if self.rec:
                self.rets.append({"node": self.cur, "val": v, "ast": a})
            return
        if k in ("DoHead", "BreakStmt", "ContinueStmt", "GotoStmt", "NullStmt"):
            return
        if k is None and not kids(a):
            return                        # the placeholder clang emits for an omitted for-init (`for (; c; i)`): no effect
        if k in ("GCCAsmStmt", "MSAsmStmt"):
            raise AnalysisError("%s(): inline assembly is outside the analysable vocabulary" % self.name)
        self.rval(a)

    # -- expressions ------------------------------------------------------------
    def unsupported(self, n, what="expression"):
        raise AnalysisError("%s(): %s outside the analysable vocabulary (%s, line %s)" % (
            self.name, what, kind(n), n.get("_line")))

    def declref(self, n):
        rd = n.get("referencedDecl", {})
        rk = rd.get("kind")
        if rk == "FunctionDecl":
            return ("fn", rd.get("name"))
        if rk in ("VarDecl", "ParmVarDecl"):
            cls = self.vclass.get(rd.get("id"))
            if cls == "scalar":
                return ("L", rd["id"])
            if cls == "mem":
                return ("loc", self.vname[rd["id"]])
            if cls == "static":
                return ("g", "%s.%s" % (self.name, rd.get("name")))
            return ("g", rd.get("name"))
        self.unsupported(n, "reference")

    def lval(self, n):
        k = kind(n)
        ks = kids(n)
        if k in ("ParenExpr", "ConstantExpr"):
            return self.lval(ks[0])
        if k == "ImplicitCastExpr" and n.get("castKind") == "NoOp":
            return self.lval(ks[0])
        if k == "DeclRefExpr":
            return self.declref(n)
        if k == "MemberExpr":
            name = n.get("name")
            fd = self.tu.by_id.get(n.get("referencedMemberDecl"))
            rec = (self.tu.parent.get(id(fd)) or {}).get("name") if fd is not None else None
            want = {"item": "tdma_sched_bucket", "num_items": "tdma_sched_bucket",
                    "bucket": "tdma_scheduler", "cur_bucket": "tdma_scheduler"}.get(name)
            if want is not None and rec != want:
                name = "%s::%s" % (rec, name)
            if n.get("isArrow"):
                b = self.target(self.rval(ks[0]))
                self.ring_site(b, C0, n, ks[0], None, bare=True)
                return ("fld", deref(b), name)
            return ("fld", self.lval(ks[0]), name)
        if k == "ArraySubscriptExpr":
            base = self.target(self.rval(ks[0]))
            i = self.rval(ks[1])
            if self.rec and base[0] == "addr" and base[1][0] == "idx" and base[1][2] == C0 \
                    and base[1][1][0] == "fld" and base[1][1][2] == "bucket":
                self.sites.append({"node": self.cur, "S": base[1][1][1], "idx": i, "ast": n, "base_ast": ks[0],
                                   "qt": strip(ks[1]).get("type", {}).get("qualType", "")})
            return deref(padd(base, i))
        if k == "UnaryOperator" and n.get("opcode") == "*":
            b = self.target(self.rval(ks[0]))
            self.ring_site(b, C0, n, ks[0], None, bare=True)
            return deref(b)
        self.unsupported(n, "lvalue")

    def target(self, p):
        """The pointer a dereference goes through.  A pointer that may be NULL (`full ? NULL : &slot`, not decided by
        a NULL test on the way here) designates, wherever the access does not trap, its one non-NULL alternative --
        the access is then judged like any other access to that object (an unguarded item store has no capacity
        guard)."""
        if isinstance(p, tuple) and p[0] == "ite":
            alts = ptr_alternatives(p)
            if len(alts) == 1:
                return next(iter(alts))
            if mentions_scheduler(p):
                raise AnalysisError("%s(): access through a pointer that is one of several scheduler objects (%s) -- "
                                    "unclassifiable" % (self.name, show(p)))
        return p

    def load(self, lv, qt=None):
        if lv[0] == "L":
            return self.get(self.st, lv)
        if lv[0] == "fn":
            return lv
        return ("ld", lv, self.ver(self.group(lv, qt)))

    def store(self, lv, val, n, qt=None, how="assign", extra=None):
        if lv[0] == "L":
            self.st[lv] = val
            return
        if lv[0] == "fn":
            self.unsupported(n, "store")
        grp = self.group(lv, qt)
        if self.rec:
            ev = {"fn": self.name, "node": self.cur, "how": how, "lv": lv, "val": val, "grp": grp, "ast": n}
            if extra:
                ev.update(extra)
            self.stores.append(ev)
        self.bump(grp)

    def ring_site(self, base, i, n, base_ast, idx_ast, bare=False):
        """`sched->bucket + i` selects a frame of the ring exactly like `&sched->bucket[i]`: same index site.
        bare: `*p` / `p->f` with p the decayed array itself: frame 0, whatever the ring position (a pointer to frame 0
        made by an index site looks the same -- that site is a constant index already)."""
        if self.rec and base[0] == "addr" and base[1][0] == "idx" and base[1][2] == C0 \
                and base[1][1][0] == "fld" and base[1][1][2] == "bucket":
            self.sites.append({"node": self.cur, "S": base[1][1][1], "idx": i, "ast": n, "base_ast": base_ast,
                               "qt": strip(idx_ast).get("type", {}).get("qualType", "") if idx_ast is not None else "int"})

    def is_ptr(self, n):
        qt = n.get("type", {}).get("qualType", "")
        return qt.rstrip().endswith("*") or "(*)" in qt

    def arith(self, op, a, b, n):
        if op == "+":
            return X.add(a, b)
        if op == "-":
            return X.sub(a, b)
        if op == "*":
            return X.mul(a, b)
        if op == "%":
            return X.mod(a, b)
        if op == "/":
            return X.div(a, b)
        if op == "&":
            return X.band(a, b)
        if op == "|":
            return X.bor(a, b)
        if op == "^":
            return X.bxor(a, b)
        if op == "<<":
            return X.shl(a, b)
        if op == ">>":
            return X.shr(a, b)
        self.unsupported(n, "operator %s" % op)

    def has_effects(self, n):
        for c in walk(n):
            if kind(c) in ("CallExpr", "CompoundAssignOperator"):
                return True
            if kind(c) == "BinaryOperator" and c.get("opcode") == "=":
                return True
            if kind(c) == "UnaryOperator" and c.get("opcode") in ("++", "--"):
                return True
        return False

    def rval(self, n):
        k = kind(n)
        ks = kids(n)
        if k in ("ParenExpr", "ConstantExpr"):
            return self.rval(ks[0])
        if k == "ImplicitCastExpr":
            ck = n.get("castKind")
            if ck == "LValueToRValue":
                return self.load(self.lval(ks[0]), ks[0].get("type", {}).get("qualType"))
            if ck == "ArrayToPointerDecay":
                c = strip(ks[0])
                if kind(c) == "StringLiteral":
                    return ("str", c.get("value"))
                return ("addr", ("idx", self.lval(ks[0]), C0))
            return self.rval(ks[0])
        if k == "CStyleCastExpr":
            return self.rval(ks[0])
        if k in ("IntegerLiteral", "CharacterLiteral"):
            return X.C(int(n["value"]))
        if k == "StringLiteral":
            return ("str", n.get("value"))
        if k == "UnaryExprOrTypeTraitExpr":
            v = self.tu.fold(n)
            if v is not None:
                return X.C(v)
            return ("sizeof", strip_const(sizeof_operand_type(n)))
        if k == "DeclRefExpr":
            rd = n.get("referencedDecl", {})
            if rd.get("kind") == "EnumConstantDecl":
                v = self.tu.fold(n)
                if v is None:
                    self.unsupported(n, "enumerator")
                return X.C(v)
            lv = self.declref(n)
            if lv[0] == "fn":
                return lv
            if lv[0] in ("loc",) and "[" in n.get("type", {}).get("qualType", ""):
                return ("addr", ("idx", lv, C0))
            return self.load(lv, n.get("type", {}).get("qualType"))
        if k in ("MemberExpr", "ArraySubscriptExpr"):
            return self.load(self.lval(n), n.get("type", {}).get("qualType"))
        if k == "UnaryOperator":
            op = n.get("opcode")
            if op == "&":
                c = strip(ks[0])
                if kind(c) == "DeclRefExpr" and c.get("referencedDecl", {}).get("kind") == "FunctionDecl":
                    return ("fn", c["referencedDecl"].get("name"))
                return addr(self.lval(ks[0]))
            if op == "*":
                lv = deref(self.target(self.rval(ks[0])))
                if lv[0] == "fn":
                    return lv
                return self.load(lv, n.get("type", {}).get("qualType"))
            if op in ("++", "--"):
                lv = self.lval(ks[0])
                qt = ks[0].get("type", {}).get("qualType")
                old = self.load(lv, qt)
                d = C1 if op == "++" else X.C(-1)
                new = padd(old, d) if self.is_ptr(ks[0]) else X.add(old, d)
                self.store(lv, new, n, qt)
                return old if n.get("isPostfix") else new
            a = self.rval(ks[0])
            if op == "-":
                return X.neg(a)
            if op == "+":
                return a
            if op == "!":
                return ("not", a)
            if op == "~":
                return ("call", "~", a)
            self.unsupported(n, "unary %s" % op)
        if k == "BinaryOperator":
            op = n.get("opcode")
            if op == "=":
                lv = self.lval(ks[0])
                v = self.rval(ks[1])
                self.store(lv, v, n, ks[0].get("type", {}).get("qualType"))
                return v
            if op == ",":
                self.rval(ks[0])
                return self.rval(ks[1])
            if op in ("&&", "||"):
                if self.has_effects(ks[1]):
                    raise AnalysisError("%s(): side effect in a short-circuit operand (line %s)" % (
                        self.name, n.get("_line")))
                return ("and" if op == "&&" else "or", self.rval(ks[0]), self.rval(ks[1]))
            v = self.tu.fold(n)
            if v is not None:
                return X.C(v)
            a, b = self.rval(ks[0]), self.rval(ks[1])
            if op in ("<", ">", "<=", ">=", "==", "!="):
                return X.cmp_(op, a, b)
            if op in ("+", "-") and self.is_ptr(ks[0]) and not self.is_ptr(ks[1]):
                self.ring_site(a, b if op == "+" else X.neg(b), n, ks[0], ks[1])
                return padd(a, b if op == "+" else X.neg(b))
            if op == "+" and self.is_ptr(ks[1]) and not self.is_ptr(ks[0]):
                self.ring_site(b, a, n, ks[1], ks[0])
                return padd(b, a)
            return self.arith(op, a, b, n)
        if k == "CompoundAssignOperator":
            op = n.get("opcode")[:-1]
            lv = self.lval(ks[0])
            qt = ks[0].get("type", {}).get("qualType")
            old = self.load(lv, qt)
            b = self.rval(ks[1])
            if self.is_ptr(ks[0]) and op in ("+", "-"):
                new = padd(old, b if op == "+" else X.neg(b))
            else:
                new = self.arith(op, old, b, n)
            self.store(lv, new, n, qt)
            return new
        if k == "ConditionalOperator":
            if self.has_effects(ks[1]) or self.has_effects(ks[2]):
                raise AnalysisError("%s(): side effect inside ?: (line %s)" % (self.name, n.get("_line")))
            return X.ite(self.rval(ks[0]), self.rval(ks[1]), self.rval(ks[2]))
        if k == "CallExpr":
            return self.call(n)
        self.unsupported(n)

    # -- calls ----------------------------------------------------------------------
    def result(self):
        self.k += 1
        return ("res", self.name, self.cur.id, self.k)

    def pointee(self, a):
        c = strip(a, casts=True)
        qt = c.get("type", {}).get("qualType", "")
        return strip_const(qt[:-1]) if qt.rstrip().endswith("*") else strip_const(qt.split("[")[0])

    def call(self, n):
        ks = kids(n)
        callee = strip(ks[0])
        args_ast = ks[1:]
        if kind(callee) == "DeclRefExpr" and callee.get("referencedDecl", {}).get("kind") == "FunctionDecl":
            name = callee["referencedDecl"].get("name")
            args = [self.rval(a) for a in args_ast]
            res = self.result()
            if name in IO_FUNCS:
                pass
            elif name in ("memcpy", "memmove", "memset") and len(args) == 3:
                args[0] = self.target(args[0])
                if name != "memset":
                    args[1] = self.target(args[1])
                lv = deref(args[0])
                pt = self.pointee(args_ast[0])
                self.store(lv, None, n, pt, how="copy" if name != "memset" else "fill",
                           extra={"src": args[1], "size": args[2], "pointee": pt})
            else:
                body = self.tu.functions.get(name)
                sub = None
                if body is not None and any(kind(c) == "CompoundStmt" for c in kids(body)):
                    try:
                        sub = self.ctx.fn(name)
                    except AnalysisError:
                        sub = None
                if sub is None:
                    self.bump("WORLD")
                else:
                    res = self.apply_summary(sub, args, res)
            if self.rec:
                self.calls.append({"node": self.cur, "name": name, "args": args, "res": res, "ast": n})
            return res
        ct = self.rval(ks[0])
        args = [self.rval(a) for a in args_ast]
        res = self.result()
        if self.rec:
            self.icalls.append({"node": self.cur, "callee": ct, "args": args, "res": res, "ast": n})
        self.bump("WORLD")
        return res

    def map_group(self, grp, args):
        if isinstance(grp, tuple) and grp[0] == "pp":
            if grp[1] < len(args):
                return self.group(deref(args[grp[1]]))
            return "OTHER"
        if isinstance(grp, tuple) and grp[0] == "loc":
            return None
        return grp

    def decision(self):
        """The result of a loop-free function as ONE term over its entry state: the returned values of its
        return statements joined by ?: over the branch conditions that select them (`if (c) return a; return b;`
        -> c ? a : b).  None when the function loops, falls off its end, switches, or a value is not a term
        over the entry state."""
        if hasattr(self, "_decision"):
            return self._decision
        self._decision = None
        g = self.g
        rets = {r["node"].id: r["val"] for r in self.rets}
        memo, onpath = {}, set()

        def cond_term(c):
            save = (self.st, self.cur, self.rec, self.k)
            self.st, self.cur, self.rec, self.k = dict(self.inn[c.id]), c, False, 0
            try:
                return self.rval(c.cond)
            finally:
                self.st, self.cur, self.rec, self.k = save

        def go(n):
            if n.id in memo:
                return memo[n.id]
            if n.id in onpath or n is g.exit or n.id not in self.inn:
                raise Unknown()
            onpath.add(n.id)
            try:
                if n.id in rets:
                    r = rets[n.id]
                    if r is None:
                        raise Unknown()
                elif n.kind == "cond":
                    succ = {}
                    for (s, l) in n.succ:
                        if l not in (True, False) or l in succ:
                            raise Unknown()
                        succ[l] = s
                    if getattr(n, "cond", None) is None or not succ:
                        raise Unknown()
                    if len(succ) == 1:
                        r = go(next(iter(succ.values())))
                    else:
                        r = X.ite(cond_term(n), go(succ[True]), go(succ[False]))
                elif n.kind in ("stmt", "entry", "label") and len(n.succ) == 1:
                    r = go(n.succ[0][0])
                else:
                    raise Unknown()
            finally:
                onpath.discard(n.id)
            memo[n.id] = r
            return r
        try:
            self._decision = go(g.entry)
        except (Unknown, AnalysisError):
            self._decision = None
        return self._decision

    def apply_summary(self, sub, args, res):
        writes = {s["grp"] for s in sub.stores}
        if sub.world:
            writes.add("WORLD")
        ret = None
        vals = {r["val"] for r in sub.rets}
        if not writes and (len(vals) == 1 or sub.decision() is not None):
            # one returned value, or several selected by branch conditions (clamp / min / max / sign helpers)
            v = next(iter(vals)) if len(vals) == 1 else sub.decision()
            if v is not None and not any(isinstance(x, tuple) and x[0] in ("phi", "res", "undef", "mv")
                                         for x in subterms(v)):
                def leaf(t):
                    if t[0] == "p":
                        return args[t[1]] if t[1] < len(args) else t
                    if t[0] == "ver":
                        mg = self.map_group(t[1], args)
                        return self.ver(mg) if mg is not None else t
                    return None
                ret = rebuild(v, leaf)
        for gname in sorted(writes, key=repr):
            mg = self.map_group(gname, args)
            if mg is not None:
                self.bump(mg)
        return ret if ret is not None else res

    # -- condition atoms / guards -----------------------------------------------------
    def batoms(self, n, pol):
        n = strip(n)
        k = kind(n)
        ks = kids(n)
        if k == "UnaryOperator" and n.get("opcode") == "!":
            return self.batoms(ks[0], not pol)
        if k == "BinaryOperator":
            op = n.get("opcode")
            if op in ("&&", "||"):
                if (op == "&&") == pol:
                    return self.batoms(ks[0], pol) | self.batoms(ks[1], pol)
                return set()
            if op in ("<", ">", "<=", ">=", "==", "!="):
                a, b = self.rval(ks[0]), self.rval(ks[1])
                if op == "<":
                    return {("<", a, b, pol)}
                if op == ">":
                    return {("<", b, a, pol)}
                if op == ">=":
                    return {("<", a, b, not pol)}
                if op == "<=":
                    return {("<", b, a, not pol)}
                lo, hi = sorted([a, b], key=repr)
                return {("==", lo, hi, pol if op == "==" else not pol)}
        v = self.tu.fold(n)
        if v is not None:
            return set()
        t = self.rval(n)
        if isinstance(t, tuple) and t[0] in ("cmp", "not", "and", "or"):
            return term_atoms(t, pol)     # a local that holds the outcome of a comparison (`full = n >= size; ... if (full)`)
        lo, hi = sorted([C0, t], key=repr)
        return {("==", lo, hi, not pol)}

    def disjuncts(self, n, pol):
        """Alternatives (each a set of atoms, a conjunction) of condition n read as a disjunction under polarity pol;
        None when n is no disjunction, [] when some alternative is opaque (the clause says nothing then)."""
        n = strip(n)
        if kind(n) == "UnaryOperator" and n.get("opcode") == "!":
            return self.disjuncts(kids(n)[0], not pol)
        if kind(n) == "BinaryOperator" and n.get("opcode") in ("&&", "||") and (n.get("opcode") == "&&") != pol:
            out = []
            for x in kids(n)[:2]:
                sub = self.disjuncts(x, pol)
                if sub is None:
                    at = self.batoms(x, pol)
                    sub = [frozenset(at)] if at else []
                if not sub:
                    return []
                out.extend(sub)
            return out
        return None

    def bclauses(self, n, pol):
        """Disjunctions that hold when condition n is true (pol) / false: `!(a && b && c)` gives the clause
        [!a, !b, !c] (list of alternatives)."""
        n = strip(n)
        ks = kids(n)
        if kind(n) == "UnaryOperator" and n.get("opcode") == "!":
            return self.bclauses(ks[0], not pol)
        if kind(n) == "BinaryOperator" and n.get("opcode") in ("&&", "||"):
            if (n.get("opcode") == "&&") == pol:
                return self.bclauses(ks[0], pol) + self.bclauses(ks[1], pol)
            d = self.disjuncts(n, pol)
            return [d] if d else []
        return []

    def clauses(self, c, label):
        key = (c.id, label)
        if key not in self._clauses:
            out = []
            if c.kind == "cond" and getattr(c, "cond", None) is not None and c.id in self.inn and label in (True, False):
                save = (self.st, self.cur, self.rec, self.k)
                self.st, self.cur, self.rec, self.k = dict(self.inn[c.id]), c, False, 0
                try:
                    out = self.bclauses(c.cond, bool(label))
                finally:
                    self.st, self.cur, self.rec, self.k = save
            self._clauses[key] = out
        return self._clauses[key]

    def atoms(self, c, label):
        """Atoms that hold when cond node c is left by `label`."""
        key = (c.id, label)
        if key not in self._atoms:
            out = set()
            if c.kind == "cond" and getattr(c, "cond", None) is not None and c.id in self.inn \
                    and label in (True, False):
                save = (self.st, self.cur, self.rec, self.k)
                self.st, self.cur, self.rec, self.k = dict(self.inn[c.id]), c, False, 0
                try:
                    out = self.batoms(c.cond, bool(label))
                finally:
                    self.st, self.cur, self.rec, self.k = save
                for (pt, null) in list(null_tests(out)):
                    out = out | null_atoms(pt, null)
            self._atoms[key] = out
        return self._atoms[key]

    def guard_edges(self, node):
        if node.id not in self._gatoms:
            self._gatoms[node.id] = self.g.guards(node)
        return self._gatoms[node.id]

    def guard_atoms(self, node):
        out = set()
        for (c, l) in self.guard_edges(node):
            out |= self.atoms(c, l)
        return out

    def upper_bound(self, node, term):
        """Least constant ub with term <= ub on every path to node, and the
        guard edges that give a bound on the term."""
        best, edges = None, []
        known = None
        for (c, l) in self.guard_edges(node):
            ats = set(self.atoms(c, l))
            for cl in self.clauses(c, l):
                # unit resolution: `!(is_item && full)` + is_item (the marker tests left by their other edge) => !full
                if known is None:
                    known = self.guard_atoms(node)
                alive = [d for d in cl if not any((x[0], x[1], x[2], not x[3]) in known for x in d)]
                if len(alive) == 1:
                    ats |= alive[0]
            for a in ats:
                ub = None
                if a[0] == "<" and a[1] == term and a[2][0] == "c" and a[3]:
                    ub = a[2][1] - 1
                elif a[0] == "<" and a[2] == term and a[1][0] == "c" and not a[3]:
                    ub = a[1][1]
                elif a[0] == "==" and a[3] and term in (a[1], a[2]):
                    o = a[2] if a[1] == term else a[1]
                    if o[0] == "c":
                        ub = o[1]
                if ub is not None:
                    edges.append((c, l))
                    if best is None or ub < best:
                        best = ub
        return best, edges

    # -- phi leaves -------------------------------------------------------------------------
    def is_phi(self, t, key=None, node=None):
        return isinstance(t, tuple) and len(t) == 4 and t[0] == "phi" and t[1] == self.name and \
            (key is None or t[2] == self.keyname(key)) and (node is None or t[3] == node.id)

    def in_loop(self, h, p):
        return self.g.dominates(h, p) and self.g.reachable(p, h)

    def leaves(self, keys, h):
        """Joint incoming values of state keys at merge node h, expanded
        through the merges inside the loop of h: list of
        (pred node, edge label, [values], comes-from-inside-the-loop)."""
        byid = {n.id: n for n in self.g.nodes}
        keyof = {}
        for st in self.inn.values():
            for k in st:
                keyof[self.keyname(k)] = k

        def inner(vals):
            ms = set()
            for v in vals:
                for x in subterms(v):
                    if self.is_phi(x) and x[3] != h.id and self.in_loop(h, byid[x[3]]):
                        ms.add(x[3])
            return ms

        out = []
        work = []
        for (p, l) in h.pred:
            if p.id in self.out:
                st = self.edge_state(p, l)
                work.append((p, l, [self.get(st, k) for k in keys]))
        steps = 0
        while work:
            p, l, vals = work.pop()
            steps += 1
            if steps > 200:
                raise AnalysisError("%s(): merge structure too deep to classify" % self.name)
            ms = inner(vals)
            if not ms:
                out.append((p, l, vals, self.in_loop(h, p)))
                continue
            cand = [byid[i] for i in ms]
            last = [a for a in cand if all(self.g.dominates(b, a) for b in cand)]
            if not last:
                raise AnalysisError("%s(): merge structure unclassifiable" % self.name)
            m = last[0]
            for (q, ql) in m.pred:
                if q.id not in self.out:
                    continue
                st = self.edge_state(q, ql)

                def leaf(t, st=st, m=m):
                    if self.is_phi(t) and t[3] == m.id and t[2] in keyof:
                        return self.get(st, keyof[t[2]])
                    return None
                work.append((q, ql, [rebuild(v, leaf) for v in vals]))
        return out

    def edge_atoms(self, p, label):
        """Atoms that hold whenever the CFG edge (p, label) is taken."""
        return self.guard_atoms(p) | self.atoms(p, label)

    def line(self, node):
        a = node.ast if node is not None else None
        return a.get("_line") if isinstance(a, dict) else None


# =========================================================================== rules

class A:
    """Everything the rules share: the TU, struct extents, per-function dataflow results."""

    def __init__(self, L):
        self.L = L
        self.tu = TU(L.repo, "fw", MAIN, L=L)
        self.F = self.tu.rel
        L.unit(os.path.join(FW, "include/layer1/tdma_sched.h"))
        fb = dict(self.tu.record_fields("tdma_sched_bucket"))
        fs = dict(self.tu.record_fields("tdma_scheduler"))
        fi = dict(self.tu.record_fields("tdma_sched_item"))
        self.NCB = array_extent(fb.get("item"))
        self.NFR = array_extent(fs.get("bucket"))
        if self.NCB is None or self.NFR is None or "num_items" not in fb or "cur_bucket" not in fs \
                or any(f not in fi for f in ("cb", "p1", "p2", "p3", "prio")):
            raise AnalysisError("scheduler struct layout anchors vanished (item[]/num_items/bucket[]/cur_bucket/cb,p1,p2,p3,prio)")
        if strip_const(fb["item"]).split("[")[0].strip() != "struct tdma_sched_item":
            raise AnalysisError("tdma_sched_bucket.item is no longer an array of struct tdma_sched_item")
        self.ctx = Ctx(self.tu)
        self.fns = {}
        self.folds = []                   # ring indices decided by evaluation: (function, what, exhaustive, text)
        self.tus = {}                     # other parsed translation units, by file
        base = os.path.basename(MAIN)
        for name, d in self.tu.functions.items():
            if os.path.basename(d.get("_file") or "") == base and any(kind(c) == "CompoundStmt" for c in kids(d)):
                self.fns[name] = self.ctx.fn(name)
                L.fn(self.F, name)
        for need in ("tdma_schedule", "tdma_schedule_set", "tdma_sched_advance", "tdma_sched_execute"):
            if need not in self.fns:
                raise AnalysisError("anchor function %s() vanished from %s" % (need, self.F))

    def ob(self, rule, fn, key, required, found, ok, node=None):
        line = None
        if node is not None:
            line = node.get("_line") if isinstance(node, dict) else \
                (node.ast.get("_line") if isinstance(node.ast, dict) else None)
        self.L.ob(rule, self.F, fn, key, required, found, ok, line)


def store_desc(s):
    slot = item_slot(s["lv"])
    if slot is None:
        return show(s["lv"])
    rel = show(s["lv"])[len(show(slot)):]
    I = slot[2]
    idx = "num_items" if (I[0] == "ld" and I[1] == ("fld", slot[1][1], "num_items")) else show(I)
    what = "item[%s]%s" % (idx, rel)
    if s["how"] == "copy":
        return "memcpy into %s" % what
    if s["how"] == "fill":
        return "memset of %s" % what
    return "%s = %s" % (what, show(s["val"]))


def slot_groups(fn):
    groups = {}
    for s in fn.stores:
        if s["grp"] != "item":
            continue
        slot = item_slot(s["lv"])
        if slot is None or s["how"] == "fill":
            raise AnalysisError("%s(): store into item[] that is not a single slot: %s" % (fn.name, show(s["lv"])))
        groups.setdefault(slot, []).append(s)
    return groups


def slot_contents(fn, slot, sts):
    """Final contents of a slot after its stores (applied in dominance order):
    field -> value term."""
    g = fn.g
    rank = []
    for i, s in enumerate(sts):
        rank.append((sum(1 for t in sts if t is not s and t["node"] is not s["node"]
                         and g.dominates(t["node"], s["node"])), i, s))
    rank.sort(key=lambda r: (r[0], r[1]))
    order = [r[2] for r in rank]
    for x, y in zip(order, order[1:]):
        if x["node"] is not y["node"] and not g.dominates(x["node"], y["node"]):
            raise AnalysisError("%s(): stores into one item slot are not on one straight path -- unclassifiable" % fn.name)
    fields = {}
    for s in order:
        lv = s["lv"]
        if lv == slot:
            if s["how"] == "copy":
                size = s.get("size")
                if size != ("sizeof", "struct tdma_sched_item"):
                    raise AnalysisError("%s(): item copy of size %s (not sizeof(struct tdma_sched_item)) -- unclassifiable" % (
                        fn.name, show(size) if size is not None else "?"))
                srcl = deref(s["src"])
            elif s["how"] == "assign" and s["val"] is not None and s["val"][0] == "ld":
                srcl = s["val"][1]
            else:
                raise AnalysisError("%s(): whole-slot store of unclassifiable shape" % fn.name)
            for f in ITEM_FIELDS:
                fields[f] = ("ld", ("fld", srcl, f), None)
        elif lv[0] == "fld" and lv[1] == slot and s["how"] == "assign":
            fields[lv[2]] = s["val"]
        else:
            raise AnalysisError("%s(): partial store %s into an item slot -- unclassifiable" % (fn.name, show(lv)))
    return fields


def reach1(g, start, skip=()):
    """Nodes reachable from start by at least one edge, not passing `skip`."""
    skip_ids = {n.id for n in skip}
    seen = set()
    work = [s for (s, _) in start.succ if s.id not in skip_ids]
    while work:
        n = work.pop()
        if n.id in seen:
            continue
        seen.add(n.id)
        for (s, _) in n.succ:
            if s.id not in seen and s.id not in skip_ids:
                work.append(s)
    return seen


def is_zero_fill(s):
    return s["how"] == "fill" and s.get("src") == C0


# ---------------------------------------------------------------- R1 capacity guard

def r1_capacity(a):
    R = "C08.R1"
    ext = a.NCB
    nstores = ngroups = 0
    for name, fn in a.fns.items():
        g = fn.g
        istores = [s for s in fn.stores if s["grp"] == "item"]
        nwrites = [s for s in fn.stores if s["grp"] == "num_items"]
        for s in fn.stores:
            if s["grp"] == "ALL" and not is_zero_fill(s):
                raise AnalysisError("%s(): whole-struct store into the scheduler (%s) is unclassifiable" % (
                    name, show(s["lv"])))
        groups = {}
        for s in istores:
            slot = item_slot(s["lv"])
            if slot is None or s["how"] == "fill":
                raise AnalysisError("%s(): store into item[] that is not a single slot: %s" % (name, show(s["lv"])))
            groups.setdefault(slot, []).append(s)
        nstores += len(istores)
        ngroups += len(groups)
        store_nodes = {s["node"].id for s in istores} | {s["node"].id for s in nwrites}
        counted = {}                      # (B, version term) of slot groups
        for slot, sts in groups.items():
            B, I = slot[1][1], slot[2]
            num = ("fld", B, "num_items")
            gdesc = "%s(): slot %s.item[%s]" % (name, show(B), show(I))
            good_index = I[0] == "ld" and I[1] == num
            if not good_index and not contains(I, num):
                raise AnalysisError("%s is not selected through the bucket's num_items -- unclassifiable" % gdesc)
            a.ob(R, name, "%s is indexed by the same bucket's fill count num_items" % gdesc,
                 show(("ld", num, None)), show(I), good_index, sts[0]["node"])
            if not good_index:
                continue
            counted[(B, I)] = sts
            guard_edges = {}
            for s in sts:
                ub, edges = fn.upper_bound(s["node"], I)
                if ub is None and any(at[0] == "==" and I in (at[1], at[2]) for at in fn.guard_atoms(s["node"])):
                    raise AnalysisError("%s(): capacity test on num_items by (in)equality only -- unclassifiable" % name)
                for (c, l) in edges:
                    guard_edges[(c.id, l)] = (c, l)
                a.ob(R, name, "%s(): %s is dominated by the capacity check num_items < ARRAY_SIZE(item) on the same "
                     "bucket with no num_items write in between" % (name, store_desc(s)),
                     "num_items <= %d on every path" % (ext - 1),
                     "no bound" if ub is None else "num_items <= %d" % ub,
                     ub is not None and ub <= ext - 1, s["node"])
            for (c, l) in guard_edges.values():
                other = [s for (s, sl) in c.succ if sl != l]
                reach = set()
                for o in other:
                    reach |= {o.id} | reach1(g, o)
                bad = []
                if c.id in reach:
                    bad.append("continues with the loop")
                if reach & store_nodes:
                    bad.append("stores an item / writes num_items")
                for r in fn.rets:
                    if r["node"].id in reach:
                        v = r["val"]
                        if not (v is not None and v[0] == "c" and v[1] < 0):
                            bad.append("returns %s" % (show(v) if v is not None else "nothing"))
                if not any(r["node"].id in reach for r in fn.rets):
                    bad.append("does not return")
                a.ob(R, name, "%s(): the bucket-full branch of the capacity check reports an error and stores nothing" % name,
                     "returns a negative constant, no store", "; ".join(bad) if bad else "returns a negative constant, no store",
                     not bad, c.ast)
        # every write of num_items: +1 of a count that indexed a stored slot, or 0
        incs = {}
        for w in nwrites:
            lv, val = w["lv"], w["val"]
            B = lv[1] if lv[0] == "fld" else None
            if w["how"] != "assign" or B is None:
                raise AnalysisError("%s(): write to num_items of unclassifiable shape" % name)
            if val == C0:
                continue
            old = X.sub(val, C1)
            key = (B, old)
            is_inc = old[0] == "ld" and old[1] == lv
            if is_inc and key not in counted:
                # the count that was incremented is the one that indexed a stored slot, re-read after a call the
                # analysis cannot see into (no known write of num_items in between): whether it still is that count
                # is not decidable here -- no verdict instead of "second increment"
                for (B2, I2) in counted:
                    v1, v2 = old[2], I2[2]
                    if unver(B2) == unver(B) and unver(I2) == unver(old) and isinstance(v1, tuple) and \
                            isinstance(v2, tuple) and v1[:3] == v2[:3] and v1 != v2:
                        raise AnalysisError("%s(): num_items is incremented after a call into code the analysis cannot see "
                                            "(it may have changed the count that indexed the stored slot) -- unclassifiable" % name)
            a.ob(R, name, "%s(): write %s.num_items = %s is the single increment belonging to a stored item (or a reset to 0)" % (
                name, show(B), show(val)),
                "num_items + 1 for a slot stored at item[num_items]",
                "increment matches a stored slot" if key in counted else
                ("increment without a stored item / second increment" if is_inc else "other value"),
                key in counted, w["node"])
            if key in counted:
                incs.setdefault(key, []).append(w["node"])
        for key, sts in counted.items():
            inodes = incs.get(key, [])
            for s in sts:
                n = s["node"]
                if not inodes:
                    cnt = 0
                elif any(g.dominates(i, n) for i in inodes):
                    cnt = 1
                else:
                    after = reach1(g, n, skip=inodes)
                    cnt = 1 if (g.exit.id not in after and n.id not in after) else "0 on some path"
                a.ob(R, name, "%s(): num_items is incremented exactly once for %s" % (name, store_desc(s)),
                     1, cnt, cnt == 1, n)
            # ... and the other way round: no path counts an item that is never stored.  The pairing is decided on the
            # path structure, in either statement order (store, then count -- count, then store): a store of the slot
            # dominates the increment, or every path from the increment on passes a store of the slot.
            snodes = [s["node"] for s in sts]
            for i in inodes:
                if any(n is i or g.dominates(n, i) for n in snodes):
                    backed = True
                else:
                    after = reach1(g, i, skip=snodes)
                    backed = g.exit.id not in after and i.id not in after
                a.ob(R, name, "%s(): every path that counts an item in %s.num_items stores that item (before or after "
                     "the increment)" % (name, show(key[0])),
                     "slot stored on every path through the increment",
                     "slot stored on every path through the increment" if backed else
                     "a path increments num_items and leaves without storing the item",
                     backed, i)
    a.L.floor(R, "item store statements in tdma_sched.c", nstores, 3)
    a.L.floor(R, "item slot groups (tdma_schedule, tdma_schedule_set)", ngroups, 2)


# ---------------------------------------------------------------- R2 ring discipline

def ring_form(I, S):
    cur = ("fld", S, "cur_bucket")

    def is_cur(t):
        return t[0] == "ld" and t[1] == cur
    if is_cur(I):
        return ("cur", I)
    if I[0] == "mod":
        inner, n = I[1], I[2]
        terms = inner[1:] if inner[0] == "+" else (inner,)
        curs = [t for t in terms if is_cur(t)]
        if len(curs) == 1 and n[0] == "c":
            rest = [t for t in terms if t is not curs[0]]
            return ("wrap", X.add(*rest) if rest else C0, n[1], curs[0])
        return ("mod-other", n)
    terms = I[1:] if I[0] == "+" else (I,)
    if any(is_cur(t) for t in terms):
        return ("nowrap",)
    return None


# Ring positions decided by VALUE.  An index expression that is not in the normal form (cur_bucket + x) mod ring
# (a division-free wrap: compare / subtract, `%` only as a fall-back; a hand-rolled `cur < ring-1 ? cur+1 : 0`) is
# abstracted to a function f(cur, off) of the ring position and the offset term -- every load of cur_bucket becomes
# the variable `cur`, the offset term D becomes the variable `off` (one addend x of D is replaced by off - (D - x);
# the linear normal form cancels the rest) -- and f is evaluated for every ring position 0..ring-1 (the invariant R2
# itself establishes for cur_bucket: zero-initialised, written only by the advance with a value on the ring) and every
# offset 0..max of the offset's C type (uint8_t: all 256 values -- an exhaustive fold of a finite domain, a proof for
# every input of that type under the module's integer-conversion assumption; wider types: the first RING_FOLD_CAP
# offsets, recorded as an open structural proof).  f must equal (cur + off) mod ring everywhere: a difference inside
# the property's quantifier (offsets 0..ring-1) is a violation with the concrete (position, offset, found, expected),
# a difference beyond it (offsets of more than one revolution) is "no verdict".  Anything that is not arithmetic /
# comparison / ?: over cur and off alone, or an intermediate sum that is negative for some input (the terms do not
# model C's unsigned wrap-around), is not decided here and falls back to the normal-form rule.
UNDECIDED = ("%s(): bucket index %s is neither in the normal form (cur_bucket + x) mod ring nor a function of the ring "
             "position and the offset alone that evaluates without negative intermediate values (C's unsigned "
             "wrap-around is not modelled) -- unclassifiable")
VCUR, VOFF = ("v", "cur"), ("v", "off")
RING_FOLD_CAP = 1024
FOLD_KINDS = {"c", "v", "+", "*", "mod", "div", "cmp", "not", "and", "or", "ite", "&", "|", "^", "<<", ">>"}
_FOLD_MEMO = {}


def cur_loads(I, S):
    cur = ("fld", S, "cur_bucket")
    return {t for t in subterms(I) if isinstance(t, tuple) and len(t) == 3 and t[0] == "ld" and t[1] == cur}


def infer_offset(I, curt):
    """The non-constant part D of the sums `cur_bucket + D + const` in I (C0 when cur_bucket only occurs with
    constants); None when the occurrences disagree."""
    parts = set()
    for t in subterms(I):
        if isinstance(t, tuple) and t[0] == "+" and curt in t[1:]:
            parts.add(X.add(*[x for x in t[1:] if x != curt and x[0] != "c"]))
    if not parts:
        return C0
    if len(parts) != 1:
        return None
    return next(iter(parts))


def offset_max(fn, D, node=None):
    """Largest value of the offset term: by a dominating guard `leaf < constant` at `node`, else by the C types of its
    leaves (None: unknown)."""
    if D[0] == "c":
        return D[1]
    total = 0
    for x in (D[1:] if D[0] == "+" else (D,)):
        if x[0] == "c":
            total += x[1]
            continue
        if x[0] == "phi" and x[2].startswith("#"):
            continue                      # ghost counter: the count of increments of a typed variable already in D
        qt = None
        ub = fn.upper_bound(node, x)[0] if node is not None else None
        if ub is not None and ub >= 0:
            total += ub
            continue
        if x[0] == "p" and x[1] < len(fn.params):
            t = int_type(fn.tu, fn.params[x[1]].get("type"))
        elif fn.is_phi(x):
            qt = [fn.vtype.get(k[1]) for st in fn.inn.values() for k in st if k[0] == "L" and fn.keyname(k) == x[2]]
            t = int_type(fn.tu, {"qualType": qt[0]}) if qt and qt[0] else None
        else:
            t = None
        if t is None:
            return None
        total += (1 << (t[1] - (1 if t[2] else 0))) - 1
    return total


def fold_leaf(env):
    """Leaf evaluator for eval_term over the variables of `env`; a sum / product that is negative for the evaluated
    input is not decided (the value terms are mathematical integers, C's unsigned wrap-around is not modelled)."""
    def val(t):
        if t[0] == "v":
            return env[t[1]]
        if t[0] in ("+", "*"):
            r = 0 if t[0] == "+" else 1
            for y in t[1:]:
                if t[0] == "+" and y[0] == "*":
                    p = 1
                    for z in y[1:]:
                        p *= eval_term(z, val)
                    r += p
                elif t[0] == "+":
                    r += eval_term(y, val)
                else:
                    r *= eval_term(y, val)
            if r < 0:
                raise Unknown()
            return r
        return None
    return val


def foldable(f):
    return not any(isinstance(t, tuple) and (t[0] not in FOLD_KINDS or (t[0] == "v" and t not in (VCUR, VOFF)))
                   for t in subterms(f))


def ring_step(a, fn, t, S, BN, D, delta, atoms, what):
    """Induction step of a ring position that is carried from one loop iteration to the next (`if (++nr >= ring)
    nr = 0;` instead of recomputing (cur_bucket + offset) mod ring): under the hypothesis BN == (cur_bucket + D) mod
    ring at the loop head, is the value t that reaches the loop head over one path == (cur_bucket + D + delta) mod
    ring?  Evaluated for every ring position and offset that satisfies the path's branch conditions (`atoms`: those
    over the carried position / the offset are evaluated, those over other state -- the entry's callback -- are
    independent of the position).  -> (ok, text) | None (not decidable here)."""
    ring = a.NFR
    loads = cur_loads(t, S)
    for at in atoms:
        loads |= cur_loads(at[1], S) | cur_loads(at[2], S)
    if len(loads) > 1 or D[0] == "c":
        return None
    adds = D[1:] if D[0] == "+" else (D,)
    cand = [y for y in adds if y[0] == "p"]
    if not cand:
        return None
    x, rest = cand[0], X.sub(D, cand[0])
    hyp = ("mod", X.add(VCUR, VOFF), X.C(ring))

    def leaf(y):
        if y in loads:
            return VCUR
        if y == BN:
            return hyp
        if y == x:
            return X.sub(VOFF, rest)
        return None
    f = rebuild(t, leaf)
    if not foldable(f):
        return None
    conds = []
    for at in atoms:
        l, r = rebuild(at[1], leaf), rebuild(at[2], leaf)
        if foldable(l) and foldable(r):
            conds.append((at[0], l, r, at[3]))
        elif any(v in (VCUR, VOFF) for v in list(subterms(l)) + list(subterms(r))):
            return None                   # a condition that mixes the position with other state
    dm = offset_max(fn, D)
    exhaustive = dm is not None and dm < RING_FOLD_CAP
    dmax = dm if exhaustive else RING_FOLD_CAP - 1
    env = {}
    val = fold_leaf(env)
    bad = None
    feasible = 0
    try:
        for d in range(dmax + 1):
            for c in range(ring):
                env.update(cur=c, off=d)
                holds = True
                for (op, l, r, pol) in conds:
                    lv, rv = eval_term(l, val), eval_term(r, val)
                    if ((lv < rv) if op == "<" else (lv == rv)) != pol:
                        holds = False
                        break
                if not holds:
                    continue
                feasible += 1
                got, want = eval_term(f, val), (c + d + delta) % ring
                if got != want:
                    bad = (c, d, got, want)
                    break
            if bad is not None:
                break
    except Unknown:
        return None
    if bad is not None:
        c, d, got, want = bad
        return False, "%s carried into the next iteration is %d instead of %d when it was %d (cur_bucket=%d, offset %s=%d)" % (
            show(t), got, want, (c + d) % ring, c, show(D), d)
    a.folds.append((fn.name, what, exhaustive, "induction step evaluated"))
    if not feasible:
        return True, "path never taken for a position on the ring"
    return True, "(previous position + %d) mod %d for all %d ring positions x offset %s in 0..%d (induction step evaluated)" % (
        delta, ring, ring, show(D), dmax)


def ring_fold(fn, I, S, ring, D=None, base=0, node=None):
    """Decide I == (cur_bucket + D + base) mod ring by evaluation (see above).  D None: the offset term is inferred and
    the rotation constant is f(0, 0) (R2: any fixed rotation of the ring position stays on the ring).
    -> None (not decidable here) | dict(ok, quant, text, exhaustive, D)"""
    loads = cur_loads(I, S)
    inferred = D is None
    if len(loads) > 1 or (inferred and not loads):
        return None
    curt = next(iter(loads)) if loads else None       # no load: an index that ignores the ring position is decided too
    if inferred:
        D = infer_offset(I, curt)
        if D is None:
            return None
    x = rest = None
    if D[0] != "c":
        adds = D[1:] if D[0] == "+" else (D,)
        cand = [t for t in adds if t[0] == "p"] or [t for t in adds if t[0] not in ("c", "*")]
        if not cand:
            return None
        x = cand[0]
        rest = X.sub(D, x)
        dfix = None
    else:
        dfix = D[1]
        if inferred:
            dfix = 0

    def leaf(t):
        if t == curt:
            return VCUR
        if x is not None and t == x:
            return X.sub(VOFF, rest)
        return None
    f = rebuild(I, leaf)
    if not foldable(f):
        return None
    if x is not None:
        dm = offset_max(fn, D, node)
        exhaustive = dm is not None and dm < RING_FOLD_CAP
        dmax = dm if exhaustive else RING_FOLD_CAP - 1
        offs = range(0, dmax + 1)
    else:
        exhaustive, offs = True, (dfix,)
    key = (f, ring, tuple(offs) if len(offs) == 1 else (offs[0], offs[-1]), base, inferred, D, exhaustive)
    if key in _FOLD_MEMO:
        res = _FOLD_MEMO[key]
        return dict(res, D=D) if res is not None else None
    env = {}
    val = fold_leaf(env)
    rot = base
    bad_in = bad_out = None
    res = None
    try:
        if inferred:
            env.update(cur=0, off=0)
            rot = eval_term(f, val)
        for d in offs:
            for c in range(ring):
                env.update(cur=c, off=d)
                got = eval_term(f, val)
                want = (c + d + rot) % ring
                if got != want:
                    w = (c, d, got, want)
                    if d < ring and bad_in is None:
                        bad_in = w
                    elif d >= ring and bad_out is None:
                        bad_out = w
            if bad_in is not None or (bad_out is not None and d >= ring):
                break
        offtxt = "offset %s" % show(D) if x is not None else None
        dom = "all %d ring positions" % ring + (" x %s in 0..%d" % (offtxt, offs[-1]) if x is not None else "")
        target = "(cur_bucket + %s) mod %d" % (show(X.add(D if not inferred or x is not None else C0, X.C(rot))), ring)
        if bad_in is not None or bad_out is not None:
            c, d, got, want = bad_in or bad_out
            text = "differs from %s at cur_bucket=%d%s: %d instead of %d" % (
                target, c, ", %s=%d" % (offtxt, d) if x is not None else "", got, want)
        else:
            text = "equals %s for %s (evaluated)" % (target, dom)
        res = {"ok": bad_in is None and bad_out is None, "quant": bad_in is not None, "text": text,
               "exhaustive": exhaustive, "rot": rot}
    except Unknown:
        res = None
    _FOLD_MEMO[key] = res
    return dict(res, D=D) if res is not None else None


def ring_decide(a, fn, I, S, D, what, node=None):
    """Placement of a bucket index by value, for an index that is not in the normal form: (ok, text) or None when the
    fold cannot decide it.  A difference outside the property's quantifier is no verdict."""
    r = ring_fold(fn, I, S, a.NFR, D, node=node)
    if r is None:
        return None
    if not r["ok"] and not r["quant"]:
        raise AnalysisError("%s(): %s %s -- for offsets below the ring size it is the scheduled frame; offsets of a "
                            "revolution or more are outside the property's quantifier, no verdict" % (fn.name, what, r["text"]))
    a.folds.append((fn.name, what, r["exhaustive"] or not r["ok"], r["text"]))
    return r["ok"], r["text"]


def key_by_name(fn, kn):
    for st in fn.inn.values():
        for k in st:
            if fn.keyname(k) == kn:
                return k
    raise AnalysisError("%s(): merge symbol %s has no variable" % (fn.name, kn))


def phi_node(fn, t):
    for n in fn.g.nodes:
        if n.id == t[3]:
            return n
    raise AnalysisError("merge node vanished")


def counter_leaves(fn, I):
    """(start values, steps) of a merge symbol that is a loop counter, else None."""
    h = phi_node(fn, I)
    lv = fn.leaves([key_by_name(fn, I[2])], h)
    starts, steps = [], []
    for (p, l, vals, inside) in lv:
        v = vals[0]
        if v == I:
            continue
        d = X.sub(v, I)
        if inside and d[0] == "c":
            steps.append(d[1])
        elif not inside:
            starts.append(v)
        else:
            return None
    return starts, steps


def classify_index(fn, site, ring, a=None):
    """-> (ok, text) ; raises AnalysisError when the index shape is unknown."""
    I, S = site["idx"], site["S"]

    def verdict(rf):
        if rf[0] == "cur":
            return True, "cur_bucket"
        if rf[0] == "wrap":
            return rf[2] == ring, "(cur_bucket + %s) mod %d" % (show(rf[1]), rf[2])
        if rf[0] == "mod-other":
            return False, "reduced modulo %s but not relative to cur_bucket" % show(rf[1])
        return False, "cur_bucket + offset without reduction modulo the ring size"
    rf = ring_form(I, S)
    if rf is not None:
        if rf[0] == "nowrap" and fn.upper_bound(site["node"], I)[0] is not None:
            raise AnalysisError("%s(): bucket index %s bounded by a comparison instead of a modulus -- unclassifiable" % (
                fn.name, show(I)))
        return verdict(rf)
    if I[0] == "c":
        raise AnalysisError("%s(): constant bucket index %s -- unclassifiable" % (fn.name, show(I)))
    if a is not None and cur_loads(I, S):
        r = ring_decide(a, fn, I, S, None, "bucket index %s" % show(I), site["node"])
        if r is not None:
            return r
    if fn.is_phi(I):
        h = phi_node(fn, I)
        lv = fn.leaves([key_by_name(fn, I[2])], h)
        nonself = [vals[0] for (p, l, vals, inside) in lv if vals[0] != I]

        def by_value(v):
            f = ring_form(v, S)
            if f is not None:
                return verdict(f)
            if a is not None and cur_loads(v, S):
                return ring_decide(a, fn, v, S, None, "bucket index %s" % show(v), site["node"])
            return None

        def by_range(p, l, v):
            """A value reaching the merge that is a constant or a step from the merged position itself (`if (++nr >=
            ring) nr = 0;`): induction on "the position is on the ring" -- for every position 0..ring-1 that satisfies
            the branch conditions of the path, the value is on the ring again."""
            def leaf(y):
                return VCUR if y == I else None
            f = rebuild(v, leaf)
            if a is None or not foldable(f) or VOFF in subterms(f):
                return None
            conds = []
            for at in fn.edge_atoms(p, l):
                x, y = rebuild(at[1], leaf), rebuild(at[2], leaf)
                if foldable(x) and foldable(y) and VOFF not in subterms(x) and VOFF not in subterms(y):
                    conds.append((at[0], x, y, at[3]))
                elif VCUR in subterms(x) or VCUR in subterms(y):
                    return None
            env = {}
            val = fold_leaf(env)
            try:
                for c in range(ring):
                    env["cur"] = c
                    if any((((eval_term(x, val) < eval_term(y, val)) if op == "<" else
                             (eval_term(x, val) == eval_term(y, val))) != pol) for (op, x, y, pol) in conds):
                        continue
                    got = eval_term(f, val)
                    if not 0 <= got < ring:
                        return False, "position %d is followed by %d (%s)" % (c, got, show(v))
            except Unknown:
                return None
            a.folds.append((fn.name, "bucket index %s" % show(I), True, "induction step evaluated"))
            return True, "stepped position kept in [0, %d] (evaluated for every position)" % (ring - 1)
        forms = [by_value(v) for v in nonself]
        if nonself and all(f is not None for f in forms):
            res = forms
            bad = [t for ok, t in res if not ok]
            if bad:
                return False, bad[0]
            return True, "ring position on every path: " + " | ".join(sorted({t for ok, t in res}))
        cl = counter_leaves(fn, I)
        if cl is not None and cl[1] and all(s > 0 for s in cl[1]) and cl[0] and \
                all(v[0] == "c" and v[1] >= 0 for v in cl[0]):
            ub, _ = fn.upper_bound(site["node"], I)
            if ub is None:
                return False, "loop counter without an upper bound"
            return ub <= ring - 1, "loop counter in [%d, %d]" % (min(v[1] for v in cl[0]), ub)
        if fn.upper_bound(site["node"], I)[0] is None:
            # no bound at the use: the position must be on the ring at the merge itself, by induction over its sources
            forms = [f or by_range(p, l, vals[0]) for f, (p, l, vals, inside) in
                     zip(forms, [x for x in lv if x[2][0] != I])]
            if nonself and all(f is not None for f in forms):
                bad = [t for ok, t in forms if not ok]
                if bad:
                    return False, bad[0]
                return True, "ring position on every path: " + " | ".join(sorted({t for ok, t in forms}))
    raise AnalysisError("%s(): bucket index %s is neither cur_bucket, a wrapped offset nor a bounded loop counter "
                        "-- unclassifiable" % (fn.name, show(I)))


def ring_alias(fn, n):
    """The mention `n` of the ring array only initialises / is assigned to a local pointer that is written nowhere
    else in the function (never stepped): the pointer IS the ring base wherever it is used, and the value tracking
    records each of its uses (p[i], p + i, *p, p->f) as an index site of the ring."""
    tu = fn.tu
    top = n
    par = tu.parent.get(id(top))
    while par is not None and kind(par) in ("ImplicitCastExpr", "ParenExpr", "CStyleCastExpr", "ConstantExpr"):
        top, par = par, tu.parent.get(id(par))
    did = None
    if par is not None and kind(par) == "VarDecl":
        did = par.get("id")
    elif par is not None and kind(par) == "BinaryOperator" and par.get("opcode") == "=" and kids(par)[1] is top:
        lhs = strip(kids(par)[0])
        if kind(lhs) == "DeclRefExpr":
            did = lhs.get("referencedDecl", {}).get("id")
    if did is None or fn.vclass.get(did) != "scalar":
        return False
    writes = 0
    for x in walk(fn.f):
        k = kind(x)
        if k == "VarDecl" and x.get("id") == did and x.get("init"):
            writes += 1
        elif (k == "BinaryOperator" and x.get("opcode") == "=") or k == "CompoundAssignOperator" or \
                (k == "UnaryOperator" and x.get("opcode") in ("++", "--")):
            t = strip(kids(x)[0])
            if kind(t) == "DeclRefExpr" and t.get("referencedDecl", {}).get("id") == did:
                writes += 1
    return writes == 1


def r2_ring(a):
    R = "C08.R2"
    ring = a.NFR
    nsites = 0
    for name, fn in a.fns.items():
        for site in fn.sites:
            nsites += 1
            ok, text = classify_index(fn, site, ring, a)
            a.ob(R, name, "%s(): index %s.bucket[%s] stays on the ring of %d frames" % (
                name, show(site["S"]), show(site["idx"]), ring),
                "cur_bucket | (cur_bucket + offset) mod %d | loop counter in [0, %d]" % (ring, ring - 1),
                text, ok, site["node"])
    # Floors on anchors, not on the number of index expressions (which legitimately varies: a lookup factored into a
    # helper such as tdma_cur_bucket() merges two sites into one): (1) each of the three anchor operations reaches at
    # least one classified bucket[] index, in its own body or in a helper of this file it calls; (2) completeness --
    # every evaluated mention of the ring array `bucket` in this file IS the base of a classified index (sizeof /
    # ARRAY_SIZE operands are not evaluated), so no access to the ring escapes the classification above.
    def closure(name, seen):
        if name in seen or name not in a.fns:
            return seen
        seen.add(name)
        for c in a.fns[name].calls:
            closure(c["name"], seen)
        return seen
    anchors = ("tdma_schedule", "tdma_schedule_set", "tdma_sched_execute")
    reach = [n for n in anchors if any(a.fns[m].sites for m in closure(n, set()))]
    a.L.floor(R, "anchor operations (%s) that reach a classified bucket[] index" % ", ".join(anchors), len(reach), len(anchors))
    a.L.floor(R, "index sites into bucket[]", nsites, 1)
    for name, fn in a.fns.items():
        covered = set()
        for site in fn.sites:
            b = strip(site["base_ast"], casts=True)
            if kind(b) == "MemberExpr":
                covered.add(id(b))
        stack = [fn.f]
        while stack:
            n = stack.pop()
            if kind(n) == "UnaryExprOrTypeTraitExpr":
                continue
            if kind(n) == "MemberExpr" and n.get("name") == "bucket" and id(n) not in covered:
                fd = a.tu.by_id.get(n.get("referencedMemberDecl"))
                rec = (a.tu.parent.get(id(fd)) or {}).get("name") if fd is not None else None
                if rec == "tdma_scheduler" and not ring_alias(fn, n):
                    raise AnalysisError("%s(): the ring array `bucket` is used other than as the base of an index expression "
                                        "(line %s) -- the accessed frame is unclassifiable" % (name, n.get("_line")))
            stack.extend(c for c in kids(n) if isinstance(c, dict))
    wb = a.fns.get("wrap_bucket")
    if wb is not None:
        vals = {r["val"] for r in wb.rets}
        # one returned value, or several return statements selected by branch conditions (compare / subtract with a
        # modulo fall-back): the result as one ?: term over the entry state
        v = next(iter(vals)) if len(vals) == 1 else (wb.decision() if vals and not wb.stores and not wb.world else None)
        if (len(vals) != 1 and v is None) or len(wb.params) != 1:
            raise AnalysisError("wrap_bucket(): not a one-argument helper whose result is a term over its argument and "
                                "the ring position -- unclassifiable")
        pw = ("p", 0, wb.params[0].get("name"))
        rf = ring_form(v, SCHED) if v is not None else None
        good = rf is not None and rf[0] == "wrap" and rf[2] == ring and rf[1] == pw
        found = show(v) if v is not None else "nothing"
        if rf is None and v is not None:
            r = ring_decide(a, wb, v, SCHED, pw, "the result of wrap_bucket()")
            if r is not None:
                good, found = r[0], (found if not r[0] else "") + (" -- " if not r[0] else "") + r[1]
        a.ob(R, "wrap_bucket", "wrap_bucket(offset) is (cur_bucket + offset) reduced modulo ARRAY_SIZE(bucket)",
             "(sched.cur_bucket + offset) mod %d" % ring, found, good,
             wb.rets[0]["node"] if wb.rets else None)
    writers = []
    for name, fn in a.fns.items():
        for s in fn.stores:
            root, comps = lv_path(s["lv"])
            whole_sched = s["grp"] == "ALL" and "[]" not in comps
            if s["grp"] == "cur_bucket" or whole_sched:
                writers.append((name, fn, s))
    a.L.floor(R, "writers of cur_bucket in tdma_sched.c", len(writers), 1)
    entry_ver = ("ver", "cur_bucket", "entry", "entry")
    for name, fn, s in writers:
        a.ob(R, name, "cur_bucket is written only by tdma_sched_advance: writer in %s()" % name,
             "tdma_sched_advance", name, name == "tdma_sched_advance", s["node"])
        if name != "tdma_sched_advance":
            continue
        val = s["val"]
        rf = ring_form(val, s["lv"][1]) if (s["how"] == "assign" and val is not None) else None
        good = rf is not None and rf[0] == "wrap" and rf[1] == C1 and rf[2] == ring and rf[3][2] == entry_ver
        found = show(val) if val is not None else s["how"]
        if rf is not None and rf[0] == "wrap" and rf[3][2] != entry_ver:
            found += " (of an already advanced position)"
        if rf is None and s["how"] == "assign" and val is not None:
            loads = cur_loads(val, s["lv"][1])
            r = ring_decide(a, fn, val, s["lv"][1], C1, "the new ring position") if len(loads) == 1 else None
            if r is not None:
                good = r[0] and next(iter(loads))[2] == entry_ver
                if r[0]:
                    found = r[1] + ("" if good else " (of an already advanced position)")
                else:
                    found += " -- " + r[1]
        a.ob(R, name, "tdma_sched_advance sets cur_bucket to (cur_bucket + 1) mod ARRAY_SIZE(bucket): %s" % found,
             "(sched.cur_bucket + 1) mod %d" % ring, found, good, s["node"])
    adv = a.fns["tdma_sched_advance"]
    wn = {s["node"].id for (n, f, s) in writers if n == "tdma_sched_advance"}
    cp = sorted(adv.g.count_paths(lambda n: n.id in wn)[adv.g.exit.id])
    a.ob(R, "tdma_sched_advance", "tdma_sched_advance writes cur_bucket exactly once on every path",
         [1], cp, cp == [1], adv.f)



# ---------------------------------------------------------------- R3 frame placement

def r3_single(a):
    R = "C08.R3"
    name = "tdma_schedule"
    fn = a.fns[name]
    groups = slot_groups(fn)
    if len(groups) != 1 or len(fn.params) != 6:
        raise AnalysisError("tdma_schedule(): expected one stored item slot and six parameters -- unclassifiable")
    (slot, sts), = groups.items()
    B = slot[1][1]
    if not (B[0] == "idx" and B[1][0] == "fld" and B[1][2] == "bucket"):
        raise AnalysisError("tdma_schedule(): item is not stored through sched->bucket[...] -- unclassifiable")
    p0 = ("p", 0, fn.params[0].get("name"))
    rf = ring_form(B[2], B[1][1])
    good = rf is not None and rf[0] == "wrap" and rf[1] == p0 and rf[2] == a.NFR
    found = show(B[2])
    if rf is None:
        r = ring_decide(a, fn, B[2], B[1][1], p0, "the bucket tdma_schedule stores into")
        if r is not None:
            good, found = r[0], r[1] if r[0] else found + " -- " + r[1]
        else:
            raise AnalysisError(UNDECIDED % (name, found))
    a.ob(R, name, "tdma_schedule stores into the bucket frame_offset frames after the current one",
         "(cur_bucket + %s) mod %d" % (p0[2], a.NFR), found, good, sts[0]["node"])
    fields = slot_contents(fn, slot, sts)
    for i, f in enumerate(("cb", "p1", "p2", "p3", "prio")):
        want = ("p", i + 1, fn.params[i + 1].get("name"))
        got = fields.get(f)
        if got is not None and got[0] == "ld" and lv_path(got[1])[0][0] == "loc":
            raise AnalysisError("tdma_schedule(): item assembled in a local aggregate -- unclassifiable")
        a.ob(R, name, "tdma_schedule stores the caller's argument #%d into item field %s" % (i + 2, f),
             show(want), show(got) if got is not None else "not stored", got == want, sts[0]["node"])


def find_edges(fn, pred):
    out = []
    for c in fn.g.nodes:
        if c.kind != "cond" or c.id not in fn.inn:
            continue
        for l in (True, False):
            if any(pred(at) for at in fn.atoms(c, l)):
                out.append((c, l))
    return out


def r3_set(a):
    R = "C08.R3"
    name = "tdma_schedule_set"
    base = a.fns[name]
    groups = slot_groups(base)
    if len(groups) != 1 or len(base.params) != 3:
        raise AnalysisError("tdma_schedule_set(): expected one stored item slot and three parameters -- unclassifiable")
    (slot, sts), = groups.items()
    fields = slot_contents(base, slot, sts)
    cbv = fields.get("cb")
    if cbv is None or cbv[0] != "ld" or cbv[1][0] != "fld" or cbv[1][2] != "cb":
        raise AnalysisError("tdma_schedule_set(): stored callback is not copied from a set entry -- unclassifiable")
    ENT = cbv[1][1]                                # lvalue of the set entry being copied
    pset = ("p", 1, base.params[1].get("name"))
    # the entry is item_set[index] (index a loop variable) or *ptr (ptr walking from item_set)
    if ENT[0] == "deref" and ENT[1][0] == "padd" and ENT[1][1] == pset:
        IDX, walk_ptr = ENT[1][2], False
    elif ENT[0] == "deref" and base.is_phi(ENT[1]):
        IDX, walk_ptr = ENT[1], True
    else:
        raise AnalysisError("tdma_schedule_set(): copied entry %s is neither item_set[index] nor a pointer walking the set "
                            "-- unclassifiable" % show(ENT))
    for f in ("cb", "p1", "p2", "prio"):
        got = fields.get(f)
        good = got is not None and got[0] == "ld" and got[1] == ("fld", ENT, f)
        a.ob(R, name, "the copied item keeps field %s of its set entry" % f, show(("fld", ENT, f)),
             show(got) if got is not None else "not stored", good, sts[0]["node"])
    p3 = ("p", 2, base.params[2].get("name"))
    a.ob(R, name, "p3 of the copied item is the caller's p3", show(p3),
         show(fields.get("p3")) if fields.get("p3") is not None else "not stored", fields.get("p3") == p3, sts[-1]["node"])

    cbl = ("fld", ENT, "cb")

    def is_null(at, pol=True):
        return at[0] == "==" and at[3] == pol and at[1] == C0 and at[2][0] == "ld" and at[2][1] == cbl

    def is_end(at, pol=True):
        if at[0] != "==" or at[3] != pol:
            return False
        x, y = at[1], at[2]
        return (x == ("fn", "tdma_end_set") and y[0] == "ld" and y[1] == cbl) or \
               (y == ("fn", "tdma_end_set") and x[0] == "ld" and x[1] == cbl)
    null_edges = find_edges(base, is_null)
    end_edges = find_edges(base, is_end)
    if len(null_edges) != 1 or len(end_edges) != 1:
        raise AnalysisError("tdma_schedule_set(): the end-of-frame (cb == NULL) / end-of-set (cb == &tdma_end_set) tests on the "
                            "copied entry were found %d / %d times instead of once -- unclassifiable" % (
                                len(null_edges), len(end_edges)))
    (cn, ln), (ce, le) = null_edges[0], end_edges[0]
    # second run with a ghost counter K of consumed end-of-frame markers
    K = ("G", "K")
    fn = Fn(a.ctx, name, ghost={(cn.id, ln): K})
    groups = slot_groups(fn)
    (slot, sts), = groups.items()
    B = slot[1][1]
    # the bucket the slot belongs to: sched->bucket[index], or a local pointer carried around the loop whose every
    # value is &sched->bucket[index] (pointer-to-element alias, resolved leaf by leaf below); any other access path is a
    # shape the induction does not cover -- the witness folds (R8, R10, R11) decide then, see the end of this function
    S = BN = PB = shape = None
    if B[0] == "idx" and B[1][0] == "fld" and B[1][2] == "bucket":
        S, BN = B[1][1], B[2]
    elif B[0] == "deref" and fn.is_phi(B[1]):
        PB = B[1]
    else:
        shape = "item is not stored through sched->bucket[...] or a pointer to such an element (%s)" % show(B)
    if not fn.is_phi(IDX):
        raise AnalysisError("tdma_schedule_set(): entry position %s is not a loop variable -- unclassifiable" % show(IDX))
    h = phi_node(fn, IDX)
    g = fn.g
    # (b) entries are visited in order
    bad = []
    for (p, l, vals, inside) in fn.leaves([key_by_name(fn, IDX[2])], h):
        v = vals[0]
        if walk_ptr:
            if inside and v != ("padd", IDX, C1):
                bad.append("loop continues with entry pointer %s" % show(v))
            if not inside and v != pset:
                bad.append("starts at %s" % show(v))
            continue
        if inside and X.sub(v, IDX) != C1:
            bad.append("loop continues with index %s" % show(v))
        if not inside and v != C0:
            bad.append("starts at index %s" % show(v))
    a.ob(R, name, "set entries are examined in order, one per iteration, starting at item_set[0]",
         "index 0, then +1 on every iteration", "; ".join(sorted(set(bad))) if bad else "index 0, then +1 on every iteration",
         not bad, h.ast)
    # (a) inductive placement: bucket == (cur_bucket + frame_offset + K) mod ring
    p0 = ("p", 0, fn.params[0].get("name"))
    Kh = fn.get(fn.inn[h.id], K)
    sigma = {}
    for key, val in fn.inn[h.id].items():
        if key[0] != "L" or not fn.is_phi(val, key, h):
            continue
        # a loop variable that moves in step with the marker count K: it is its start value (the caller's offset, or
        # a constant -- a marker counter of the code's own) + K at the loop head
        okk = True
        starts = set()
        for (p, l, vals, inside) in fn.leaves([key, K], h):
            v, kv = vals
            if inside:
                okk = okk and X.sub(v, val) == X.sub(kv, Kh)
            else:
                okk = okk and (v == p0 or v[0] == "c") and kv == C0
                starts.add(v)
        if okk and len(starts) == 1:
            sigma[val] = X.add(next(iter(starts)), Kh)

    def sub(t):
        return rebuild(t, lambda x: sigma.get(x))

    def placed(t, kv):
        """is bucket index t == (cur + frame_offset + kv) mod ring ?  -> (ok, found text)"""
        t = sub(t)
        rf = ring_form(t, S)
        if rf is None:
            r = ring_decide(a, fn, t, S, X.add(p0, kv), "the bucket index of tdma_schedule_set")
            if r is not None:
                txt = "bucket index " + (r[1] if r[0] else show(t) + " -- " + r[1])
                evaluated.add(txt)
                return r[0], txt
            raise AnalysisError(UNDECIDED % (name, show(t)))
        return rf is not None and rf[0] == "wrap" and rf[2] == a.NFR and rf[1] == X.add(p0, kv), "bucket index %s" % show(t)
    res = {"first": [], "marker": [], "item": []}
    evaluated = set()                     # failure texts that come with a concrete (ring position, offset): decided by value
    if shape is not None:
        pass
    elif PB is not None:
        # pointer-to-element alias: every value the pointer takes around the loop is itself (nothing consumed) or
        # &S->bucket[t]; t is then judged like a bucket number recomputed at that point
        lvs = fn.leaves([key_by_name(fn, PB[2]), K], h) if PB[3] == h.id else None
        elems = lambda v: v[0] == "addr" and v[1][0] == "idx" and v[1][1][0] == "fld" and v[1][1][2] == "bucket"
        odd = sorted({show(vals[0]) for (p, l, vals, inside) in lvs or [] if vals[0] != PB and not elems(vals[0])})
        bases = {vals[0][1][1][1] for (p, l, vals, inside) in lvs or [] if vals[0] != PB and elems(vals[0])}
        if lvs is None:
            shape = "the bucket pointer %s is not carried around the loop over the set" % show(PB)
        elif odd or len(bases) != 1:
            shape = "the bucket pointer %s takes a value that is not the address of an element of one sched->bucket[] (%s)" % (
                show(PB), "; ".join(odd) or "several rings")
        else:
            S = next(iter(bases))
            try:
                for (p, l, vals, inside) in lvs:
                    v, kv = vals
                    cls = "first" if not inside else ("item" if kv == Kh else "marker")
                    res[cls].append((kv == Kh, "bucket pointer unchanged") if v == PB else placed(v[1][2], kv))
            except AnalysisError as e:    # an element index the ring forms / the fold over the offset's domain cannot decide
                res = {"first": [], "marker": [], "item": []}
                shape = "the bucket pointer %s is re-pointed with an element index that is not decided (%s)" % (
                    show(PB), str(e).replace(" -- unclassifiable", ""))
    elif fn.is_phi(BN) and BN[3] == h.id:
        for (p, l, vals, inside) in fn.leaves([key_by_name(fn, BN[2]), K], h):
            v, kv = vals
            cls = "first" if not inside else ("item" if kv == Kh else "marker")
            if v == BN:
                good = kv == Kh
                txt = "bucket index unchanged"
            else:
                r = None
                dl = X.sub(kv, Kh)
                if inside and dl[0] == "c" and not cur_loads(sub(v), S) and ring_form(sub(v), S) is None:
                    # a position stepped from the previous iteration's: induction step under the path's conditions
                    r = ring_step(a, fn, sub(v), S, BN, X.add(p0, Kh), dl[1],
                                  [(at[0], sub(at[1]), sub(at[2]), at[3]) for at in fn.edge_atoms(p, l)],
                                  "the bucket index tdma_schedule_set carries from frame to frame")
                good, txt = r if r is not None else placed(v, kv)
                if r is not None and not good:
                    txt = "bucket index " + txt
                    evaluated.add(txt)
            res[cls].append((good, txt))
    else:
        good, txt = placed(BN, Kh)
        for cls in res:
            res[cls].append((good, txt))
    want = {"first": "(cur_bucket + %s) mod %d" % (p0[2], a.NFR),
            "marker": "frame offset advanced by one and bucket = (cur_bucket + offset) mod %d recomputed" % a.NFR,
            "item": "bucket index and frame offset unchanged"}
    keytxt = {"first": "the first frame of a set is placed frame_offset frames after the current one",
              "marker": "after an end-of-frame marker (cb == NULL) the following items go exactly one frame later",
              "item": "storing an item does not move the frame the set is filling"}
    if not res["marker"] and shape is None:
        res["marker"].append((False, "no path from the marker branch back to the loop"))
    # The placement above is an inductive invariant at the loop head -- sufficient, not necessary: code that keeps the
    # bucket number current only where an item is stored (looked up once per run of markers, ...) breaks the invariant
    # without misplacing anything.  A failure that is a mismatch of symbolic forms / an unchanged carried value (not a
    # value computed for a concrete ring position and offset) therefore stands as a violation only when the fold of
    # the function over witness sets (R8) has found an item in a wrong frame too; when that fold ran and found every
    # item in its frame, the invariant is merely "not established": no verdict.
    fold = getattr(a, "set_fold", None)
    unproven = []
    for cls in ("first", "marker", "item"):
        if not res[cls]:
            continue
        badt = sorted({t for (ok, t) in res[cls] if not ok})
        if badt and not any(t in evaluated for t in badt) and fold is not None and not any(fold.values()):
            unproven.append("%s: %s" % (keytxt[cls], "; ".join(badt)))
            continue
        a.ob(R, name, keytxt[cls], want[cls], "; ".join(badt) if badt else want[cls], not badt, sts[0]["node"])
    if shape is not None:
        shape = "tdma_schedule_set(): %s -- unclassifiable" % shape
    # (c) nothing is stored for markers
    incs = [s for s in fn.stores if s["grp"] == "num_items"]
    for s in list(sts) + incs:
        ats = fn.guard_atoms(s["node"])
        nn = any(is_null(at, False) for at in ats)
        ne = any(is_end(at, False) for at in ats)
        what = store_desc(s) if s["grp"] == "item" else "num_items write"
        a.ob(R, name, "%s happens only for real entries (cb neither NULL nor &tdma_end_set)" % what,
             "guarded by cb != NULL and cb != &tdma_end_set",
             "guarded by " + " and ".join((["cb != NULL"] if nn else []) + (["cb != &tdma_end_set"] if ne else [])) if (nn or ne)
             else "not guarded", nn and ne, s["node"])
    # (d) the end marker leaves the loop
    reach = set()
    for (s, sl) in ce.succ:
        if sl == le:
            reach |= {s.id} | reach1(g, s)
    a.ob(R, name, "the end-of-set marker (cb == &tdma_end_set) leaves the loop without storing",
         "loop left", "loop continues" if h.id in reach else "loop left",
         h.id not in reach and not (reach & {s["node"].id for s in sts}), ce.ast)
    # The induction is the for-all-sets record of the placement; the alarm decision is the witness folds' (R8: 31 sets x 3
    # points, R10: every ring position x offset, R11: full frames).  Where the folds ran and found every item in its frame,
    # an access path / invariant the induction does not recognise leaves the record open and blocks nothing; where R8's
    # fold could not be run (or disagrees: reported there) an unrecognised shape is `no verdict`.
    def induction():
        if shape is not None:
            raise AnalysisError(shape)
        for cls in ("first", "marker", "item"):
            badt = sorted({t for (ok, t) in res[cls] if not ok})
            a.ob(R, name, keytxt[cls], want[cls], "; ".join(badt) if badt else want[cls], not badt, sts[0]["node"])
    if fold is not None and not any(fold.values()):
        a.L.structural("C08.R3: tdma_schedule_set() keeps bucket == (cur_bucket + frame_offset + markers consumed) mod %d at "
                       "the head of its loop -- placement of every set, by induction (alarm decision: folds R8/R10/R11)" % a.NFR,
                       induction)
    elif shape is not None:
        raise AnalysisError(shape)



# ---------------------------------------------------------------- R4 execute / empty

def r4_execute(a):
    R = "C08.R4"
    name = "tdma_sched_execute"
    fn = a.fns[name]
    g = fn.g
    a.L.floor(R, "callback invocations in tdma_sched_execute", len(fn.icalls), 1)
    entry_cur = ("ld", ("fld", SCHED, "cur_bucket"), ("ver", "cur_bucket", "entry", "entry"))
    Bcur = ("idx", ("fld", SCHED, "bucket"), entry_cur)
    a.sort = None
    for ic in fn.icalls:
        ct = ic["callee"]
        if not (ct[0] == "ld" and ct[1][0] == "fld" and ct[1][2] == "cb"):
            raise AnalysisError("tdma_sched_execute(): indirect call through %s is not an item callback -- unclassifiable" % show(ct))
        IT = ct[1][1]
        if not (IT[0] == "idx" and IT[1][0] == "fld" and IT[1][2] == "item"):
            raise AnalysisError("tdma_sched_execute(): callback %s is not taken from bucket->item[] -- unclassifiable" % show(ct))
        B, J = IT[1][1], IT[2]
        if len(ic["args"]) != 3:
            raise AnalysisError("tdma_sched_execute(): callback invoked with %d arguments" % len(ic["args"]))
        for arg, f in zip(ic["args"], ("p1", "p2", "p3")):
            good = arg[0] == "ld" and arg[1] == ("fld", IT, f)
            a.ob(R, name, "the callback of an item is invoked with that item's own %s" % f,
                 show(("fld", IT, f)), show(arg), good, ic["node"])
        a.ob(R, name, "the executed items are those of the current frame's bucket",
             show(Bcur), show(B), unver(B) == unver(Bcur), ic["node"])
        # position: seq[i], i = 0 .. num_items-1
        # the order sequence: an array of this function -- automatic, or static (only this function and the helpers it
        # hands the array to can reach it; whether its entries are written before they are read is R9's question)
        if not (J[0] == "ld" and J[1][0] == "idx" and
                (J[1][1][0] == "loc" or (J[1][1][0] == "g" and J[1][1][1].startswith(name + ".")))):
            raise AnalysisError("tdma_sched_execute(): executed slot %s is not taken from a local order sequence -- unclassifiable" % show(J))
        SEQ, POS = J[1][1], J[1][2]
        a.seq_lv = SEQ
        if not fn.is_phi(POS):
            raise AnalysisError("tdma_sched_execute(): position %s is not a loop variable -- unclassifiable" % show(POS))
        h = phi_node(fn, POS)
        bad = []
        for (p, l, vals, inside) in fn.leaves([key_by_name(fn, POS[2])], h):
            v = vals[0]
            if inside and X.sub(v, POS) != C1:
                bad.append("loop continues with position %s" % show(v))
            if not inside and v != C0:
                bad.append("starts at position %s" % show(v))
        # Upper end of the executed positions, decided by value: every guard of the callback that limits the
        # position (pos < T, pos <= T, pos != T for a position counting up from 0) gives a bound term T; T is
        # evaluated for each fill level n = 0 .. ARRAY_SIZE(item) of the executed bucket (the range R1 establishes
        # for num_items: incremented only below the capacity, otherwise reset to 0).  The positions executed for
        # fill level n are 0 .. min(T)(n)-1 and must be 0 .. n-1.  How T is written -- the field itself, a cached
        # copy, a clamping / min helper or ?: that is the identity on 0..capacity -- is irrelevant.
        NUM = ("fld", B, "num_items")
        bounds = []
        for at in fn.guard_atoms(ic["node"]):
            if at[0] == "<" and at[3] and at[1] == POS:
                bounds.append(at[2])                                   # pos < T
            elif at[0] == "<" and not at[3] and at[2] == POS:
                bounds.append(X.add(at[1], C1))                        # !(T < pos)  ==  pos < T + 1
            elif at[0] == "==" and not at[3] and POS in (at[1], at[2]) and at[1] != at[2]:
                bounds.append(at[2] if at[1] == POS else at[1])        # pos != T, pos counts up from 0

        def fill_level(n):
            def leaf(t):
                if t[0] == "ld" and t[1] == NUM:
                    return n
                return None
            return leaf
        table, opaque = [], []
        for T in bounds:
            try:
                table.append((T, [eval_term(T, fill_level(n)) for n in range(a.NCB + 1)]))
            except Unknown:
                opaque.append(T)
        eff = [min(row[n] for (_T, row) in table) for n in range(a.NCB + 1)] if table else None
        short = [n for n in range(a.NCB + 1) if eff is not None and eff[n] < n]
        if short:
            n = short[0]
            bad.append("only positions 0 .. %d are executed when the bucket holds %d items (bound %s)" % (
                eff[n] - 1, n, " / ".join(sorted(show(T) for (T, _r) in table))))
        elif opaque or eff is None:
            raise AnalysisError("tdma_sched_execute(): the executed positions are limited by %s, which cannot be evaluated "
                                "for the fill levels 0..%d of the executed bucket -- unclassifiable" % (
                                    " / ".join(sorted(show(T) for T in opaque)) or "no comparison of the position", a.NCB))
        else:
            long_ = [n for n in range(a.NCB + 1) if eff[n] > n]
            if long_:
                n = long_[0]
                bad.append("positions 0 .. %d are executed when the bucket holds only %d items (bound %s)" % (
                    eff[n] - 1, n, " / ".join(sorted(show(T) for (T, _r) in table))))
        okt = "positions 0 .. num_items-1, each once"
        a.ob(R, name, "every item of the bucket is executed once: positions 0 .. num_items-1 of the priority sequence",
             okt, "; ".join(sorted(set(bad))) if bad else okt, not bad, h.ast)
        sorts = [c for c in fn.calls if ("addr", ("idx", SEQ, C0)) in c["args"] and c["name"] in a.fns]
        good = len(sorts) == 1 and ("addr", B) in sorts[0]["args"] and g.dominates(sorts[0]["node"], h)
        a.ob(R, name, "the execution order is the sequence produced by the priority sort of the same bucket, computed before the loop",
             "sort(bucket, seq) dominates the loop", "sort(bucket, seq) dominates the loop" if good else
             "%d sort calls on the sequence / other bucket / not before the loop" % len(sorts), good, ic["node"])
        if good:
            c = sorts[0]
            a.sort = (c["name"], c["args"].index(("addr", B)), c["args"].index(("addr", ("idx", SEQ, C0))))
    # emptied on every non-error return
    cnodes = {ic["node"].id for ic in fn.icalls}
    enodes, dnodes = set(), set()
    NUMcur = ("fld", Bcur, "num_items")
    for s in fn.stores:
        if s["grp"] == "num_items" and s["how"] == "assign" and s["val"] == C0 and \
                unver(s["lv"]) == unver(NUMcur):
            enodes.add(s["node"].id)
        elif s["grp"] == "ALL" and is_zero_fill(s) and unver(s["lv"]) == unver(Bcur):
            enodes.add(s["node"].id)
        elif s["grp"] in ("num_items", "ALL") and \
                (unver(s["lv"]) == unver(NUMcur) or (s["grp"] == "ALL" and unver(s["lv"]) == unver(Bcur))):
            dnodes.add(s["node"].id)       # the current bucket's count is set to something that is not known to be 0
    enodes -= dnodes

    # A branch edge that can only be taken when the current bucket holds no item establishes "empty" as well as a
    # store of 0 does (fast path `if (bucket->num_items == 0) return 0;`, `if (!n) goto out;` with a cached count,
    # `num_items < 1`, ...).  Decided by value: the atoms of the edge are evaluated for every fill level
    # n = 0 .. ARRAY_SIZE(item) of the current bucket (the range R1 establishes); the edge proves emptiness iff
    # n = 0 is the only level that satisfies them.  The tested count must be the count at the branch (same memory
    # version: no store / call-back between the load and the test); a test of an older count proves nothing here
    # and is remembered as `stale` (-> no verdict instead of an alarm, see below).
    stale = set()

    def zero_edge(p, l):
        if p.kind != "cond" or l not in (True, False) or p.id not in fn.out:
            return False
        now = fn.ver("num_items", fn.out[p.id])
        ok_levels = set(range(a.NCB + 1))
        old_levels = set(ok_levels)
        for at in fn.atoms(p, l):
            lds = [x for x in subterms(("t", at[1], at[2])) if isinstance(x, tuple) and x[0] == "ld"
                   and unver(x[1]) == unver(NUMcur)]
            if not lds:
                continue
            fresh = all(x[2] == now for x in lds)
            sat = set()
            for n in range(a.NCB + 1):
                def leaf(t, n=n):
                    if t[0] == "ld" and unver(t[1]) == unver(NUMcur):
                        return n
                    return None
                try:
                    x, y = eval_term(at[1], leaf), eval_term(at[2], leaf)
                except Unknown:
                    sat = None
                    break
                if ((x < y) if at[0] == "<" else (x == y)) == bool(at[3]):
                    sat.add(n)
            if sat is None:
                continue
            old_levels &= sat
            if fresh:
                ok_levels &= sat
        if ok_levels == {0}:
            return True
        if old_levels == {0}:
            stale.add(p.id)
        return False
    zedges = {(p.id, l) for n in g.nodes for (p, l) in n.pred if p.id in fn.inn and zero_edge(p, l)}
    clean_in = {n.id: True for n in g.nodes}
    clean_out = dict(clean_in)
    clean_in[g.entry.id] = False
    for _ in range(len(g.nodes) + 2):
        changed = False
        for n in g.nodes:
            if n.id not in fn.inn:
                continue
            if n is not g.entry:
                ci = all(clean_out[p.id] or (p.id, l) in zedges for (p, l) in n.pred if p.id in fn.inn)
            else:
                ci = False
            co = True if n.id in enodes else (False if (n.id in cnodes or n.id in dnodes) else ci)
            if (ci, co) != (clean_in[n.id], clean_out[n.id]):
                clean_in[n.id], clean_out[n.id] = ci, co
                changed = True
        if not changed:
            break
    results = {ic["res"] for ic in fn.icalls}
    nret = 0
    ends = [(r["node"], r["val"]) for r in fn.rets] + \
           [(p, None) for (p, _l) in g.exit.pred if p.id in fn.inn and kind(p.ast) != "ReturnStmt"]
    for node, val in ends:
        ats = fn.guard_atoms(node)
        exempt = any(any(x in results for x in subterms(at[1])) or any(x in results for x in subterms(at[2])) for at in ats)
        if exempt:
            continue
        nret += 1
        if not clean_in[node.id] and any(c.id in stale for (c, _l) in fn.guard_edges(node)):
            raise AnalysisError("tdma_sched_execute(): the path to `return %s` is taken only when an EARLIER reading of the "
                                "current bucket's num_items was 0 (stores / call-backs lie between the reading and the test) "
                                "-- whether the bucket is still empty there is unclassifiable" % (
                                    show(val) if val is not None else ""))
        a.ob(R, name, "the executed bucket is emptied (num_items = 0) after the last callback on the path to `return %s`" % (
            show(val) if val is not None else ""),
            "emptied", "emptied" if clean_in[node.id] else "not emptied after the last callback on some path",
            clean_in[node.id], node)
    a.L.floor(R, "non-error exits of tdma_sched_execute", nret, 1)
    return a.sort


# ---------------------------------------------------------------- R5 sort shape

def r5_shape(a, sort):
    R = "C08.R5"
    if sort is None:
        raise AnalysisError("tdma_sched_execute(): the priority sort helper could not be identified")
    name, bi, qi = sort
    fn = a.fns[name]
    g = fn.g
    SEQ = ("p", qi, fn.params[qi].get("name"))
    BK = deref(("p", bi, fn.params[bi].get("name")))

    def seq_idx(lv):
        if lv == ("deref", SEQ):
            return C0
        if lv[0] == "deref" and lv[1][0] == "padd" and lv[1][1] == SEQ:
            return lv[1][2]
        return None
    sst = [s for s in fn.stores if s["grp"] == ("pp", qi)]
    if any(s["how"] != "assign" or seq_idx(s["lv"]) is None for s in sst):
        raise AnalysisError("%s(): write to the order sequence of unclassifiable shape" % name)
    ident = [s for s in sst if s["val"] == seq_idx(s["lv"])]
    exch = [s for s in sst if s["val"] != seq_idx(s["lv"])]
    if len(ident) != 1 or len(exch) != 2:
        raise AnalysisError("%s(): no longer has the selection-sort shape (identity stores %d, exchange stores %d)" % (
            name, len(ident), len(exch)))
    # identity over all slots
    s = ident[0]
    I = seq_idx(s["lv"])
    cl = counter_leaves(fn, I) if fn.is_phi(I) else None
    if cl is None:
        raise AnalysisError("%s(): identity initialisation is not a counting loop -- unclassifiable" % name)
    ub, _ = fn.upper_bound(s["node"], I)
    good = cl[0] == [C0] and cl[1] and all(st == 1 for st in cl[1]) and ub == a.NCB - 1
    a.ob(R, name, "seq[] is initialised to the identity for all TDMASCHED_NUM_CB slots",
         "seq[i] = i for i = 0 .. %d" % (a.NCB - 1),
         "seq[i] = i for i = %s .. %s step %s" % ("/".join(show(v) for v in cl[0]), ub if ub is not None else "unbounded",
                                               "/".join(str(x) for x in cl[1])), good, s["node"])
    a.ob(R, name, "the identity initialisation precedes the exchanges", "before",
         "before" if not any(g.reachable(e["node"], s["node"]) for e in exch) else "reachable from an exchange",
         not any(g.reachable(e["node"], s["node"]) for e in exch), s["node"])
    # exchange
    e1, e2 = exch
    l1, l2 = e1["lv"], e2["lv"]
    v1, v2 = e1["val"], e2["val"]
    if not (v1[0] == "ld" and v2[0] == "ld" and v1[1] == l2 and v2[1] == l1 and v1[2] == v2[2]
            and fn.guard_atoms(e1["node"]) == fn.guard_atoms(e2["node"])):
        raise AnalysisError("%s(): the two sequence stores are not an exchange of two positions -- no longer selection-sort shape" % name)
    i1, i2 = seq_idx(l1), seq_idx(l2)

    def later(x, y):
        """position y starts right after position x (inner loop variable)"""
        if not fn.is_phi(y):
            return False
        c = counter_leaves(fn, y)
        if c is None or not c[0]:
            return False
        return all(X.sub(v, x)[0] == "c" and X.sub(v, x)[1] > 0 for v in c[0]) and all(st > 0 for st in c[1])
    if later(i1, i2):
        EL, LL = l1, l2
    elif later(i2, i1):
        EL, LL = l2, l1
    else:
        raise AnalysisError("%s(): cannot tell which exchanged position is the earlier one -- no longer selection-sort shape" % name)

    def item_of(t):
        """the item lvalue whose field is loaded by term t, and the field"""
        if t[0] == "ld" and t[1][0] == "fld":
            return t[1][1], t[1][2]
        return None, None

    def is_pos(it, poslv):
        return it[0] == "idx" and it[1] == ("fld", BK, "item") and it[2][0] == "ld" and it[2][1] == poslv
    ats = fn.guard_atoms(e1["node"])
    cmps = []
    for at in ats:
        if at[0] not in ("<", "=="):
            continue
        fa, fb = item_of(at[1])[1], item_of(at[2])[1]
        if fa in ITEM_FIELDS or fb in ITEM_FIELDS:
            cmps.append(at)
    if not cmps:
        raise AnalysisError("%s(): the exchange is not guarded by a comparison of item fields -- no longer selection-sort shape" % name)
    fields = sorted({item_of(x)[1] or "?" for at in cmps for x in (at[1], at[2])})
    a.ob(R, name, "the exchange decision compares prio only", ["prio"], fields,
         fields == ["prio"] and len(cmps) == 1 and cmps[0][0] == "<", e1["node"])
    if fields != ["prio"] or len(cmps) != 1 or cmps[0][0] != "<":
        return
    at = cmps[0]
    ia, ib = item_of(at[1])[0], item_of(at[2])[0]

    # the comparison node and the version of the order sequence it sees
    cnode = None
    for (c, l) in fn.guard_edges(e1["node"]):
        if at in fn.atoms(c, l):
            cnode = c
    if cnode is None:
        raise AnalysisError("%s(): comparison node of the exchange not found" % name)
    grp = ("pp", qi)
    vcur = fn.ver(grp, fn.inn[cnode.id])
    e_el = e1 if e1["lv"] == EL else e2
    last = e2 if g.dominates(e1["node"], e2["node"]) else e1
    vafter = fn.ver(grp, fn.out[last["node"].id])

    def item_at(poslv, version):
        return ("idx", ("fld", BK, "item"), ("ld", poslv, version))

    def current(it, poslv):
        """Does lvalue `it` denote bucket->item[seq[pos]] for the sequence as it is
        at the comparison?  True / False (can be stale) / None (unclassifiable)."""
        if is_pos(it, poslv):
            return it[2][2] == vcur
        if it[0] == "deref" and fn.is_phi(it[1]):
            P = it[1]
            h = phi_node(fn, P)
            vh = fn.ver(grp, fn.inn[h.id])
            if vh != vcur:
                return None
            keys = [key_by_name(fn, P[2]), ("M", grp), ("W",), ("W2",)]
            verdict = True
            for (p, l, vals, inside) in fn.leaves(keys, h):
                pv = vals[0]
                vleaf = ("ver", grp, vals[1], vals[2], vals[3])
                if pv == P:
                    ok = vleaf == vh                       # neither pointer nor sequence changed
                elif pv == ("addr", item_at(poslv, vleaf)):
                    ok = True                              # re-read from the sequence
                elif pv[0] == "addr" and pv[1][0] == "idx" and pv[1][1] == ("fld", BK, "item"):
                    # updated together with the exchange: seq[pos] now holds the value stored by it
                    ok = poslv == EL and vleaf == vafter and e_el["val"][2] == vh and \
                        pv == ("addr", ("idx", ("fld", BK, "item"), e_el["val"]))
                else:
                    return None
                verdict = verdict and ok
            return verdict
        return None

    def role(it):
        if is_pos(it, LL):
            return "later"
        if is_pos(it, EL):
            return "earlier"
        if it[0] == "deref" and fn.is_phi(it[1]):
            P = it[1]
            vals = [v[0] for (p, l, v, ins) in fn.leaves([key_by_name(fn, P[2])], phi_node(fn, P)) if v[0] != P]
            if vals and all(v[0] == "addr" and (is_pos(v[1], EL) or is_pos(v[1], LL)) for v in vals) \
                    and any(is_pos(v[1], EL) for v in vals):
                return "earlier"
        return None
    ra, rb = role(ia), role(ib)
    if {ra, rb} != {"earlier", "later"}:
        raise AnalysisError("%s(): compared elements are not the earlier (current) and the later sequence position -- "
                            "no longer selection-sort shape" % name)
    ie, il = (ia, ib) if ra == "earlier" else (ib, ia)
    ce, cl_ = current(ie, EL), current(il, LL)
    if ce is None or cl_ is None:
        raise AnalysisError("%s(): cannot relate the compared elements to the current order sequence -- "
                            "no longer selection-sort shape" % name)
    a.ob(R, name, "at every comparison the earlier operand is the element currently referenced by seq[earlier position] "
         "(re-read, or updated together with the exchange)", "bucket->item[seq[earlier]] of the current sequence",
         "bucket->item[seq[earlier]] of the current sequence" if ce else
         "element cached before an exchange of the same outer iteration (can be stale)", ce, cnode.ast)
    a.ob(R, name, "at every comparison the later operand is the element currently referenced by seq[later position]",
         "bucket->item[seq[later]] of the current sequence",
         "bucket->item[seq[later]] of the current sequence" if cl_ else "element read before a later write of the sequence (can be stale)",
         cl_, cnode.ast)
    # atom: (prio[a] < prio[b]) has truth value at[3]
    if ra == "later":
        good = at[3]              # later < earlier  -> exchange
        found = "exchange when prio[earlier] > prio[later]" if good else "exchange when prio[earlier] <= prio[later]"
    else:
        good = not at[3]          # !(earlier < later) -> exchange when earlier >= later
        found = "exchange when prio[earlier] >= prio[later]" if good else "exchange when prio[earlier] < prio[later]"
    a.ob(R, name, "the exchange is performed when the earlier element's prio is greater (ascending order)",
         "exchange when prio[earlier] > prio[later]", found, good, e1["node"])


# ---------------------------------------------------------------- R6 priority width

# integer types of the firmware target (clang --target=arm-none-eabi, ILP32): bits, signed
ARM_INT = {"signed char": (8, True), "unsigned char": (8, False), "short": (16, True), "unsigned short": (16, False),
           "int": (32, True), "unsigned int": (32, False), "long": (32, True), "unsigned long": (32, False),
           "long long": (64, True), "unsigned long long": (64, False)}
PRIO_LO, PRIO_HI = -32768, 32767          # the property's priority domain: int16


def int_type(tu, tdict):
    """(spelled name, bits, signed) of the resolved (desugared) integer type of an AST type record, else None."""
    qt = strip_const((tdict or {}).get("qualType", ""))
    d = strip_const((tdict or {}).get("desugaredQualType") or qt)
    hops = 0
    while d not in ARM_INT and d in tu.typedefs and hops < 8:
        td = tu.typedefs[d].get("type", {})
        d = strip_const(td.get("desugaredQualType") or td.get("qualType", ""))
        hops += 1
    if d in ARM_INT:
        return (qt,) + ARM_INT[d]
    return None


def field_decl(tu, rec, name):
    r = tu.records.get(rec)
    for c in kids(r) if r is not None else ():
        if kind(c) == "FieldDecl" and c.get("name") == name:
            return c
    return None


def field_int_type(tu, fd):
    """int_type of a struct member as an OBJECT: a bit-field `T m:w` is a w-bit integer of T's signedness
    (spelled "T:w"), whatever T's own width is.  None: not an integer member."""
    t = int_type(tu, fd.get("type"))
    if t is None or not fd.get("isBitfield"):
        return t
    w = tu.fold(kids(fd)[0]) if kids(fd) else None
    if not isinstance(w, int) or not 0 < w <= t[1]:
        raise AnalysisError("bit-field %s: width does not fold to 1..%d -- unclassifiable" % (fd.get("name"), t[1]))
    return ("%s:%d" % (t[0], w), w, t[2])


def conv(v, t):
    """C integer conversion of the mathematical value v to type t (modular; out-of-range conversion to a signed
    type as implemented by gcc/clang)."""
    bits, signed = t[1], t[2]
    v &= (1 << bits) - 1
    if signed and v >= 1 << (bits - 1):
        v -= 1 << bits
    return v


def through(links, v):
    for l in links:
        v = conv(v, l["type"])
    return v


def tdesc(t):
    return "%s (%d-bit %s)" % (t[0], t[1], "signed" if t[2] else "unsigned")


class PrioFlow:
    """Where does an integer value come from, and through which integer types does it pass?  Resolves an
    expression through parentheses, integral conversions (implicit and explicit) and scalar locals (all their
    definitions) to its source: the item field `prio` or a parameter.  Result: alternatives
    (source, [links source-first]); None when the value is computed in any other way."""

    def __init__(self, a, fn):
        self.a, self.tu, self.fn = a, a.tu, fn
        self.defs, self.dirty = {}, set()
        for n in walk(fn.f):
            k = kind(n)
            if k == "VarDecl" and n.get("init") and kids(n):
                self.defs.setdefault(n["id"], []).append(kids(n)[-1])
            elif k == "BinaryOperator" and n.get("opcode") == "=":
                l = strip(kids(n)[0])
                if kind(l) == "DeclRefExpr":
                    self.defs.setdefault(l.get("referencedDecl", {}).get("id"), []).append(kids(n)[1])
            elif k == "CompoundAssignOperator" or (k == "UnaryOperator" and n.get("opcode") in ("++", "--")):
                l = strip(kids(n)[0])
                if kind(l) == "DeclRefExpr":
                    self.dirty.add(l.get("referencedDecl", {}).get("id"))
        # local arrays of integers (a copy of the sort keys, fetched once): every element holds what some
        # `array[...] = value` stored; an array that is used in any other way than `array[...]` read / assigned
        # (address passed on, compound assignment, ++) has no known content
        self.adefs, self.adirty = {}, set()
        for n in walk(fn.f):
            if kind(n) != "DeclRefExpr" or fn.vclass.get(n.get("referencedDecl", {}).get("id")) != "mem":
                continue
            did = n["referencedDecl"]["id"]
            cur, p = n, self.tu.parent.get(id(n))
            while p is not None and (kind(p) == "ParenExpr" or (kind(p) == "ImplicitCastExpr" and
                                                              p.get("castKind") in ("ArrayToPointerDecay", "NoOp"))):
                cur, p = p, self.tu.parent.get(id(p))
            if not (kind(p) == "ArraySubscriptExpr" and kids(p) and kids(p)[0] is cur):
                self.adirty.add(did)
                continue
            cur, p = p, self.tu.parent.get(id(p))
            while p is not None and kind(p) == "ParenExpr":
                cur, p = p, self.tu.parent.get(id(p))
            if kind(p) == "ImplicitCastExpr" and p.get("castKind") == "LValueToRValue":
                continue
            if kind(p) == "BinaryOperator" and p.get("opcode") == "=" and kids(p)[0] is cur:
                self.adefs.setdefault(did, []).append(kids(p)[1])
                continue
            self.adirty.add(did)

    def link(self, what, t, node, where=None):
        return {"what": what, "type": t, "line": node.get("_line"), "file": where or self.a.F, "func": self.fn.name}

    def is_prio_field(self, m):
        fd = self.tu.by_id.get(m.get("referencedMemberDecl"))
        rec = (self.tu.parent.get(id(fd)) or {}).get("name") if fd is not None else None
        return fd is not None and rec == "tdma_sched_item" and m.get("name") == "prio"

    def field_link(self, m):
        fd = self.tu.by_id.get(m.get("referencedMemberDecl"))
        t = field_int_type(self.tu, fd)
        if t is None:
            return None
        f = fd.get("_file") or ""
        i = f.find(FW + "/")
        where = f[i:] if i >= 0 else os.path.normpath(os.path.join(FW, f))
        if os.path.isabs(where) or not os.path.isfile(os.path.join(self.a.L.repo, where)):
            where = self.a.F
        else:
            self.a.L.unit(where)
        l = self.link("item field tdma_sched_item.prio", t, fd, where)
        l["func"] = "struct tdma_sched_item"
        return l

    def chains(self, e, depth=0):
        if e is None or depth > 8:
            return None
        k, ks = kind(e), kids(e)
        if k in ("ParenExpr", "ConstantExpr"):
            return self.chains(ks[0], depth)
        if k in ("ImplicitCastExpr", "CStyleCastExpr"):
            ck = e.get("castKind")
            if ck == "LValueToRValue":
                return self.source(ks[0], depth)
            if ck in ("IntegralCast", "NoOp"):
                sub = self.chains(ks[0], depth)
                t = int_type(self.tu, e.get("type"))
                if sub is None or t is None:
                    return None
                l = self.link("%s conversion to %s" % ("implicit" if k == "ImplicitCastExpr" else "explicit", t[0]), t, e)
                return [(src, links + [l]) for (src, links) in sub]
        return None

    def source(self, lv, depth):
        while kind(lv) == "ParenExpr":
            lv = kids(lv)[0]
        k = kind(lv)
        if k == "MemberExpr":
            if not self.is_prio_field(lv):
                return None
            l = self.field_link(lv)
            return [(("field",), [l])] if l is not None else None
        if k == "DeclRefExpr":
            rd = lv.get("referencedDecl", {})
            did = rd.get("id")
            t = int_type(self.tu, lv.get("type"))
            if t is None:
                return None
            if rd.get("kind") == "ParmVarDecl":
                if did in self.dirty or self.defs.get(did):
                    return None
                for i, p in enumerate(self.fn.params):
                    if p["id"] == did:
                        return [(("param", i, p.get("name")), [self.link("parameter %s of %s()" % (p.get("name"), self.fn.name), t, p)])]
                return None
            if rd.get("kind") == "VarDecl" and self.fn.vclass.get(did) == "scalar":
                if did in self.dirty or not self.defs.get(did):
                    return None
                decl = self.tu.by_id.get(did) or lv
                out = []
                for rhs in self.defs[did]:
                    sub = self.chains(rhs, depth + 1)
                    if sub is None:
                        return None
                    l = self.link("local %s of %s()" % (rd.get("name"), self.fn.name), t, decl)
                    out += [(src, links + [l]) for (src, links) in sub]
                return out if len(out) <= 8 else None
        if k == "ArraySubscriptExpr":
            b = strip(kids(lv)[0])
            rd = b.get("referencedDecl", {}) if kind(b) == "DeclRefExpr" else {}
            did = rd.get("id")
            t = int_type(self.tu, lv.get("type"))
            if t is None or rd.get("kind") != "VarDecl" or self.fn.vclass.get(did) != "mem" \
                    or did in self.adirty or not self.adefs.get(did) or self.tu.by_id.get(did, {}).get("init"):
                return None
            decl = self.tu.by_id.get(did) or lv
            out = []
            for rhs in self.adefs[did]:
                sub = self.chains(rhs, depth + 1)
                if sub is None:
                    return None
                l = self.link("element of local array %s of %s()" % (rd.get("name"), self.fn.name), t, decl)
                out += [(src, links + [l]) for (src, links) in sub]
            return out if len(out) <= 8 else None
        return None


def order_witness(la, lb):
    """A pair of int16 priorities (pa, pb) for which `A(pa) > B(pb)` differs from `pa > pb`, where A/B are the
    conversion chains of the two compared operands; None when the chains provably preserve the order;
    AnalysisError when neither can be shown."""
    def identity(links):
        lo, hi = PRIO_LO, PRIO_HI
        for l in links:
            bits, signed = l["type"][1], l["type"][2]
            tlo, thi = (-(1 << (bits - 1)), (1 << (bits - 1)) - 1) if signed else (0, (1 << bits) - 1)
            if lo < tlo or hi > thi:
                return False
        return True
    if identity(la) and identity(lb):
        return None
    # finite domain: tabulate both chains over all 65536 priorities
    dom = range(PRIO_LO, PRIO_HI + 1)
    A = [through(la, p) for p in dom]
    B = A if lb is la else [through(lb, p) for p in dom]
    cand = {0, 1, -1, PRIO_LO, PRIO_HI}
    for l in list(la) + list(lb):
        bits = l["type"][1]
        for e in (bits - 1, bits):
            for d in (-1, 0, 1):
                for sgn in (1, -1):
                    v = sgn * (1 << e) + d
                    if PRIO_LO <= v <= PRIO_HI:
                        cand.add(v)
    best = None
    for pa in sorted(cand, key=lambda v: (abs(v), v)):
        for pb in sorted(cand, key=lambda v: (abs(v), v)):
            if (A[pa - PRIO_LO] > B[pb - PRIO_LO]) != (pa > pb):
                w = (abs(pa) + abs(pb), pa, pb)
                if best is None or w < best:
                    best = w
    if best is not None:
        return best[1], best[2]
    for i in range(len(A) - 1):
        if not (A[i + 1] > B[i]) or (A[i] > B[i + 1]):
            return (i + 1 + PRIO_LO, i + PRIO_LO) if not (A[i + 1] > B[i]) else (i + PRIO_LO, i + 1 + PRIO_LO)
    if A == B:
        return None                       # equal and strictly increasing: order preserved
    raise AnalysisError("priority conversion chains of the two compared operands differ and no counterexample "
                        "was found -- unclassifiable")


def first_lossy(links, p):
    v = p
    for i, l in enumerate(links):
        w = conv(v, l["type"])
        if w != v:
            # an implicit conversion into a declared object (field, local, parameter) of that type: name the object
            if l["what"].startswith("implicit") and i + 1 < len(links) and links[i + 1]["type"][1:] == l["type"][1:] \
                    and not links[i + 1]["what"].startswith(("implicit", "explicit")):
                l = links[i + 1]
            return l, v, w
        v = w
    return None, p, v


def chain_text(links):
    out = []
    for l in links:
        if not out or out[-1] != l["type"][0]:
            out.append(l["type"][0])
    return " -> ".join(out)


def r6_prio_width(a, sort):
    """C08.R6 -- decides (a necessary condition of) "items of one frame run in ascending priority order" for
    "priorities in int16": the value the sort compares for an item must be the priority its scheduler call was
    given, for every priority in -32768..32767.  The types come from the resolved clang AST (typedefs
    desugared): the parameter that is stored into item field `prio`, every integral conversion and scalar
    temporary on the store path, the field itself, and every conversion / temporary between the field and
    the two operands of the relational comparison in the sort helper.  The composed conversion chain is
    evaluated over the finite priority domain; a violation is reported only with a concrete pair of priorities
    whose comparison outcome differs from their true order (e.g. an 8-bit field: 128 is stored as -128 and
    runs before 127).  Widening, renamed or added temporaries of sufficient width and value-restoring
    round trips do not fire."""
    R = "C08.R6"
    if sort is None:
        raise AnalysisError("tdma_sched_execute(): the priority sort helper could not be identified")
    sname = sort[0]
    # -- store paths
    stores = []
    for name, fn in a.fns.items():
        flow = None
        for s in fn.stores:
            lv = s["lv"]
            if not (lv[0] == "fld" and lv[2] == "prio"):
                continue
            ast = s["ast"]
            lhs = strip(kids(ast)[0]) if kids(ast) else None
            flow = flow or PrioFlow(a, fn)
            if kind(lhs) != "MemberExpr" or not flow.is_prio_field(lhs):
                continue
            if not (kind(ast) == "BinaryOperator" and ast.get("opcode") == "=" and s["how"] == "assign"):
                raise AnalysisError("%s(): item field prio is modified other than by assignment -- unclassifiable" % name)
            rhs = kids(ast)[1]
            if a.tu.fold(rhs) is not None:
                continue                  # a constant priority, not a caller's
            alts = flow.chains(rhs)
            fl = flow.field_link(lhs)
            if alts is None or fl is None:
                raise AnalysisError("%s(): the value stored into item field prio is not a parameter / item priority "
                                    "passed through integer conversions only -- unclassifiable" % name)
            for (src, links) in alts:
                stores.append((name, src, links + [fl], s["node"]))
    a.L.floor(R, "stores of a caller's priority into item field prio", len([x for x in stores if x[1][0] == "param"]), 1)
    # -- comparison operands in the sort helper
    sfn = a.fns[sname]
    flow = PrioFlow(a, sfn)
    cmps = []
    for n in walk(sfn.f):
        if kind(n) == "BinaryOperator" and n.get("opcode") in ("<", ">", "<=", ">="):
            ca, cb = flow.chains(kids(n)[0]), flow.chains(kids(n)[1])
            pa = ca is not None and any(src == ("field",) for (src, _l) in ca)
            pb = cb is not None and any(src == ("field",) for (src, _l) in cb)
            touches = any(kind(x) == "MemberExpr" and flow.is_prio_field(x) for x in walk(n))
            if not (pa or pb):
                if touches:
                    raise AnalysisError("%s(): relational comparison computed from item priorities other than by "
                                        "integer conversions -- unclassifiable" % sname)
                continue
            if not (pa and pb) or any(src != ("field",) for (src, _l) in ca + cb):
                raise AnalysisError("%s(): an item priority is compared with something that is not an item priority "
                                    "-- unclassifiable" % sname)
            cmps.append((n, ca, cb))
    a.L.floor(R, "relational comparisons of item priorities in the sort helper", len(cmps), 1)
    # -- composed chains
    for (name, src, slinks, snode) in stores:
        if src[0] != "param":
            # priority copied from another item: the conversions in between must preserve what the field holds
            ft = slinks[0]["type"]
            bad = None
            for p in (PRIO_LO, PRIO_HI, -1, 0, 255, 256, 127, 128, -128, -129):
                q = conv(p, ft)
                if PRIO_LO <= q <= PRIO_HI and through(slinks, q) != q:
                    bad = q
                    break
            a.ob(R, name, "%s(): a priority copied from another item reaches item field prio unchanged" % name,
                 "value preserved", "value preserved" if bad is None else
                 "%s: priority %d is stored as %d" % (chain_text(slinks), bad, through(slinks, bad)), bad is None, snode)
            continue
        for (cn, ca, cb) in cmps:
            verdicts = []
            for (_s1, la) in ca:
                for (_s2, lb) in cb:
                    A = slinks + la
                    B = A if la is lb else slinks + lb
                    w = order_witness(A, B)
                    verdicts.append((w, A, B))
            bad = [v for v in verdicts if v[0] is not None]
            if bad and len(bad) != len(verdicts):
                raise AnalysisError("%s(): a compared priority has several definitions of different width -- "
                                    "unclassifiable" % sname)
            key = ("priority order: what %s() compares for an item stored by %s() is the caller's priority, for every "
                   "priority in int16 (types of the parameter, item field prio, temporaries and comparison operands)" % (
                       sname, name))
            want = "order of all priorities -32768..32767 preserved"
            if not bad:
                A = verdicts[0][1]
                a.ob(R, name, key, want, "%s: order preserved" % chain_text(A), True, snode)
                continue
            (pa, pb), A, B = bad[0]
            la_, va, wa = first_lossy(A, pa)
            lb_, vb, wb = first_lossy(B, pb)
            l, v, w2 = (la_, va, wa) if la_ is not None else (lb_, vb, wb)
            if l is None:
                raise AnalysisError("priority conversion counterexample without a lossy link")
            found = "%s: %s is %s and cannot hold priority %d (becomes %d): priorities %d and %d are compared as %d and %d" % (
                chain_text(A if la_ is not None else B), l["what"], tdesc(l["type"]), v, w2, pa, pb, through(A, pa), through(B, pb))
            a.L.ob(R, l["file"], l["func"], key, want, found, False, l["line"])


# ---------------------------------------------------------------- concrete evaluation of C code (R5 fold)

class NoVerdict(Exception):
    """The concrete evaluator met something outside its vocabulary (or undefined behaviour): no verdict."""


class OutOfRange(NoVerdict):
    """An element outside a concrete array was read or written (obj: the array).  No verdict in general; a driver that
    owns the array (SchedWorld: the ring and its item arrays) judges it."""

    def __init__(self, obj, key):
        NoVerdict.__init__(self, "array index %s outside an array of %d elements" % (key, len(obj)))
        self.obj, self.key = obj, key


class _Undef:
    def __repr__(self):
        return "<uninitialised>"


UNDEF = _Undef()


class Ptr:
    """&container[key]: container is a Python list (array object) or dict (struct object / stack frame)."""
    __slots__ = ("obj", "key")

    def __init__(self, obj, key):
        self.obj, self.key = obj, key

    def same(self, o):
        return isinstance(o, Ptr) and o.obj is self.obj and o.key == self.key


class Rec(dict):
    """A struct object: member name -> value; `rec` is the record's name (None: a synthetic object)."""
    rec = None


class BytePtr:
    """(char *)p [- offsetof(..)]: the intermediate values of container_of().  Only the cast back to an object
    pointer gives them a meaning (ContPtr); every other use is outside the evaluator's vocabulary."""
    __slots__ = ("inner", "off")

    def __init__(self, inner, off):
        self.inner, self.off = inner, off


class ContPtr(Ptr):
    """container_of(inner, T, m): pointer to the object that holds *inner as its member m.  T and m are resolved where
    the pointer is used (CEval.cont_member).  As a Ptr it compares equal to a container pointer formed from the same
    inner pointer only, and designates no object (obj[key] does not exist): a plain dereference is no verdict."""
    __slots__ = ("inner",)

    def __init__(self, inner):
        Ptr.__init__(self, inner.obj, ("container of", inner.key))
        self.inner = inner


MEM_FUNCS = ("memcpy", "memmove", "memset")


class CEval:
    """Concrete interpreter of the C subset the scheduler helpers are written in, on the clang AST: integers with the
    exact conversions of the resolved types (IntegralCast nodes, assignment to a narrower object, usual arithmetic
    conversions -- clang spells them all out), pointers to array elements / struct members / locals, arrays, structs,
    if / for / while / do / break / continue / return, ?:, && ||, ++ --, compound assignment, calls of functions that
    have a body in the translation unit (evaluated recursively) and of the console output functions (no effect).
    goto to a label that is a direct statement of an enclosing block.  Everything else -- switch, goto into a nested
    statement, unknown callees, use of an uninitialised value in arithmetic or a branch, signed
    overflow, out-of-bounds access, step limit -- raises NoVerdict.  Never executes anything: it folds the AST."""

    def __init__(self, tu, max_steps=100000, max_depth=6):
        self.tu = tu
        self.max_steps, self.max_depth = max_steps, max_depth
        self.steps = 0
        self.depth = 0
        self.statics = {}
        self.globals = {}
        self._types = {}
        self._fields = {}
        self._bits = {}
        self.lazy_globals = False         # True: file-scope objects defined in the TU are created (with their initialiser) on first use
        self.externs = {}                 # name -> callable(args): models of functions without a body in the TU
        self.indirect = None              # callable(("fn", name), args): model of a call through a function pointer

    # -- types / objects
    def itype(self, tdict):
        key = ((tdict or {}).get("qualType"), (tdict or {}).get("desugaredQualType"))
        if key not in self._types:
            self._types[key] = int_type(self.tu, tdict)
        return self._types[key]

    def make(self, qt, zero=False):
        q = strip_const(qt)
        if q.endswith("]"):
            i = q.index("[")
            n = q[i + 1:q.index("]", i)]
            if not n.isdigit():
                raise NoVerdict("array of unknown extent (%s)" % qt)
            rest = q[:i].rstrip() + q[q.index("]", i) + 1:]
            return [self.make(rest, zero) for _ in range(int(n))]
        if q.startswith("struct ") and "*" not in q:
            name = q[len("struct "):].strip()
            if name not in self.tu.records:
                raise NoVerdict("object of unknown type %s" % qt)
            if name not in self._fields:
                self._fields[name] = self.tu.record_fields(name)
            r = Rec((f, self.make(t, zero)) for (f, t) in self._fields[name])
            r.rec = name
            return r
        if q.startswith("union "):
            raise NoVerdict("union object")
        return 0 if zero else UNDEF

    def copy(self, v):
        if isinstance(v, list):
            return [self.copy(x) for x in v]
        if isinstance(v, dict):
            r = Rec((k, self.copy(x)) for k, x in v.items())
            r.rec = getattr(v, "rec", None)
            return r
        return v

    def tick(self):
        self.steps += 1
        if self.steps > self.max_steps:
            raise NoVerdict("no termination within %d steps" % self.max_steps)

    # -- calls
    def call(self, name, args):
        f = self.tu.functions.get(name)
        if f is None or not any(kind(c) == "CompoundStmt" for c in kids(f)):
            if name in self.externs:
                return self.externs[name](args)
            raise NoVerdict("call of %s(), which has no body in this translation unit" % name)
        params = self.tu.fparams(f)
        if len(params) != len(args):
            raise NoVerdict("%s() called with %d arguments" % (name, len(args)))
        if self.depth >= self.max_depth:
            raise NoVerdict("call depth")
        frame = {"<fn>": name}
        for p, v in zip(params, args):
            frame[p["id"]] = v
        self.depth += 1
        try:
            r = self.stmt(self.tu.body(f), frame)
        finally:
            self.depth -= 1
        if isinstance(r, tuple) and r[0] == "goto":
            raise NoVerdict("goto into a nested statement")
        if isinstance(r, tuple):
            return r[1]
        return UNDEF

    @staticmethod
    def labelled(x, decl_id):
        while kind(x) == "LabelStmt":
            if x.get("declId") == decl_id:
                return True
            x = kids(x)[-1] if kids(x) else {}
        return False

    # -- statements: -> None | "break" | "continue" | ("ret", value) | ("goto", id of the label's declaration)
    def stmt(self, s, fr):
        self.tick()
        k = kind(s)
        if k == "CompoundStmt":
            xs = kids(s)
            i = 0
            while i < len(xs):
                r = self.stmt(xs[i], fr)
                if isinstance(r, tuple) and r[0] == "goto":
                    # the jump ends in the innermost enclosing block that holds the label as a direct statement
                    # (a jump into a nested block / loop body is outside the vocabulary: it leaves call())
                    j = [j for j, x in enumerate(xs) if self.labelled(x, r[1])]
                    if not j:
                        return r
                    self.tick()
                    i = j[0]
                    continue
                if r is not None:
                    return r
                i += 1
            return None
        if k == "GotoStmt" and s.get("targetLabelDeclId"):
            return ("goto", s["targetLabelDeclId"])
        if k == "LabelStmt" and s.get("declId"):
            return self.stmt(kids(s)[-1], fr)
        if k == "DeclStmt":
            for d in kids(s):
                if kind(d) == "VarDecl":
                    self.decl(d, fr)
                elif kind(d) not in ("TypedefDecl", "RecordDecl", "EnumDecl", "StaticAssertDecl"):
                    raise NoVerdict("declaration of kind %s" % kind(d))
            return None
        if k == "IfStmt":
            inner = list(s.get("inner", []))
            has_else = s.get("hasElse", False)
            cond = inner[-3] if has_else else inner[-2]
            for p in (inner[:-3] if has_else else inner[:-2]):
                if p:
                    self.stmt(p, fr)
            if self.truth(self.rv(cond, fr)):
                return self.stmt(inner[-2] if has_else else inner[-1], fr)
            if has_else:
                return self.stmt(inner[-1], fr)
            return None
        if k == "ForStmt":
            inner = s["inner"]
            init, cond, inc, body = inner[0], inner[2], inner[3], inner[4]
            if init:
                self.stmt(init, fr)
            while True:
                self.tick()
                if cond and not self.truth(self.rv(cond, fr)):
                    return None
                r = self.stmt(body, fr)
                if r == "break":
                    return None
                if isinstance(r, tuple):
                    return r
                if inc:
                    self.rv(inc, fr)
        if k == "WhileStmt":
            cond, body = s["inner"][-2], s["inner"][-1]
            while True:
                self.tick()
                if not self.truth(self.rv(cond, fr)):
                    return None
                r = self.stmt(body, fr)
                if r == "break":
                    return None
                if isinstance(r, tuple):
                    return r
        if k == "DoStmt":
            body, cond = s["inner"][0], s["inner"][1]
            while True:
                self.tick()
                r = self.stmt(body, fr)
                if r == "break":
                    return None
                if isinstance(r, tuple):
                    return r
                if not self.truth(self.rv(cond, fr)):
                    return None
        if k == "ReturnStmt":
            ks = kids(s)
            return ("ret", self.rv(ks[0], fr) if ks else UNDEF)
        if k == "BreakStmt":
            return "break"
        if k == "ContinueStmt":
            return "continue"
        if k == "NullStmt":
            return None
        if k == "AttributedStmt":
            return self.stmt(kids(s)[-1], fr)
        if k in ("SwitchStmt", "CaseStmt", "DefaultStmt", "GotoStmt", "LabelStmt", "GCCAsmStmt", "MSAsmStmt", "IndirectGotoStmt"):
            raise NoVerdict("statement of kind %s" % k)
        self.rv(s, fr)
        return None

    def decl(self, d, fr):
        qt = d.get("type", {}).get("qualType", "")
        store = fr
        if d.get("storageClass") == "static":
            store = self.statics
            if d["id"] in store:
                return
        elif d.get("storageClass") == "extern":
            raise NoVerdict("extern declaration in a function body")
        init = kids(d)[-1] if d.get("init") and kids(d) else None
        q = strip_const(qt)
        if q.endswith("]") or (q.startswith(("struct ", "union ")) and "*" not in q):
            obj = self.make(qt, zero=(store is self.statics))
            if init is not None:
                i0 = strip(init)
                if kind(i0) == "InitListExpr":
                    self.init_list(obj, i0, fr)
                elif isinstance(obj, dict):
                    v = self.rv(init, fr)
                    if not isinstance(v, dict):
                        raise NoVerdict("struct initialiser")
                    obj = self.copy(v)
                else:
                    raise NoVerdict("array initialiser of kind %s" % kind(i0))
            store[d["id"]] = obj
            return
        store[d["id"]] = self.rv(init, fr) if init is not None else (0 if store is self.statics else UNDEF)

    def init_list(self, obj, il, fr):
        elems = kids(il)
        if isinstance(obj, list):
            keys = list(range(len(obj)))
        else:
            keys = list(obj.keys())
        if len(elems) > len(keys):
            raise NoVerdict("initialiser list longer than the object")
        for i, key in enumerate(keys):
            e = elems[i] if i < len(elems) else None
            sub = obj[key]
            if e is None or kind(e) == "ImplicitValueInitExpr":
                obj[key] = self.zero(sub)
            elif isinstance(sub, (list, dict)):
                e0 = strip(e)
                if kind(e0) == "InitListExpr":
                    self.init_list(sub, e0, fr)
                elif isinstance(sub, dict):
                    v = self.rv(e, fr)
                    if not isinstance(v, dict):
                        raise NoVerdict("struct initialiser")
                    obj[key] = self.copy(v)
                else:
                    raise NoVerdict("array member initialiser")
            else:
                obj[key] = self.rv(e, fr)

    def zero(self, v):
        if isinstance(v, list):
            return [self.zero(x) for x in v]
        if isinstance(v, dict):
            r = Rec((k, self.zero(x)) for k, x in v.items())
            r.rec = getattr(v, "rec", None)
            return r
        return 0

    def global_object(self, name):
        """A file-scope object the translation unit defines, created with its initialiser on first use (static storage:
        zero where nothing is written; the object is registered before its initialiser is evaluated, so that
        LLIST_HEAD(x) = { &x, &x } can refer to itself)."""
        d = self.tu.vars.get(name)
        if d is None or d.get("storageClass") == "extern" or kind(self.tu.parent.get(id(d)) or {}) != "TranslationUnitDecl":
            raise NoVerdict("reference to %s, an object outside the evaluated state" % name)
        qt = d.get("type", {}).get("desugaredQualType") or d.get("type", {}).get("qualType", "")
        q = strip_const(qt)
        init = kids(d)[-1] if d.get("init") and kids(d) else None
        if q.endswith("]") or (q.startswith(("struct ", "union ")) and "*" not in q):
            obj = self.globals[name] = self.make(qt, zero=True)
            if init is not None:
                i0 = strip(init)
                if kind(i0) != "InitListExpr":
                    raise NoVerdict("initialiser of %s" % name)
                self.init_list(obj, i0, {"<fn>": "<initialiser of %s>" % name})
        else:
            self.globals[name] = 0
            if init is not None:
                self.globals[name] = self.rv(init, {"<fn>": "<initialiser of %s>" % name})

    def pointee_record(self, e):
        """Record name of the struct the pointer expression e points to by its static type."""
        t = e.get("type", {})
        q = strip_const(t.get("desugaredQualType") or t.get("qualType") or "")
        if q.startswith("struct ") and q.endswith("*") and q.count("*") == 1:
            name = strip_const(q[len("struct "):-1]).strip()
            if name in self.tu.records:
                return name
        raise NoVerdict("member access through a container pointer of static type %s" % (t.get("qualType"),))

    def cont_member(self, p, n, base):
        """lvalue of p->member for p = container_of(inner, T, m).  T is the static type of the pointer expression, m the
        one member of T that has the type of *inner (the macro's __mptr declaration type-checks it; an ambiguous or
        missing member is no verdict).  p->m is *inner, whatever inner points into (the list head itself ends a
        llist_for_each_entry loop that way); any other member exists only when inner really is the address of member m
        of a struct T object."""
        rec = self.pointee_record(base)
        inner = p.inner
        target = self.get((inner.obj, inner.key))
        trec = getattr(target, "rec", None)
        if trec is None:
            raise NoVerdict("container_of() of a pointer to a non-struct object")
        cands = [f for (f, t) in self.tu.record_fields(rec) if strip_const(t or "").strip() == "struct " + trec]
        if len(cands) != 1:
            raise NoVerdict("container_of(): struct %s has %d members of type struct %s" % (rec, len(cands), trec))
        m = cands[0]
        if n.get("name") == m:
            return (inner.obj, inner.key)
        D = inner.obj
        if isinstance(D, Rec) and D.rec == rec and inner.key == m and n.get("name") in D:
            return (D, n.get("name"))
        raise NoVerdict("access to member %s of the struct %s around an object that is not inside one" % (n.get("name"), rec))

    def mem_call(self, name, ks, fr):
        """memcpy / memmove / memset over exactly one whole object: (dst, src | 0, sizeof(type of that object))."""
        if len(ks) != 4:
            raise NoVerdict("%s() with %d arguments" % (name, len(ks) - 1))
        dst, src, size = self.rv(ks[1], fr), self.rv(ks[2], fr), self.rv(ks[3], fr)
        if not isinstance(dst, Ptr) or isinstance(dst, ContPtr):
            raise NoVerdict("%s() to something that is not an object pointer" % name)
        old = self.get((dst.obj, dst.key))

        def fits(v):
            if isinstance(v, Rec) and v.rec is not None:
                return size == ("sizeof", "struct " + v.rec)
            return False
        if not fits(old):
            raise NoVerdict("%s() whose size is not the sizeof of the destination object" % name)
        if name == "memset":
            if src != 0:
                raise NoVerdict("memset() with a fill value other than 0")
            new = self.zero(old)
        else:
            if not isinstance(src, Ptr) or isinstance(src, ContPtr):
                raise NoVerdict("%s() from something that is not an object pointer" % name)
            new = self.get((src.obj, src.key))
            if not fits(new) or new.rec != old.rec:
                raise NoVerdict("%s() between objects of different types" % name)
        self.put((dst.obj, dst.key), new)
        return dst

    # -- values
    def truth(self, v):
        if isinstance(v, int):
            return v != 0
        if isinstance(v, Ptr) or (isinstance(v, tuple) and v and v[0] in ("fn", "addr")):
            return True
        raise NoVerdict("branch on %s" % ("an uninitialised value" if v is UNDEF else "a non-scalar"))

    def num(self, v, what="arithmetic"):
        if isinstance(v, bool) or not isinstance(v, int):
            if v is UNDEF:
                raise NoVerdict("uninitialised value used in %s" % what)
            raise NoVerdict("non-integer operand in %s" % what)
        return v

    def fit(self, v, t, node):
        """Result of an arithmetic operator of integer type t: unsigned wraps, signed overflow is undefined."""
        if t is None:
            raise NoVerdict("arithmetic in a type that is not a known integer type (%s)" % node.get("type", {}).get("qualType"))
        w = conv(v, t)
        if w != v and t[2]:
            raise NoVerdict("signed overflow")
        return w

    def get(self, lv):
        obj, key = lv
        try:
            if isinstance(obj, list) and not 0 <= key < len(obj):
                raise OutOfRange(obj, key)
            return obj[key]
        except (KeyError, TypeError):
            raise NoVerdict("access to an unknown object")

    def put(self, lv, v):
        obj, key = lv
        if isinstance(obj, list):
            if isinstance(key, int) and not 0 <= key < len(obj):
                raise OutOfRange(obj, key)
            if not isinstance(key, int):
                raise NoVerdict("array index %s outside an array of %d elements" % (key, len(obj)))
        elif not isinstance(obj, dict) or key not in obj:
            raise NoVerdict("store to an unknown object")
        old = obj[key]
        if isinstance(old, (list, dict)) or isinstance(v, (list, dict)):
            if type(old) is not type(v) or isinstance(v, list):
                raise NoVerdict("aggregate store of unmatched shape")
            v = self.copy(v)
        elif isinstance(obj, Rec) and obj.rec and isinstance(v, int):
            bf = self.bitfield(obj.rec, key)
            if bf is not None:
                if bf[2] and not 0 <= v < 1 << (bf[1] - 1):
                    # gcc: signed unless -funsigned-bitfields; the AAPCS says unsigned -- the two disagree on this value
                    raise NoVerdict("store of %d into the signed bit-field %s.%s (%s)" % (v, obj.rec, key, bf[0]))
                v = conv(v, bf)
        obj[key] = v

    def bitfield(self, rec, name):
        """(spelling, bits, signed) when struct rec's member `name` is an integer bit-field, else None.  clang inserts
        no conversion node for the truncation a store into a bit-field performs: it is applied in put()."""
        k = (rec, name)
        if k not in self._bits:
            fd = field_decl(self.tu, rec, name)
            self._bits[k] = field_int_type(self.tu, fd) if fd is not None and fd.get("isBitfield") else None
        return self._bits[k]

    def lv(self, n, fr):
        k = kind(n)
        ks = kids(n)
        if k in ("ParenExpr", "ConstantExpr"):
            return self.lv(ks[0], fr)
        if k == "ImplicitCastExpr" and n.get("castKind") == "NoOp":
            return self.lv(ks[0], fr)
        if k == "DeclRefExpr":
            rd = n.get("referencedDecl", {})
            if rd.get("kind") in ("VarDecl", "ParmVarDecl"):
                if rd["id"] in fr:
                    return (fr, rd["id"])
                if rd["id"] in self.statics:
                    return (self.statics, rd["id"])
                if rd.get("name") not in self.globals and self.lazy_globals and rd.get("kind") == "VarDecl":
                    self.global_object(rd.get("name"))
                if rd.get("name") in self.globals:
                    return (self.globals, rd.get("name"))
                raise NoVerdict("reference to %s, an object outside the evaluated state" % rd.get("name"))
            raise NoVerdict("reference of kind %s" % rd.get("kind"))
        if k == "MemberExpr":
            if n.get("isArrow"):
                p = self.rv(ks[0], fr)
                if isinstance(p, ContPtr):
                    return self.cont_member(p, n, ks[0])
                if not isinstance(p, Ptr):
                    raise NoVerdict("-> through %s" % ("NULL" if p == 0 else "a non-pointer"))
                base = self.get((p.obj, p.key))
            else:
                base = self.get(self.lv(ks[0], fr))
            if not isinstance(base, dict) or n.get("name") not in base:
                raise NoVerdict("member %s of a non-struct object" % n.get("name"))
            return (base, n.get("name"))
        if k == "ArraySubscriptExpr":
            a, b = self.rv(ks[0], fr), self.rv(ks[1], fr)
            if isinstance(b, Ptr):
                a, b = b, a
            if not isinstance(a, Ptr) or not isinstance(a.obj, list):
                raise NoVerdict("subscript of something that is not an array element pointer")
            return (a.obj, a.key + self.num(b, "an array index"))
        if k == "UnaryOperator" and n.get("opcode") == "*":
            p = self.rv(ks[0], fr)
            if not isinstance(p, Ptr):
                raise NoVerdict("* of %s" % ("NULL" if p == 0 else "a non-pointer"))
            return (p.obj, p.key)
        raise NoVerdict("lvalue of kind %s" % k)

    def rv(self, n, fr):
        self.tick()
        k = kind(n)
        ks = kids(n)
        if k in ("ParenExpr", "ConstantExpr"):
            return self.rv(ks[0], fr)
        if k in ("ImplicitCastExpr", "CStyleCastExpr"):
            ck = n.get("castKind")
            if ck == "LValueToRValue":
                return self.get(self.lv(ks[0], fr))
            if ck == "ArrayToPointerDecay":
                if kind(strip(ks[0])) == "StringLiteral":
                    return ("str",)
                arr = self.get(self.lv(ks[0], fr))
                if not isinstance(arr, list):
                    raise NoVerdict("decay of a non-array")
                return Ptr(arr, 0)
            if ck == "FunctionToPointerDecay":
                return self.rv(ks[0], fr)
            if ck == "IntegralCast":
                v = self.rv(ks[0], fr)
                if v is UNDEF:
                    return v
                t = self.itype(n.get("type"))
                if t is None:
                    raise NoVerdict("conversion to %s" % n.get("type", {}).get("qualType"))
                return conv(self.num(v, "a conversion"), t)
            if ck in ("NoOp", "BitCast"):
                v = self.rv(ks[0], fr)
                if ck == "BitCast" and isinstance(v, BytePtr):
                    if v.off is None:
                        raise NoVerdict("cast of a byte pointer")
                    return ContPtr(v.inner)         # (T *)((char *)p - offsetof(T, m)): see cont_member
                if ck == "BitCast" and isinstance(v, Ptr):
                    src = strip_const(strip(ks[0], casts=False).get("type", {}).get("qualType", ""))
                    dst = strip_const(n.get("type", {}).get("qualType", ""))
                    if dst in ("char *", "unsigned char *") and src != dst and not isinstance(v, ContPtr):
                        return BytePtr(v, None)
                    if src != dst and "void" not in dst:
                        raise NoVerdict("pointer cast %s -> %s" % (src, dst))
                return v
            if ck == "NullToPointer":
                return 0
            if ck == "IntegralToPointer":
                v = self.num(self.rv(ks[0], fr), "a conversion to a pointer")
                return 0 if v == 0 else ("addr", v)     # LLIST_POISON: a non-NULL value that designates no object
            if ck in ("PointerToBoolean", "IntegralToBoolean"):
                return int(self.truth(self.rv(ks[0], fr)))
            if ck == "ToVoid":
                self.rv(ks[0], fr)
                return UNDEF
            raise NoVerdict("cast of kind %s" % ck)
        if k in ("IntegerLiteral", "CharacterLiteral"):
            return int(n["value"])
        if k == "StringLiteral":
            return ("str",)
        if k == "UnaryExprOrTypeTraitExpr":
            v = self.tu.fold(n)
            if v is None:
                t = strip_const(sizeof_operand_type(n) or "").strip() if n.get("name") == "sizeof" else ""
                if t.startswith("struct ") and "*" not in t and "[" not in t:
                    return ("sizeof", t)          # the size of a whole struct object: meaningful to memcpy / memset only
                raise NoVerdict("sizeof that does not fold")
            return v
        if k == "OffsetOfExpr":
            return ("offsetof", n.get("id"))      # meaningful inside container_of() only
        if k == "StmtExpr":
            body = ks[0] if ks and kind(ks[0]) == "CompoundStmt" else None
            inner = kids(body) if body is not None else []
            if not inner:
                raise NoVerdict("empty statement expression")
            for x in inner[:-1]:
                if self.stmt(x, fr) is not None:
                    raise NoVerdict("jump out of a statement expression")
            return self.rv(inner[-1], fr)
        if k == "DeclRefExpr":
            rd = n.get("referencedDecl", {})
            if rd.get("kind") == "EnumConstantDecl":
                v = self.tu.fold(n)
                if v is None:
                    raise NoVerdict("enumerator that does not fold")
                return v
            if rd.get("kind") == "FunctionDecl":
                return ("fn", rd.get("name"))
            return self.get(self.lv(n, fr))
        if k in ("MemberExpr", "ArraySubscriptExpr"):
            return self.get(self.lv(n, fr))
        if k == "UnaryOperator":
            op = n.get("opcode")
            if op == "&":
                c = strip(ks[0])
                if kind(c) == "DeclRefExpr" and c.get("referencedDecl", {}).get("kind") == "FunctionDecl":
                    return ("fn", c["referencedDecl"].get("name"))
                obj, key = self.lv(ks[0], fr)
                return Ptr(obj, key)
            if op == "*":
                return self.get(self.lv(n, fr))
            if op in ("++", "--"):
                lv = self.lv(ks[0], fr)
                old = self.get(lv)
                d = 1 if op == "++" else -1
                if isinstance(old, Ptr):
                    if not isinstance(old.obj, list):
                        raise NoVerdict("arithmetic on a pointer that is not into an array")
                    new = Ptr(old.obj, old.key + d)
                else:
                    new = self.assign_conv(self.num(old) + d, ks[0])
                self.put(lv, new)
                return old if n.get("isPostfix") else new
            v = self.rv(ks[0], fr)
            if op == "!":
                return int(not self.truth(v))
            t = self.itype(n.get("type"))
            if op == "-":
                return self.fit(-self.num(v), t, n)
            if op == "+":
                return self.num(v)
            if op == "~":
                if t is None:
                    raise NoVerdict("~ in an unknown type")
                return conv(~self.num(v), t)
            raise NoVerdict("unary %s" % op)
        if k == "BinaryOperator":
            op = n.get("opcode")
            if op == "=":
                v = self.rv(ks[1], fr)
                self.put(self.lv(ks[0], fr), v)
                return v
            if op == ",":
                self.rv(ks[0], fr)
                return self.rv(ks[1], fr)
            if op == "&&":
                return int(self.truth(self.rv(ks[0], fr)) and self.truth(self.rv(ks[1], fr)))
            if op == "||":
                return int(self.truth(self.rv(ks[0], fr)) or self.truth(self.rv(ks[1], fr)))
            if op == "/" and kind(strip(ks[0])) == kind(strip(ks[1])) == "UnaryExprOrTypeTraitExpr":
                v = self.tu.fold(n)               # ARRAY_SIZE(x): sizeof(x) / sizeof(x[0])
                if v is not None:
                    return v
            a, b = self.rv(ks[0], fr), self.rv(ks[1], fr)
            if isinstance(a, BytePtr) or isinstance(b, BytePtr):
                if op == "-" and isinstance(a, BytePtr) and a.off is None and isinstance(b, tuple) and b[:1] == ("offsetof",):
                    return BytePtr(a.inner, b[1])
                raise NoVerdict("arithmetic on a byte pointer")
            if op in ("==", "!="):
                if isinstance(a, Ptr) or isinstance(b, Ptr) or isinstance(a, tuple) or isinstance(b, tuple):
                    if isinstance(a, Ptr) and isinstance(b, Ptr) and isinstance(a, ContPtr) != isinstance(b, ContPtr):
                        raise NoVerdict("comparison of a container_of() pointer with an object pointer")
                    if isinstance(a, Ptr):
                        eq = a.same(b)
                    elif isinstance(b, Ptr):
                        eq = b.same(a)
                    else:
                        eq = a == b
                    if (a is UNDEF) or (b is UNDEF):
                        raise NoVerdict("uninitialised value used in a comparison")
                    return int(eq == (op == "=="))
                a, b = self.num(a, "a comparison"), self.num(b, "a comparison")
                return int((a == b) == (op == "=="))
            if op in ("<", ">", "<=", ">="):
                if isinstance(a, Ptr) and isinstance(b, Ptr) and a.obj is b.obj and isinstance(a.obj, list):
                    a, b = a.key, b.key
                a, b = self.num(a, "a comparison"), self.num(b, "a comparison")
                return int(a < b if op == "<" else a > b if op == ">" else a <= b if op == "<=" else a >= b)
            if isinstance(a, Ptr) or isinstance(b, Ptr):
                if op == "+" and isinstance(b, Ptr):
                    a, b = b, a
                if op in ("+", "-") and isinstance(a, Ptr) and not isinstance(b, Ptr):
                    if not isinstance(a.obj, list):
                        raise NoVerdict("arithmetic on a pointer that is not into an array")
                    return Ptr(a.obj, a.key + (self.num(b) if op == "+" else -self.num(b)))
                if op == "-" and isinstance(a, Ptr) and isinstance(b, Ptr) and a.obj is b.obj and isinstance(a.obj, list):
                    return a.key - b.key
                raise NoVerdict("pointer arithmetic %s" % op)
            return self.arith(op, self.num(a), self.num(b), self.itype(n.get("type")), n)
        if k == "CompoundAssignOperator":
            op = n.get("opcode")[:-1]
            lv = self.lv(ks[0], fr)
            old = self.get(lv)
            b = self.rv(ks[1], fr)
            if isinstance(old, Ptr):
                if op not in ("+", "-") or not isinstance(old.obj, list):
                    raise NoVerdict("compound assignment on a pointer")
                new = Ptr(old.obj, old.key + (self.num(b) if op == "+" else -self.num(b)))
            else:
                ct = self.itype(n.get("computeResultType")) or self.itype(n.get("type"))
                lt = self.itype(n.get("computeLHSType")) or ct
                if ct is None or lt is None:
                    raise NoVerdict("compound assignment in an unknown type")
                new = self.assign_conv(self.arith(op, conv(self.num(old), lt), self.num(b), ct, n), ks[0])
            self.put(lv, new)
            return new
        if k == "ConditionalOperator":
            return self.rv(ks[1] if self.truth(self.rv(ks[0], fr)) else ks[2], fr)
        if k == "CallExpr":
            callee = strip(ks[0])
            if not (kind(callee) == "DeclRefExpr" and callee.get("referencedDecl", {}).get("kind") == "FunctionDecl"):
                # call through a function pointer value: p(...) and (*p)(...) are the same call
                while kind(callee) == "UnaryOperator" and callee.get("opcode") == "*":
                    callee = strip(kids(callee)[0])
                fv = self.rv(callee, fr) if self.indirect is not None else None
                if not (isinstance(fv, tuple) and fv[:1] == ("fn",)):
                    raise NoVerdict("indirect call")
                return self.indirect(fv, [self.rv(x, fr) for x in ks[1:]])
            name = callee["referencedDecl"].get("name")
            if name in MEM_FUNCS and name not in self.tu.functions or (
                    name in MEM_FUNCS and not any(kind(c) == "CompoundStmt" for c in kids(self.tu.functions[name]))):
                return self.mem_call(name, ks, fr)
            args = [self.rv(x, fr) for x in ks[1:]]
            if name in IO_FUNCS:
                return 0
            return self.call(name, args)
        raise NoVerdict("expression of kind %s" % k)

    def assign_conv(self, v, lhs):
        t = self.itype(lhs.get("type"))
        if t is None:
            raise NoVerdict("store into an object of unknown integer type (%s)" % lhs.get("type", {}).get("qualType"))
        return conv(v, t)

    def arith(self, op, a, b, t, n):
        if op == "+":
            return self.fit(a + b, t, n)
        if op == "-":
            return self.fit(a - b, t, n)
        if op == "*":
            return self.fit(a * b, t, n)
        if op in ("/", "%"):
            if b == 0:
                raise NoVerdict("division by zero")
            q = abs(a) // abs(b)
            if (a < 0) != (b < 0):
                q = -q
            return self.fit(q if op == "/" else a - b * q, t, n)
        if op in ("<<", ">>"):
            if t is None or not 0 <= b < t[1] or a < 0:
                raise NoVerdict("shift outside the defined range")
            return self.fit(a << b, t, n) if op == "<<" else a >> b
        if op in ("&", "|", "^"):
            if t is None:
                raise NoVerdict("bit operation in an unknown type")
            return conv(a & b if op == "&" else a | b if op == "|" else a ^ b, t)
        raise NoVerdict("operator %s" % op)


# ---------------------------------------------------------------- R5 decided by evaluation of the sort helper

PRIO_SPREAD = (-32768, -129, -128, -1, 0, 1, 127, 128, 255, 256, 32767)
PRIO_PAIRS = ((0, 1), (-32768, 32767), (-1, 0), (127, 128), (255, 256), (-129, -128), (32766, 32767))
SORT_WEAK_ORDER_LEN = 4


def weak_orderings(n):
    """All weak orderings of n items as rank vectors (ranks 0..m without gaps): every way n priorities can compare
    with one another, ties included (1, 1, 3, 13, 75 for n = 0..4)."""
    out = []
    for r in itertools.product(range(max(n, 1)), repeat=n):
        if not r or set(r) == set(range(max(r) + 1)):
            out.append(tuple(r))
    return out


def witness_perms(n):
    """A fixed handful of permutations of 0..n-1 (rank of item k) for the fill levels beyond the exhaustive range."""
    ident = list(range(n))
    out = [ident, ident[::-1], ident[1:] + ident[:1], ident[-1:] + ident[:-1], ident[0::2] + ident[1::2],
           ident[1::2] + ident[0::2], [x ^ 1 if (x ^ 1) < n else x for x in ident],
           ident[n // 2:] + ident[:n // 2], ident[n // 2:][::-1] + ident[:n // 2][::-1]]
    x = 12345
    for _ in range(6):
        p = list(ident)
        for i in range(n - 1, 0, -1):
            x = (x * 1103515245 + 12345) % (1 << 31)
            j = x % (i + 1)
            p[i], p[j] = p[j], p[i]
        out.append(p)
    seen, res = set(), []
    for p in out:
        if tuple(p) not in seen:
            seen.add(tuple(p))
            res.append(tuple(p))
    return res


def rank_values(r, spread):
    """Priorities for a rank vector: small consecutive values, or values spread over int16 with its extremes and the
    8-bit boundaries (same order)."""
    m = max(r) if r else 0
    if not spread:
        return [x + 1 for x in r]
    last = len(PRIO_SPREAD) - 1
    return [PRIO_SPREAD[(x * last) // m if m else last // 2] for x in r]


def sort_witnesses(n):
    """Priority assignments for a bucket of n items: (why, [priority of item 0..n-1]).  All 2^n assignments of two
    priorities (for a sort that is a fixed sequence of compare-exchange steps -- R5's structural record -- these decide
    every input: 0-1 principle), all weak orderings for n <= SORT_WEAK_ORDER_LEN (every input of a comparison sort,
    whatever its structure), permutations and tie patterns with the int16 extremes beyond that."""
    seen, out = set(), []

    def add(why, vals):
        if tuple(vals) not in seen:
            seen.add(tuple(vals))
            out.append((why, list(vals)))
    for i, bits in enumerate(itertools.product((0, 1), repeat=n)):
        lo, hi = PRIO_PAIRS[i % len(PRIO_PAIRS)]
        add("two priorities", [hi if b else lo for b in bits])
    if n <= SORT_WEAK_ORDER_LEN:
        for r in weak_orderings(n):
            add("weak ordering", rank_values(r, False))
            add("weak ordering", rank_values(r, True))
    else:
        for p in witness_perms(n):
            add("permutation", rank_values(p, False))
            add("permutation", rank_values(p, True))
            add("permutation with ties", rank_values([x // 2 for x in p], True))
            add("permutation with ties", rank_values([x // 3 for x in p], False))
    return out


def sort_fold_run(a, sort, n, prios, tail):
    """One concrete evaluation of the sort helper on a bucket of n items with the given priorities ->
    None when the order sequence makes tdma_sched_execute run every item once in ascending priority, else the text of
    what goes wrong; a position behind the fill level that does not hold its own index is appended to `tail`.
    NoVerdict when the evaluation cannot be carried out."""
    name, bi, qi = sort
    ev = CEval(a.tu)
    bucket = ev.make("struct tdma_sched_bucket", zero=True)
    items = bucket.get("item")
    if not isinstance(items, list) or len(items) != a.NCB or "num_items" not in bucket:
        raise NoVerdict("bucket layout")
    order = sorted(set(prios))
    stale = max(PRIO_LO, (min(prios) if prios else 0) - 1)
    orig = {}
    for k, it in enumerate(items):
        live = k < n
        rank = order.index(prios[k]) if live else 0
        other = (len(order) - rank) if live else 0
        for f in list(it):
            if f == "cb":
                it[f] = ("fn", "%s#%d" % ("item" if live else "stale", k))
            elif f == "prio":
                it[f] = prios[k] if live else stale
            elif f in ("p1", "p2", "p3"):
                it[f] = other
            elif isinstance(it[f], (list, dict)):
                raise NoVerdict("aggregate member %s of struct tdma_sched_item" % f)
        if live:
            orig[it["cb"]] = dict(it)
    bucket["num_items"] = n
    seq = [UNDEF] * a.NCB
    world = [bucket]
    f = a.tu.func(name)
    if len(a.tu.fparams(f)) != 2:
        raise NoVerdict("%s() takes %d parameters" % (name, len(a.tu.fparams(f))))
    args = [None, None]
    args[bi], args[qi] = Ptr(world, 0), Ptr(seq, 0)
    ev.call(name, args)
    if bucket["num_items"] != n:
        return "the sort changes num_items to %s" % (bucket["num_items"],)
    ran = []
    for pos in range(n):
        s = seq[pos]
        if s is UNDEF:
            raise NoVerdict("seq[%d] is not written for a bucket of %d items (decided by R9)" % (pos, n))
        if not isinstance(s, int) or not 0 <= s < a.NCB:
            return "seq[%d] = %s is no index of item[]" % (pos, s)
        ran.append((s, items[s]))
    names = [it["cb"] for (_s, it) in ran]
    for cb in orig:
        if names.count(cb) != 1:
            k = int(cb[1].split("#")[1])
            return "item[%d] (priority %d) is %s (order sequence %s)" % (
                k, prios[k], "never executed" if cb not in names else "executed %d times" % names.count(cb), seq[:n])
    for (s, it) in ran:
        if it != orig.get(it["cb"]):
            return "the item in slot %d no longer carries the parameters it was scheduled with" % s
    got = [it["prio"] for (_s, it) in ran]
    for x, y in zip(got, got[1:]):
        if x > y:
            return "order sequence %s runs the priorities %s: %d before %d" % (seq[:n], got, x, y)
    for pos in range(n, a.NCB if n else 0):       # (no call-back runs for an empty bucket: nothing is scheduled on the fly)
        if seq[pos] is UNDEF or seq[pos] != pos:
            tail.append("seq[%d] %s" % (pos, "is not written" if seq[pos] is UNDEF else "= %s" % (seq[pos],)))
            break
    return None


def sort_fold(a, sort):
    """-> (runs, None | counterexample text, None | text for the positions behind the fill level); NoVerdict when some
    run cannot be evaluated.  The first counterexample found is the one with the fewest items."""
    runs = 0
    bad = badtail = None
    for n in range(a.NCB + 1):
        for (why, prios) in sort_witnesses(n):
            runs += 1
            tail = []
            text = sort_fold_run(a, sort, n, prios, tail)
            if text is not None and bad is None:
                bad = "num_items = %d, priorities of item[0..%d] = %s: %s" % (n, n - 1, prios, text)
            if tail and badtail is None:
                badtail = "num_items = %d: %s when the sort returns" % (n, tail[0])
        if bad is not None:
            break
    return runs, bad, badtail


def r5_sort(a, sort):
    """C08.R5 -- decides "items of one frame run in ascending priority order" (with R4: the execute loop runs
    item[seq[0]], item[seq[1]], ... of the sequence the sort helper produced) by evaluating the sort helper: a concrete
    interpreter of its clang AST (CEval: exact integer conversions, pointers, arrays, structs, loops, helper calls) runs
    it for every fill level 0..ARRAY_SIZE(item) on priority witnesses -- all assignments of two priorities, all weak
    orderings of up to four items, permutations / tie patterns with the int16 extremes for fuller buckets -- and the
    resulting seq[0..n-1] must select every item of the bucket exactly once, unchanged, in ascending priority.  How the
    sort is written (which algorithm, pointers to the items or a local copy of the keys, cached minimum, loop bounds,
    clamps) is irrelevant; a difference is a concrete bucket whose items run in the wrong order.  The for-all statement
    for code in the recognised selection-sort shape is the structural record (r5_shape); when the helper cannot be
    evaluated the shape rule decides alone, as before."""
    R = "C08.R5"
    if sort is None:
        raise AnalysisError("tdma_sched_execute(): the priority sort helper could not be identified")
    name = sort[0]
    try:
        try:
            runs, bad, badtail = sort_fold(a, sort)
        except (TypeError, KeyError, IndexError, ValueError, AttributeError, RecursionError) as e:
            raise NoVerdict("the evaluator met a construct it does not model (%s)" % type(e).__name__)
    except NoVerdict as e:
        a.sort_fold = "not evaluated: %s" % e
        r5_shape(a, sort)
        return
    a.sort_fold = bad or "ok"
    if bad is None:
        a.L.floor(R, "concrete evaluations of the sort helper over priority witnesses", runs, 2 ** (a.NCB + 1) - 1)
    want = "every item once, unchanged, in ascending priority, in all evaluated buckets"
    a.ob(R, name, "%s(): for every fill level 0..%d the order sequence runs each item of the bucket exactly once in ascending "
         "priority (evaluated for all assignments of two priorities, all weak orderings of up to %d items, permutations "
         "and tie patterns with the int16 extremes)" % (name, a.NCB, SORT_WEAK_ORDER_LEN), want, bad or want, bad is None,
         a.tu.func(name))
    if bad is None:
        want = "seq[m] = m for m = num_items .. %d, for every fill level >= 1" % (a.NCB - 1)
        a.ob(R, name, "%s(): the positions of the order sequence behind the fill level hold their own index (an item that a "
             "call-back schedules into the running frame lands in slot num_items and is executed from there)" % name,
             want, badtail or want, badtail is None, a.tu.func(name))
    a.L.structural("C08.R5: the sort helper is a selection sort over the identity sequence whose exchange is decided by "
                   "prio[earlier] > prio[later] on the current sequence (holds for every bucket content)", r5_shape_record, a, sort)


def r5_shape_record(a, sort):
    """The shape rule as a record only (the decision was taken by the fold): whatever it cannot classify is `open`."""
    try:
        r5_shape(a, sort)
    except (TypeError, KeyError, IndexError, ValueError, AttributeError) as e:
        raise AnalysisError("%s(): not in the selection-sort shape the rule classifies (%s)" % (sort[0], type(e).__name__))


# ---------------------------------------------------------------- R7 reset empties the ring

CUR_LV = ("fld", SCHED, "cur_bucket")
REPLAY_STEPS = 4000


def nonnull(t):
    """The address of a function or of an object: never NULL (see ASSUMPTIONS)."""
    return isinstance(t, tuple) and t[0] in ("fn", "addr")


def concretise(t, cur):
    """The term with every load of sched->cur_bucket replaced by the constant `cur`, constants folded."""
    return resolve(t, lambda lv, ver: X.C(cur) if lv == CUR_LV else None)


def resolve(t, load):
    """The term with every memory load `load(lvalue, version)` has a value for replaced by that value, constants
    folded: arithmetic, comparisons, boolean connectives, ?:, modulo / division of non-negative constants; the address
    of a function or object is true, differs from NULL and (functions) from the address of every other function."""
    if not isinstance(t, tuple):
        return t
    k = t[0]
    if k in ("c", "p", "g", "loc", "fn", "undef", "sizeof", "str", "res", "phi", "mv", "ver", "top"):
        return t
    if k == "ld":
        lv = resolve(t[1], load)
        v = load(lv, t[2])
        return v if v is not None else ("ld", lv, t[2])
    sub = tuple(resolve(x, load) if isinstance(x, tuple) else x for x in t[1:])
    allc = all(isinstance(x, tuple) and x[0] == "c" for x in sub)
    if k == "+":
        return X.add(*sub)
    if k == "*":
        return X.mul(*sub)
    if k == "mod":
        if allc:
            if sub[0][1] < 0 or sub[1][1] <= 0:
                return ("mod",) + sub
            return X.C(sub[0][1] % sub[1][1])
        return X.mod(*sub)
    if k == "div":
        if allc:
            if sub[0][1] < 0 or sub[1][1] <= 0:
                return ("div",) + sub
            return X.C(sub[0][1] // sub[1][1])
        return ("div",) + sub
    if k == "cmp":
        if isinstance(sub[1], tuple) and isinstance(sub[2], tuple) and sub[1][0] == "c" and sub[2][0] == "c":
            return X.C(int(sub[1][1] < sub[2][1] if sub[0] == "<" else sub[1][1] == sub[2][1]))
        if sub[0] == "==" and sub[1] == sub[2]:
            return C1
        if sub[0] == "==" and isinstance(sub[1], tuple) and isinstance(sub[2], tuple):
            x, y = sub[1], sub[2]
            if (nonnull(x) and y == C0) or (nonnull(y) and x == C0) or (x[0] == "fn" and y[0] == "fn"):
                return C0
            if x[0] == "addr" and y[0] == "addr" and x[1][0] == "idx" and y[1][0] == "idx" and x[1][1] == y[1][1] \
                    and x[1][2][0] == "c" and y[1][2][0] == "c":
                return X.C(int(x[1][2][1] == y[1][2][1]))         # two elements of one array: same address iff same index
        return ("cmp",) + sub
    if k == "not":
        if nonnull(sub[0]):
            return C0
        return X.C(int(sub[0][1] == 0)) if allc else ("not",) + sub
    if k in ("and", "or"):
        vals = [x[1] != 0 if x[0] == "c" else (True if nonnull(x) else None) for x in sub]
        if k == "and":
            if any(v is False for v in vals):
                return C0
            return C1 if all(v is True for v in vals) else (k,) + sub
        if any(v is True for v in vals):
            return C1
        return C0 if all(v is False for v in vals) else (k,) + sub
    if k == "ite":
        if sub[0][0] == "c":
            return sub[1] if sub[0][1] != 0 else sub[2]
        if nonnull(sub[0]):
            return sub[1]
        return X.ite(*sub)
    if k == "&":
        return X.band(*sub)
    if k == "|":
        return X.bor(*sub)
    if k == "^":
        return X.bxor(*sub)
    if k == "<<":
        return X.shl(*sub)
    if k == ">>":
        return X.shr(*sub)
    if k == "padd":
        return padd(*sub)
    if k == "deref":
        return deref(*sub)
    if k == "addr":
        return addr(*sub)
    return (k,) + sub


REPLAY_FORKS = 12


def post_dominators(g):
    """node id -> immediate post-dominator (CFG node) with respect to g.exit, for the nodes the exit is reachable
    from (an edge into a part of the graph that never reaches the exit is ignored: the replay runs into its step
    limit there)."""
    live = {g.exit.id}
    work = [g.exit]
    while work:
        n = work.pop()
        for (p, _l) in n.pred:
            if p.id not in live:
                live.add(p.id)
                work.append(p)
    nodes = [n for n in g.nodes if n.id in live]
    pd = {n.id: ({n.id} if n is g.exit else set(live)) for n in nodes}
    changed = True
    while changed:
        changed = False
        for n in nodes:
            if n is g.exit:
                continue
            ss = [pd[x.id] for (x, _l) in n.succ if x.id in live]
            new = (set.intersection(*ss) if ss else set()) | {n.id}
            if new != pd[n.id]:
                pd[n.id] = new
                changed = True
    by_id = {n.id: n for n in nodes}
    ipd = {}
    for n in nodes:
        strict = pd[n.id] - {n.id}
        for d in strict:
            if pd[d] == strict:
                ipd[n.id] = by_id[d]
    return ipd


def replay_reset(a, name, cur):
    """Run of `name`() through its CFG with sched->cur_bucket == cur: -> {bucket index: last constant written to its
    num_items}.  Branches whose condition folds to a constant for this ring position (loop bounds, comparisons with
    cur_bucket, wrap_bucket) are followed concretely.  A branch on anything else (a fill count, a statistics counter)
    cannot be decided -- and need not be when it has no influence on the scheduler state: both arms are run, each
    concretely, up to the branch's immediate post-dominator (the first node every path from the branch passes), and
    must arrive there with the same fill-count writes; the locals the arms leave with different values (counters of
    dropped items, ...) are unknown from there on.  An unknown value that later reaches a write to the scheduler (index or
    value) or a branch whose arms differ in their writes gives no verdict; output calls have no effect on the ring.
    Sound for every content of the ring: each arm is executed, none is assumed."""
    fn = Fn(a.ctx, name)
    if fn.params:
        raise AnalysisError("%s(): takes parameters -- unclassifiable" % name)
    g = fn.g
    BUCKETS = ("fld", SCHED, "bucket")
    steps = [0]
    ipd = []

    def step(n, st, written):
        """Execute node n: -> (condition value | None, state after n); fill-count writes go to `written`."""
        steps[0] += 1
        if steps[0] > REPLAY_STEPS:
            raise AnalysisError("%s(): no termination within %d steps for cur_bucket = %d" % (name, REPLAY_STEPS, cur))
        n0 = len(fn.stores)
        c0 = len(fn.calls)
        fn.st, fn.cur, fn.rec, fn.k, fn.world = st, n, True, 0, False
        val = None
        try:
            if n.kind == "stmt":
                fn.exec_stmt(n.ast)
            elif n.kind == "cond":
                val = fn.rval(n.cond) if getattr(n, "cond", None) is not None else C1
            elif n.kind not in ("entry", "label"):
                raise AnalysisError("%s(): control construct (%s) outside the replayable vocabulary" % (name, n.kind))
        finally:
            fn.rec = False
        if fn.world or fn.icalls:
            raise AnalysisError("%s(): calls a function whose effect on the ring is unknown -- unclassifiable" % name)
        for c in fn.calls[c0:]:
            sub = a.ctx.fn(c["name"]) if c["name"] in a.tu.functions and c["name"] not in IO_FUNCS and \
                c["name"] not in ("memset", "memcpy", "memmove") else None
            if sub is not None and (sub.world or any(s["grp"] in TD_GROUPS + ("ALL", "OTHER") or
                                                     (isinstance(s["grp"], tuple) and s["grp"][0] == "pp") for s in sub.stores)):
                raise AnalysisError("%s(): delegates writes to %s() -- unclassifiable" % (name, c["name"]))
        st = {k: concretise(v, cur) for k, v in fn.st.items()}
        for s in fn.stores[n0:]:
            grp = s["grp"]
            lv = concretise(s["lv"], cur)
            if grp == "cur_bucket" or (grp == "ALL" and "[]" not in lv_path(lv)[1]):
                raise AnalysisError("%s(): writes cur_bucket / the whole scheduler (decided by R2) -- ring position not "
                                    "constant during the reset" % name)
            if grp == "num_items":
                B = lv[1] if lv[0] == "fld" else None
                v = concretise(s["val"], cur) if s["val"] is not None else None
                if s["how"] != "assign" or B is None or not (B[0] == "idx" and B[1] == BUCKETS) or B[2][0] != "c" \
                        or v is None or v[0] != "c":
                    raise AnalysisError("%s(): write %s = %s to a fill count is not `bucket[constant].num_items = constant` "
                                        "for cur_bucket = %d -- unclassifiable" % (
                                            name, show(lv), show(v) if v is not None else s["how"], cur))
                if not 0 <= B[2][1] < a.NFR:
                    raise AnalysisError("%s(): bucket index %d outside the ring (decided by R2)" % (name, B[2][1]))
                written[B[2][1]] = v[1]
            elif grp == "ALL":
                # memset(..., 0, ...) over one bucket or the whole bucket array
                if not is_zero_fill(s) or not (lv[0] == "idx" and lv[1] == BUCKETS and lv[2][0] == "c"):
                    raise AnalysisError("%s(): whole-bucket store %s is unclassifiable" % (name, show(lv)))
                size = s.get("size")
                one = ("sizeof", "struct tdma_sched_bucket")
                if size == one:
                    cnt = 1
                elif size == ("sizeof", "struct tdma_sched_bucket[%d]" % a.NFR) and lv[2][1] == 0:
                    cnt = a.NFR
                else:
                    raise AnalysisError("%s(): zero fill of size %s -- unclassifiable" % (name, show(size) if size else "?"))
                for i in range(lv[2][1], lv[2][1] + cnt):
                    if not 0 <= i < a.NFR:
                        raise AnalysisError("%s(): zero fill beyond the ring" % name)
                    written[i] = 0
        for kk, vv in st.items():
            if kk[0] == "L" and isinstance(vv, tuple) and vv[0] == "c" and not 0 <= vv[1] <= 255:
                raise AnalysisError("%s(): local %s takes the value %d, outside the range in which integer conversions "
                                    "are modelled as value-preserving" % (name, fn.keyname(kk), vv[1]))
        return (concretise(val, cur) if n.kind == "cond" else None), st

    def join(at, v, arms):
        """The state at the post-dominator `at` of a branch on the undecidable `v` whose arms ended as `arms`
        [(state, written)]: the common fill-count writes, the common values; a local the arms disagree on is unknown."""
        w0 = arms[0][1]
        for (_st, w) in arms[1:]:
            if w != w0:
                diff = sorted(i for i in set(w) | set(w0) if w.get(i) != w0.get(i))
                raise AnalysisError(
                    "%s(): branch on %s, which is not a function of the ring position, and its arms differ in what they "
                    "write to the fill count of bucket[%s] for cur_bucket = %d -- unclassifiable" % (
                        name, show(v), ", ".join(str(i) for i in diff[:4]), cur))
        st = {}
        keys = set()
        for (s, _w) in arms:
            keys |= set(s)
        for k in keys:
            vals = {s.get(k) for (s, _w) in arms}
            if len(vals) == 1:
                x = vals.pop()
                if x is not None:
                    st[k] = x
            elif k[0] == "L":
                st[k] = ("top",)
            else:
                st[k] = ("mv", name, at.id, "join %s" % (k[1:],))
        return st, dict(w0)

    def run(n, st, written, stop, depth):
        """Replay from node n until `stop` is reached: -> (state, written) on arrival."""
        while n is not stop:
            if n is g.exit or not n.succ:
                raise AnalysisError("%s(): a path leaves the function without passing the join of an undecided branch "
                                    "-- unclassifiable" % name)
            v, st = step(n, st, written)
            if n.kind == "cond":
                if v[0] != "c":
                    if not ipd:
                        ipd.append(post_dominators(g))
                    at = ipd[0].get(n.id)
                    if at is None or depth >= REPLAY_FORKS:
                        raise AnalysisError("%s(): branch on %s, which is not a function of the ring position%s -- "
                                            "unclassifiable" % (name, show(v), "" if at is None else
                                                                " (more than %d nested)" % REPLAY_FORKS))
                    arms = []
                    for want in (True, False):
                        nxt = [s for (s, l) in n.succ if l == want]
                        if len(nxt) != 1:
                            raise AnalysisError("%s(): %d successors at a replayed node -- unclassifiable" % (name, len(nxt)))
                        arms.append(run(nxt[0], dict(st), dict(written), at, depth + 1))
                    st, w = join(at, v, arms)
                    written.clear()
                    written.update(w)
                    n = at
                    continue
                want = v[1] != 0
                nxt = [s for (s, l) in n.succ if l == want]
            else:
                nxt = [s for (s, l) in n.succ]
            if len(nxt) != 1:
                raise AnalysisError("%s(): %d successors at a replayed node -- unclassifiable" % (name, len(nxt)))
            n = nxt[0]
        return st, written

    _st, written = run(g.entry, {}, {}, g.exit, 0)
    return written, fn


def r7_reset(a):
    """C08.R7 -- decides a necessary condition of "nothing runs in a frame it was not scheduled for" over
    histories that contain reset operations: after tdma_sched_reset() no bucket other than the current one
    (which the running tdma_sched_execute empties itself, R4) may still hold items scheduled before the reset.
    The function is evaluated concretely (constant folding through its CFG, helper results inlined) for each of
    the ARRAY_SIZE(bucket) positions; the set of bucket indices whose num_items ends as 0 must contain every index
    except possibly cur_bucket.  Which loop form, index expression (absolute counter, offset through wrap_bucket,
    ...) or temporaries are used is irrelevant, and so are statements that only feed counters / log output: a
    branch that is not a function of the ring position is decided by running both arms (replay_reset) and
    demanding equal writes at their join; anything that cannot be evaluated is an AnalysisError."""
    R = "C08.R7"
    name = "tdma_sched_reset"
    if name not in a.fns:
        raise AnalysisError("anchor function %s() vanished from %s" % (name, a.F))
    missing = {}
    total = 0
    fn = None
    for cur in range(a.NFR):
        written, fn = replay_reset(a, name, cur)
        total += sum(1 for i, v in written.items() if v == 0)
        miss = [i for i in range(a.NFR) if i != cur and written.get(i) != 0]
        if miss:
            missing[cur] = miss
    a.L.floor(R, "buckets emptied by tdma_sched_reset, summed over all ring positions", total, 600)
    want = "all %d other buckets emptied, for each of the %d ring positions" % (a.NFR - 1, a.NFR)
    if not missing:
        found = want
    else:
        offs = {c: sorted((i - c) % a.NFR for i in m) for c, m in missing.items()}
        common = set.intersection(*[set(v) for v in offs.values()]) if len(offs) == a.NFR else set()
        c0 = min(missing)
        eg = "e.g. cur_bucket = %d: bucket[%s] keeps its items" % (c0, ", ".join(str(i) for i in missing[c0][:4]))
        if common and all(set(v) == common for v in offs.values()):
            found = "the bucket(s) %s frame(s) ahead of the current one are not emptied at any ring position (%s)" % (
                ", ".join(str(o) for o in sorted(common)), eg)
        else:
            found = "not emptied at %d of %d ring positions (%s)" % (len(missing), a.NFR, eg)
    node = None
    for s in fn.stores:
        if s["grp"] in ("num_items", "ALL"):
            node = s["node"]
            break
    a.ob(R, name, "tdma_sched_reset(): for every ring position, every bucket other than the current one is emptied "
         "(num_items = 0), so nothing scheduled before a reset runs after it", want, found, not missing,
         node if node is not None else fn.f)


# ---------------------------------------------------------------- concrete replay (R8, R9)

class Replay:
    """One function stepped node by node through its statement CFG with the transfer functions of the value dataflow
    (Fn.exec_stmt / Fn.rval, helper results inlined as decision terms).  The driver owns the state (locals -> terms),
    resolves the memory loads it has values for (`resolve`) and decides which successor(s) to follow."""

    def __init__(self, a, name):
        self.a, self.name = a, name
        self.fn = Fn(a.ctx, name)         # a private instance: the recorded events of the rules' instance stay untouched
        self.g = self.fn.g

    def entry_state(self, args=None):
        st = {}
        for i, p in enumerate(self.fn.params):
            st[("L", p["id"])] = (args or {}).get(i, ("p", i, p.get("name") or "arg%d" % i))
        return st

    def step(self, n, st):
        """Execute CFG node n in state st -> events of the node (stores, calls, returned values, condition term, raw
        state after the node)."""
        fn = self.fn
        m = (len(fn.stores), len(fn.calls), len(fn.icalls), len(fn.rets))
        fn.st, fn.cur, fn.rec, fn.k, fn.world = dict(st), n, True, 0, False
        val = None
        try:
            if n.kind == "stmt":
                fn.exec_stmt(n.ast)
            elif n.kind == "cond":
                val = fn.rval(n.cond) if getattr(n, "cond", None) is not None else C1
            elif n.kind not in ("entry", "label"):
                raise AnalysisError("%s(): control construct (%s) outside the replayable vocabulary" % (self.name, n.kind))
        finally:
            fn.rec = False
        ev = {"stores": fn.stores[m[0]:], "calls": fn.calls[m[1]:], "icalls": fn.icalls[m[2]:], "rets": fn.rets[m[3]:],
              "world": fn.world, "val": val, "st": fn.st}
        del fn.stores[m[0]:], fn.calls[m[1]:], fn.icalls[m[2]:], fn.rets[m[3]:]
        return ev

    def opaque(self, ev):
        """Calls of a replayed node whose memory effects the replay does not see."""
        out = []
        if ev["world"] or ev["icalls"]:
            out.append("code outside this file")
        for c in ev["calls"]:
            nm = c["name"]
            if nm in IO_FUNCS or nm in ("memset", "memcpy", "memmove") or nm not in self.a.tu.functions:
                continue
            sub = self.a.ctx.fn(nm)
            if sub is None or sub.world or any(not (isinstance(s["grp"], tuple) and s["grp"][0] == "loc") for s in sub.stores):
                out.append("%s()" % nm)
        return out


def truth(v):
    """A condition value as 0 / 1 where it is known (the address of a function or object is true)."""
    if isinstance(v, tuple) and v[0] == "c":
        return X.C(int(v[1] != 0))
    if nonnull(v):
        return C1
    return v


def check_small(fn, st):
    for kk, vv in st.items():
        if kk[0] == "L" and isinstance(vv, tuple) and vv[0] == "c" and not -1 <= vv[1] <= 255:
            raise AnalysisError("%s(): local %s takes the value %d, outside the range in which integer conversions "
                                "are modelled as value-preserving" % (fn.name, fn.keyname(kk), vv[1]))


# ---------------------------------------------------------------- R8 frames of a set, folded over witness sets

BUCKETS_LV = ("fld", SCHED, "bucket")
SET_WITNESS_LEN = 4


def witness_sets(maxlen):
    """All sets of up to maxlen entries over {item, end-of-frame marker} (the end-of-set marker follows): with
    maxlen >= 3 they contain leading, trailing and consecutive markers as well as frames of several items."""
    out = []
    for n in range(maxlen + 1):
        out.extend(itertools.product("IF", repeat=n))
    return out


def set_text(pattern):
    return "{%s}" % ", ".join(["item" if x == "I" else "END_FRAME" for x in pattern] + ["END_SET"])


def has_empty_frame(pattern):
    return "" in "".join(pattern).split("F") and "F" in pattern


def replay_set(a, rp, pattern, cur, off, fill):
    """Concrete run of tdma_schedule_set(off, set, p3) on the witness set `pattern` with sched->cur_bucket == cur and
    every bucket holding `fill` items.  The function's control flow depends on the kind of the set entries (their cb:
    NULL, &tdma_end_set, anything else) and the fill counts only; both are concrete here, so every branch folds.
    -> (ok, text): every item entry behind k markers is stored in bucket (cur + off + k) mod ring and nowhere else,
    nothing is stored for a marker."""
    fn, g, name = rp.fn, rp.g, rp.name
    ring = a.NFR
    pset = ("p", 1, fn.params[1].get("name") or "arg1")
    kinds = tuple(pattern) + ("E",)
    cbs = {}
    for i, k in enumerate(kinds):
        cbs[i] = C0 if k == "F" else ("fn", "tdma_end_set") if k == "E" else ("fn", "<callback of set entry #%d>" % i)
    owner = {v: i for i, v in cbs.items() if kinds[i] == "I"}

    def entry_index(E):
        if E == ("deref", pset):
            return 0
        if E[0] == "deref" and E[1][0] == "padd" and E[1][1] == pset and E[1][2][0] == "c":
            return E[1][2][1]
        return None
    box = {"snaps": {}}

    def load(lv, ver):
        if lv == CUR_LV:
            return X.C(cur)
        if lv[0] == "fld" and lv[2] == "num_items":
            B = lv[1]
            if B[0] == "idx" and B[1] == BUCKETS_LV and B[2][0] == "c" and ver in box["snaps"]:
                if not 0 <= B[2][1] < ring:
                    raise AnalysisError("%s(): bucket index %d outside the ring (decided by R2)" % (name, B[2][1]))
                return X.C(box["snaps"][ver].get(B[2][1], fill))
            return None
        if lv[0] == "fld" and lv[2] == "cb":
            i = entry_index(lv[1])
            if i is not None and 0 <= i < len(kinds):
                return cbs[i]         # (an entry outside the witness set stays unknown: a branch on it is no verdict)
        return None

    def bucket_slot(lv):
        slot = item_slot(lv)
        if slot is None:
            return None, None
        B, I = slot[1][1], slot[2]
        if not (B[0] == "idx" and B[1] == BUCKETS_LV and B[2][0] == "c" and I[0] == "c"):
            raise AnalysisError("%s(): item store into %s does not resolve to bucket[constant].item[constant] for the set %s "
                                "-- unclassifiable" % (name, show(lv), set_text(pattern)))
        return slot, B[2][1]
    mem = {}
    placed = []                           # (bucket, set entry index | None, what)
    st = rp.entry_state({0: X.C(off)})
    n, steps = g.entry, 0
    while n is not g.exit:
        steps += 1
        if steps > REPLAY_STEPS:
            raise AnalysisError("%s(): no termination within %d steps for the set %s" % (name, REPLAY_STEPS, set_text(pattern)))
        v0 = fn.ver("num_items", st)
        box["snaps"] = {v0: mem}
        ev = rp.step(n, st)
        op = rp.opaque(ev)
        if op:
            raise AnalysisError("%s(): delegates memory writes to %s -- the placement of a set cannot be replayed" % (
                name, ", ".join(op)))
        v1 = fn.ver("num_items", ev["st"])
        if len([s for s in ev["stores"] if s["grp"] == "num_items"]) > 1:
            raise AnalysisError("%s(): several writes of num_items in one statement -- unclassifiable" % name)
        for s in ev["stores"]:
            grp = s["grp"]
            if grp in ("cur_bucket", "ALL"):
                raise AnalysisError("%s(): writes %s while scheduling a set -- unclassifiable" % (name, show(s["lv"])))
            if grp == ("pp", 1):
                raise AnalysisError("%s(): writes into the caller's set -- unclassifiable" % name)
            if grp == "num_items":
                lv = resolve(s["lv"], load)
                B = lv[1] if lv[0] == "fld" else None
                v = resolve(s["val"], load) if s["val"] is not None else None
                if s["how"] != "assign" or B is None or not (B[0] == "idx" and B[1] == BUCKETS_LV and B[2][0] == "c") \
                        or v is None or v[0] != "c" or not 0 <= B[2][1] < ring:
                    raise AnalysisError("%s(): write %s = %s to a fill count does not resolve to constants for the set %s "
                                        "-- unclassifiable" % (name, show(lv), show(v) if v is not None else s["how"],
                                                               set_text(pattern)))
                mem = dict(mem)
                mem[B[2][1]] = v[1]
                if v1 != v0:
                    box["snaps"][v1] = mem
            elif grp == "item":
                if s["how"] == "fill":
                    raise AnalysisError("%s(): memset over an item slot -- unclassifiable" % name)
                lv = resolve(s["lv"], load)
                slot, b = bucket_slot(lv)
                if slot is None:
                    raise AnalysisError("%s(): store into item[] that is not a single slot: %s" % (name, show(lv)))
                if lv == slot:
                    if s["how"] == "copy":
                        if s.get("size") != ("sizeof", "struct tdma_sched_item"):
                            raise AnalysisError("%s(): item copy of a size other than sizeof(struct tdma_sched_item) -- "
                                                "unclassifiable" % name)
                        E = deref(resolve(s["src"], load))
                    elif s["how"] == "assign" and s["val"] is not None and s["val"][0] == "ld":
                        E = resolve(s["val"][1], load)
                    else:
                        raise AnalysisError("%s(): whole-slot store of unclassifiable shape" % name)
                    i = entry_index(E)
                    if i is None or not 0 <= i < len(kinds):
                        raise AnalysisError("%s(): the stored item %s is not an entry of the set -- unclassifiable" % (name, show(E)))
                    placed.append((b, i if kinds[i] == "I" else None, "entry #%d" % i))
                elif lv[0] == "fld" and lv[1] == slot:
                    if lv[2] != "cb":
                        continue          # p1 / p2 / p3 / prio of the slot: decided by R3
                    v = resolve(s["val"], load) if s["val"] is not None else None
                    if v in owner:
                        placed.append((b, owner[v], "entry #%d" % owner[v]))
                    elif v == C0 or v == ("fn", "tdma_end_set"):
                        placed.append((b, None, "a marker (cb %s)" % show(v)))
                    else:
                        raise AnalysisError("%s(): callback %s stored into an item slot is not a set entry's -- unclassifiable" % (
                            name, show(v) if v is not None else "?"))
                else:
                    raise AnalysisError("%s(): partial store %s into an item slot -- unclassifiable" % (name, show(lv)))
        if v1 != v0 and v1 not in box["snaps"]:
            box["snaps"][v1] = mem
        st = {k: resolve(v, load) for k, v in ev["st"].items()}
        check_small(fn, st)
        if n.kind == "cond":
            v = truth(resolve(ev["val"], load))
            if v[0] != "c":
                raise AnalysisError("%s(): branch on %s, which is not a function of the kind of the set entries, the fill "
                                    "counts and the ring position -- unclassifiable" % (name, show(v)))
            nxt = [s for (s, l) in n.succ if l == (v[1] != 0)]
        else:
            nxt = [s for (s, l) in n.succ]
        if len(nxt) != 1:
            raise AnalysisError("%s(): %d successors at a replayed node -- unclassifiable" % (name, len(nxt)))
        n = nxt[0]
    k = 0
    for i, x in enumerate(pattern):
        if x == "F":
            k += 1
            continue
        want = (cur + off + k) % ring
        got = sorted({b for (b, j, _w) in placed if j == i})
        if got != [want]:
            where = "not stored" if not got else "stored in bucket %s (%s frame(s) after the set's first frame)" % (
                ", ".join(str(b) for b in got), ", ".join(str((b - cur - off) % ring) for b in got))
            return False, ("set %s scheduled with frame_offset=%d at cur_bucket=%d: entry #%d, an item behind %d end-of-frame "
                           "marker(s), is %s instead of in bucket %d (%d frame(s) after the first)" % (
                               set_text(pattern), off, cur, i, k, where, want, k))
    extra = [(b, w) for (b, j, w) in placed if j is None]
    if extra:
        return False, "set %s: %s is stored as an item in bucket %d" % (set_text(pattern), extra[0][1], extra[0][0])
    return True, ""


def r8_set_frames(a):
    """C08.R8 -- decides a necessary condition of the clause "a multi-frame set places the items of its k-th frame k
    frames after its first" (and through it "executed exactly N frame advances later"): EVERY end-of-frame marker of a
    set advances the frame by exactly one, whether or not an item lies between two markers or before the first one.
    tdma_schedule_set is folded (concrete run through its CFG with the module's own transfer functions, wrap_bucket and
    other helpers inlined) over all 31 witness sets of up to 4 entries over {item, END_FRAME} -- among them
    {item, END_FRAME, END_FRAME, item}, leading and trailing markers -- at three (ring position, offset, fill level)
    triples including a wrap over the ring end; the bucket every item entry is copied into must be
    (cur_bucket + frame_offset + number of markers before the entry) mod ring.  A difference is a concrete input on
    which the code schedules an item into the wrong frame.  How the frame is tracked (recomputed per marker, stepped,
    resolved lazily, looked up per item) is irrelevant; a run the replay cannot follow is an AnalysisError.  The
    for-all-sets statement for code in the recognised shape is R3's inductive check; R8 is its witness fold."""
    R = "C08.R8"
    name = "tdma_schedule_set"
    rp = Replay(a, name)
    if len(rp.fn.params) != 3:
        raise AnalysisError("tdma_schedule_set(): expected three parameters -- unclassifiable")
    ring = a.NFR
    # (ring position, offset of the first frame, fill level of every bucket): the last frame of a witness set stays
    # below the scheduler depth (offset + SET_WITNESS_LEN < ring: the property's quantifier), the second and third
    # point wrap over the ring end, no point exceeds a bucket's capacity
    points = [(0, 0, 0), (ring - 1, 1, 0), (ring // 2, ring - 1 - SET_WITNESS_LEN, max(0, a.NCB - SET_WITNESS_LEN - 1))]
    if ring <= SET_WITNESS_LEN + 1:
        raise AnalysisError("ring of %d frames is too short for the witness sets" % ring)
    runs = 0
    bad = {"dense": None, "sparse": None}
    for pattern in witness_sets(SET_WITNESS_LEN):
        cls = "sparse" if has_empty_frame(pattern) else "dense"
        for (cur, off, fill) in points:
            runs += 1
            ok, text = replay_set(a, rp, pattern, cur, off, fill)
            if not ok and bad[cls] is None:
                bad[cls] = text
    a.set_fold = dict(bad)
    a.L.floor(R, "concrete runs of tdma_schedule_set over witness sets", runs, 3 * (2 ** (SET_WITNESS_LEN + 1) - 1))
    want = "bucket (cur_bucket + frame_offset + k) mod %d for the items behind k markers, in all runs" % ring
    a.ob(R, name, "tdma_schedule_set(): in a set whose frames all hold items, the items behind the k-th end-of-frame marker "
         "are stored k frames after the set's first frame (folded over witness sets)", want, bad["dense"] or want,
         bad["dense"] is None, rp.fn.f)
    a.ob(R, name, "tdma_schedule_set(): every end-of-frame marker moves the following items exactly one frame later, also "
         "when no item lies between two markers or before the first one (sets with empty frames, folded over witness sets)",
         want, bad["sparse"] or want, bad["sparse"] is None, rp.fn.f)


# ---------------------------------------------------------------- R9 order sequence definitely written

TOP = ("top",)
SORT_STATES = 60000


def sort_written(a, rp, bi, qi, n):
    """The seq[] positions the sort helper has written when it returns, for a bucket holding n items.  Abstract run
    through the CFG: integer locals and the pointers formed from the parameters are concrete, every other value
    (item contents, sequence contents) is unknown; a branch whose condition is known is followed, an unknown one
    (priority comparison) is followed both ways.  -> list of (exact, written positions, branches taken): one entry per
    way of reaching the function's exit; `exact` when no unknown branch and no unresolved write lies on it (then it is
    THE execution for every bucket of n items), the others are joined by intersection (must-written)."""
    fn, g, name = rp.fn, rp.g, rp.name
    SEQ = ("p", qi, fn.params[qi].get("name") or "arg%d" % qi)
    NUM = ("fld", deref(("p", bi, fn.params[bi].get("name") or "arg%d" % bi)), "num_items")

    def load(lv, ver):
        return X.C(n) if lv == NUM else None

    def opaque_term(v):
        return any(isinstance(x, tuple) and x[0] in ("ld", "res", "top", "phi") for x in subterms(v))

    def abstract(v):
        v = resolve(v, load)
        return TOP if opaque_term(v) else v

    def seq_idx(lv):
        if lv == ("deref", SEQ):
            return C0
        if lv[0] == "deref" and lv[1][0] == "padd" and lv[1][1] == SEQ:
            return lv[1][2]
        return None
    states, trails, queued, work = {}, {}, set(), []

    def push(node, loc, exact, W, trail):
        key = (node.id, loc, exact)
        old = states.get(key)
        if old is None:
            states[key] = W
        elif exact:
            raise AnalysisError("%s(): does not terminate for a bucket of %d items" % (name, n))
        else:
            if old <= W:
                return
            states[key] = old & W
        if len(states) > SORT_STATES:
            raise AnalysisError("%s(): too many states for a bucket of %d items -- unclassifiable" % (name, n))
        if exact:
            trails[key] = trail
        if key not in queued and node is not g.exit:
            queued.add(key)
            work.append((node, loc, exact))
    start = rp.entry_state()
    push(g.entry, tuple(sorted(start.items())), True, frozenset(), ())
    while work:
        node, loc, exact = work.pop()
        key = (node.id, loc, exact)
        queued.discard(key)
        W = states[key]
        trail = trails.get(key, ())
        ev = rp.step(node, dict(loc))
        if rp.opaque(ev):
            exact = False                 # writes the replay does not see: the written set is a lower bound only
        for s in ev["stores"]:
            grp = s["grp"]
            if grp in TD_GROUPS or grp == "ALL":
                raise AnalysisError("%s(): the sort helper writes scheduler state (%s) -- unclassifiable" % (name, show(s["lv"])))
            lv = resolve(s["lv"], load)
            if grp == ("pp", qi):
                k = seq_idx(lv)
                cnt = None
                if k is not None and k[0] == "c":
                    if s["how"] == "assign":
                        cnt = 1
                    elif s.get("pointee") == "int" and isinstance(s.get("size"), tuple) and s["size"][0] == "c":
                        cnt = s["size"][1] // (ARM_INT["int"][0] // 8)
                if cnt is None:
                    exact = False         # a write to the sequence at an unresolved position
                else:
                    W = W | frozenset(range(k[1], k[1] + cnt))
            elif grp == "OTHER" or opaque_term(lv):
                exact = False             # a write through a pointer the replay does not know: may be the sequence
        st2 = {k: abstract(v) for k, v in ev["st"].items() if k[0] == "L"}
        check_small(fn, st2)
        loc2 = tuple(sorted(st2.items()))
        if node.kind == "cond":
            v = truth(resolve(ev["val"], load))
            if v[0] == "c":
                taken = "%s is %s" % (show(ev["val"]), "true" if v[1] else "false")
                for (s, l) in node.succ:
                    if l == (v[1] != 0):
                        push(s, loc2, exact, W, (trail + (taken,))[-3:] if exact else ())
            else:
                for (s, l) in node.succ:
                    if l in (True, False):
                        push(s, loc2, False, W, ())
        else:
            for (s, l) in node.succ:
                push(s, loc2, exact, W, trail)
    return [(key[2], W, trails.get(key, ())) for key, W in states.items() if key[0] == g.exit.id]


def r9_order_initialised(a, sort):
    """C08.R9 -- decides a necessary condition of "executed exactly once ... with the parameters it was scheduled
    with" and "nothing runs in a frame it was not scheduled for": tdma_sched_execute runs bucket->item[seq[pos]] for
    pos = 0 .. num_items-1 (R4), so every one of these seq[] positions must have been written by the sort helper in
    the same call, on every path through it, for every fill level num_items = 0 .. ARRAY_SIZE(item) -- definite
    initialisation of the order sequence (an automatic array with an initialiser at its declaration is initialised in
    every call already; when tdma_sched_execute writes the array itself or hands it to another function too, a
    position the helper leaves unwritten is no verdict).  A position that is not written holds whatever the array held before: an
    indeterminate value for an automatic array, the order of an earlier frame for a static one (an item that ran long
    ago is executed again, the scheduled one never) -- the storage class does not matter to the rule, a static array
    is acceptable exactly when it is rewritten for all positions < num_items on every path.  Decided by evaluating the
    helper for each of the fill levels (loop counters and tests of the fill level concrete, priority comparisons
    followed both ways) and collecting the positions written on every path to its exit; a violation is reported only
    for a path without unknown branch (the execution of every bucket with that many items) and names the fill level,
    the position and the branches taken.  Which loop form initialises the sequence, whether an empty or one-item
    bucket takes a fast path behind the initialisation, and whether all ARRAY_SIZE(item) or only num_items positions
    are written is irrelevant."""
    R = "C08.R9"
    if sort is None:
        raise AnalysisError("tdma_sched_execute(): the priority sort helper could not be identified")
    name, bi, qi = sort
    rp = Replay(a, name)
    fn = rp.fn
    if fn.world or any(s["grp"] in TD_GROUPS or s["grp"] == "ALL" for s in fn.stores):
        raise AnalysisError("%s(): the sort helper writes scheduler state or calls unknown code -- the fill level is not "
                            "constant during the call, unclassifiable" % name)
    # what tdma_sched_execute itself does to the array before it reads it
    ex = a.fns["tdma_sched_execute"]
    SEQ = getattr(a, "seq_lv", None)
    decl = None
    for d in walk(ex.f):
        if kind(d) == "VarDecl" and SEQ is not None and SEQ in (("loc", ex.vname.get(d.get("id"))), ("g", "%s.%s" % (ex.name, d.get("name")))):
            decl = d
    if decl is None:
        raise AnalysisError("tdma_sched_execute(): declaration of the order sequence not found")
    static = SEQ[0] == "g"
    at_decl = not static and bool(decl.get("init"))       # an automatic array with an initialiser: every element, every call
    own = [s for s in ex.stores if s["grp"] == (SEQ[0], SEQ[1])] + \
          [c for c in ex.calls if c["name"] != name and any(contains(x, SEQ) for x in c["args"] if isinstance(x, tuple))]
    bad = unsure = None
    nexits = 0
    for n in range(a.NCB + 1):
        exits = sort_written(a, rp, bi, qi, n)
        if not exits:
            raise AnalysisError("%s(): no path to the exit for a bucket of %d items" % (name, n))
        nexits += len(exits)
        for (exact, W, trail) in exits:
            missing = [i for i in range(n) if i not in W]
            if missing and exact and bad is None:
                bad = (n, missing, trail)
            elif missing and not exact and unsure is None:
                unsure = (n, missing)
    a.L.floor(R, "(fill level, exit) pairs of the sort helper evaluated", nexits, a.NCB + 1)
    if bad is None and unsure is not None:
        raise AnalysisError("%s(): seq[%d] may stay unwritten for a bucket of %d items, on a path that depends on a branch "
                            "the evaluation cannot decide or passes a write it cannot resolve -- unclassifiable" % (
                                name, unsure[1][0], unsure[0]))
    want = "seq[0 .. num_items-1] written on every path, for num_items = 0 .. %d" % a.NCB
    found = want
    if bad is not None and at_decl:
        bad = None
        found = "every element initialised at the array's declaration in tdma_sched_execute, in every call"
    if bad is not None and own:
        raise AnalysisError("%s(): seq[%d] is not written for a bucket of %d items, but tdma_sched_execute writes the sequence "
                            "itself / hands it to another function as well -- unclassifiable" % (name, bad[1][0], bad[0]))
    if bad is not None:
        n, missing, trail = bad
        found = "num_items = %d: seq[%s] is not written on the path %s -> return; tdma_sched_execute then runs item[seq[%d]] with %s" % (
            n, ", ".join(str(i) for i in missing), " -> ".join(trail) if trail else "entry", missing[0],
            "the order its static array kept from an earlier frame" if static else "an indeterminate index")
    a.ob(R, name, "every position of the order sequence that tdma_sched_execute reads (seq[0 .. num_items-1]) is written by "
         "%s() in the same call on every path, for every fill level of the bucket" % name, want, found, bad is None, fn.f)


# ---------------------------------------------------------------- R10 / R11 scheduling calls folded on boundary witnesses

FOLD_ERRORS = (TypeError, KeyError, IndexError, ValueError, AttributeError, RecursionError)
END_SET_CB = ("fn", "tdma_end_set")


def pattern_text(pattern):
    """{item x 3, END_FRAME, item, END_SET}"""
    out = []
    for k, grp in itertools.groupby(pattern):
        n = len(list(grp))
        word = "item" if k == "I" else "END_FRAME"
        out.append(word if n == 1 else "%s x %d" % (word, n))
    return "{%s}" % ", ".join(out + ["END_SET"])


class SchedWorld:
    """The scheduler ring as one concrete object (l1s.tdma_sched: every bucket, fill count and item slot) on which
    tdma_schedule() / tdma_schedule_set() are evaluated by the concrete interpreter (CEval: the functions' clang AST is
    folded, helpers followed, nothing is executed).  One world is reused over the witness runs: `reset` restores the
    empty ring, sets the ring position and pre-stores items."""

    def __init__(self, a):
        self.a = a
        self.ev = ev = CEval(a.tu)
        # file-scope objects the translation unit itself defines (a private overflow counter, ...) are extra state of
        # the world: static storage, created zeroed / with their initialiser on first use -- the state after start-up,
        # so whatever a witness run shows from there is a reachable behaviour
        ev.lazy_globals = True
        self.sched = sched = ev.make("struct tdma_scheduler", zero=True)
        bk = sched.get("bucket")
        if not isinstance(bk, list) or len(bk) != a.NFR or any(
                not isinstance(B, dict) or not isinstance(B.get("item"), list) or len(B["item"]) != a.NCB for B in bk):
            raise NoVerdict("ring layout")
        l1s = Rec()
        l1s["tdma_sched"] = sched
        ev.globals["l1s"] = l1s
        self.sig = {}
        for name, n in (("tdma_schedule", 6), ("tdma_schedule_set", 3)):
            f = a.tu.func(name)
            if len(a.tu.fparams(f)) != n:
                raise AnalysisError("%s(): expected %d parameters (frame offset first) -- unclassifiable" % (name, n))
            self.sig[name] = f
        self.pre = {}
        self.blank = ev.make("struct tdma_sched_item", zero=True)

    def reset(self, cur, fills):
        ev = self.ev
        self.pre = {}
        for b, B in enumerate(self.sched["bucket"]):
            n = fills.get(b, 0)
            items = B["item"]
            if B["num_items"] != 0 or n or any(it["cb"] != 0 for it in items):
                for k in range(len(items)):
                    items[k] = ev.copy(self.blank)
            for k in range(n):
                it = items[k]
                it["cb"] = ("fn", "<item #%d already in bucket %d>" % (k, b))
                it["p1"], it["p2"], it["p3"], it["prio"] = k, b, 7, k
                self.pre[it["cb"]] = (b, dict(it))
            ev.put((B, "num_items"), n)
        ev.put((self.sched, "cur_bucket"), cur)
        self.cur = self.sched["cur_bucket"]

    def call(self, name, args):
        self.ev.steps = 0
        self.ev.depth = 0
        try:
            return self.ev.call(name, args)
        except OutOfRange as e:
            # an access behind the end of the ring / of a bucket's item array, on concrete values: decided, not unknown
            bk = self.sched["bucket"]
            if e.obj is bk:
                return ("oob", "bucket[%s] of the %d-bucket ring" % (e.key, len(bk)))
            if any(e.obj is B["item"] for B in bk):
                return ("oob", "item[%s] of a bucket's %d item slots" % (e.key, len(e.obj)))
            raise
        except FOLD_ERRORS as e:
            raise NoVerdict("the evaluator met a construct it does not model (%s)" % type(e).__name__)

    @staticmethod
    def oob(rc):
        return "the call accesses %s (memory outside the scheduler's arrays)" % rc[1] if isinstance(rc, tuple) and rc[:1] == ("oob",) \
            else None

    def where(self, cb):
        """Slots (bucket, position below the fill count) that hold an item with this call-back."""
        out = []
        for b, B in enumerate(self.sched["bucket"]):
            n = B["num_items"]
            if not isinstance(n, int) or not 0 <= n <= self.a.NCB:
                continue
            out.extend((b, k) for k in range(n) if B["item"][k]["cb"] == cb)
        return out

    def damage(self):
        """What happened to the ring beyond the judged items: a fill count outside 0..capacity, a pre-stored item that is
        gone / changed / duplicated, a moved ring position."""
        a = self.a
        if self.sched["cur_bucket"] != self.cur:
            return "cur_bucket becomes %s" % (self.sched["cur_bucket"],)
        for b, B in enumerate(self.sched["bucket"]):
            n = B["num_items"]
            if not isinstance(n, int) or not 0 <= n <= a.NCB:
                return "bucket %d ends with num_items = %s" % (b, n)
        for cb, (b, it) in self.pre.items():
            at = self.where(cb)
            if len(at) != 1 or at[0][0] != b or dict(self.sched["bucket"][b]["item"][at[0][1]]) != it:
                return "%s, scheduled before, is %s" % (cb[1].strip("<>"), "no longer in its bucket" if not at else
                                                        "duplicated" if len(at) > 1 else "changed or moved")
        return None

    def run_single(self, off):
        """-> None | text of what differs from: success reported, the item in bucket (cur + off) mod ring, once."""
        a = self.a
        cb = ("fn", "<call-back of the scheduled item>")
        rc = self.call("tdma_schedule", [off, cb, 11, 12, 1313, 5])
        if self.oob(rc):
            return self.oob(rc)
        want = (self.cur + off) % a.NFR
        bad = []
        if not isinstance(rc, int) or rc < 0:
            bad.append("returns %s (wanted: a non-negative value, no frame is full)" % (rc,))
        at = self.where(cb)
        if [b for (b, _k) in at] != [want]:
            bad.append("the item is %s (wanted: once in bucket %d)" % (
                "not stored" if not at else "stored in bucket(s) %s" % ", ".join(str(b) for (b, _k) in at), want))
        d = self.damage()
        if d:
            bad.append(d)
        return "; ".join(bad) or None

    def run_single_at(self, off, k):
        """tdma_schedule(off, ...) when its frame already holds k items: refused (negative value, nothing lost) iff
        k is the capacity; else success, the item once in bucket (cur + off) mod ring, whose fill count becomes k + 1."""
        a = self.a
        cb = ("fn", "<call-back of the scheduled item>")
        rc = self.call("tdma_schedule", [off, cb, 11, 12, 1313, 5])
        if self.oob(rc):
            return self.oob(rc)
        want = (self.cur + off) % a.NFR
        bad = []
        at = self.where(cb)
        if k >= a.NCB:
            if not isinstance(rc, int) or rc >= 0:
                bad.append("returns %s although it is the %dth item of its frame (wanted: a negative value)" % (rc, a.NCB + 1))
        else:
            if not isinstance(rc, int) or rc < 0:
                bad.append("returns %s (wanted: a non-negative value, the frame has room)" % (rc,))
            n = self.sched["bucket"][want]["num_items"]
            if n != k + 1:
                bad.append("bucket %d ends with num_items = %s (wanted: %d)" % (want, n, k + 1))
            elif [b for (b, _k) in at] != [want]:
                bad.append("the item is %s (wanted: once in bucket %d)" % (
                    "not stored" if not at else "stored in bucket(s) %s" % ", ".join(str(b) for (b, _k) in at), want))
        d = self.damage()
        if d:
            bad.append(d)
        return "; ".join(bad) or None

    def run_set(self, off, pattern):
        """tdma_schedule_set(off, pattern + END_SET, p3) judged against the stated behaviour: the items behind k markers
        belong to bucket (cur + off + k) mod ring; the set is refused (negative return value) exactly when one of its
        items meets a bucket that already holds capacity-many items -- then nothing scheduled before may be lost; else
        the call reports success and every item is stored once, in its bucket, next to what was there before."""
        a = self.a
        ev = self.ev
        entries = []
        for i, x in enumerate(tuple(pattern) + ("E",)):
            it = ev.copy(self.blank)
            if x == "I":
                it["cb"] = ("fn", "<call-back of set entry #%d>" % i)
                it["p1"], it["p2"], it["prio"] = i + 1, 2 * i + 1, i
            elif x == "E":
                it["cb"] = END_SET_CB
            entries.append(it)
        count = {b: B["num_items"] for b, B in enumerate(self.sched["bucket"])}
        place, k, refused = {}, 0, None
        for i, x in enumerate(pattern):
            if x == "F":
                k += 1
                continue
            b = (self.cur + off + k) % a.NFR
            if count[b] >= a.NCB:
                refused = i
                break
            count[b] += 1
            place[i] = b
        rc = self.call("tdma_schedule_set", [off, Ptr(entries, 0), 4242])
        if self.oob(rc):
            return self.oob(rc)
        bad = []
        if refused is not None:
            if not isinstance(rc, int) or rc >= 0:
                bad.append("returns %s although entry #%d is the %dth item of its frame (wanted: a negative value)" % (
                    rc, refused, a.NCB + 1))
        else:
            if not isinstance(rc, int) or rc < 0:
                bad.append("returns %s (wanted: a non-negative value, no item exceeds a frame's capacity)" % (rc,))
            for i, b in sorted(place.items()):
                at = self.where(entries[i]["cb"])
                if [x for (x, _k) in at] != [b]:
                    bad.append("entry #%d is %s (wanted: once in bucket %d)" % (
                        i, "not stored" if not at else "stored in bucket(s) %s" % ", ".join(str(x) for (x, _k) in at), b))
                    break
            if not bad:
                for b, B in enumerate(self.sched["bucket"]):
                    if B["num_items"] != count[b]:
                        bad.append("bucket %d ends with num_items = %s (wanted: %d)" % (b, B["num_items"], count[b]))
                        break
            if not bad and self.where(END_SET_CB):
                bad.append("the end-of-set marker is stored as an item")
        d = self.damage()
        if d:
            bad.append(d)
        return "; ".join(bad) or None


def fold_stage(name, fn):
    """Run witness evaluations; what the evaluator cannot follow is `no verdict`, never a violation."""
    try:
        return fn()
    except NoVerdict as e:
        raise AnalysisError("%s(): the call cannot be evaluated on its witnesses (%s) -- unclassifiable" % (name, e))


def r10_offset_domain(a):
    """C08.R10 -- decides, at the entry of the scheduling calls, the clause "an item scheduled N frames ahead (N below
    the scheduler depth of 25) is executed ... exactly N frame advances later" together with "exceeding a frame's
    capacity is reported as an error": EVERY offset of the ring's domain 0 .. ARRAY_SIZE(bucket)-1 must be accepted
    while the target frame has room.  tdma_schedule() is evaluated (CEval: a fold of its clang AST, helpers followed)
    for all ring positions x all offsets on an empty ring: it must report success (a non-negative value) and leave the
    item, once, in bucket (cur_bucket + offset) mod ring.  tdma_schedule_set() likewise for every offset of its first
    frame, with sets of up to three frames whose last frame reaches the boundary offset ring-1.  A difference is a
    concrete legal call whose item never runs (or runs in another frame).  How a range check is written (which constant,
    which comparison, in the function or a helper) is irrelevant: only the outcome per offset is judged; offsets of a
    revolution or more are outside the quantifier and not evaluated."""
    R = "C08.R10"
    ring = a.NFR

    def fold():
        W = SchedWorld(a)
        bad = {"tdma_schedule": None, "tdma_schedule_set": None}
        runs = 0
        for cur in range(ring):
            for off in range(ring):
                W.reset(cur, {})
                runs += 1
                t = W.run_single(off)
                if t and bad["tdma_schedule"] is None:
                    bad["tdma_schedule"] = "tdma_schedule(frame_offset=%d, ...) at cur_bucket=%d on an empty ring: %s" % (off, cur, t)
                pattern = "I" + "FI" * min(2, ring - 1 - off)
                W.reset(cur, {})
                runs += 1
                t = W.run_set(off, pattern)
                if t and bad["tdma_schedule_set"] is None:
                    bad["tdma_schedule_set"] = "set %s scheduled with frame_offset=%d at cur_bucket=%d on an empty ring: %s" % (
                        pattern_text(pattern), off, cur, t)
        return runs, bad
    runs, bad = fold_stage("tdma_schedule / tdma_schedule_set", fold)
    a.L.floor(R, "concrete evaluations of tdma_schedule / tdma_schedule_set over (ring position, offset)", runs, 2 * ring * ring)
    want = "success and the item(s) in bucket (cur_bucket + offset [+ k]) mod %d, for all %d x %d (ring position, offset) pairs" % (
        ring, ring, ring)
    a.ob(R, "tdma_schedule", "tdma_schedule(): every frame offset 0..%d is accepted while the target frame has room: success is "
         "reported and the item is stored in bucket (cur_bucket + frame_offset) mod %d (evaluated for every ring position x "
         "offset on an empty ring)" % (ring - 1, ring), want, bad["tdma_schedule"] or want, bad["tdma_schedule"] is None,
         a.tu.func("tdma_schedule"))
    a.ob(R, "tdma_schedule_set", "tdma_schedule_set(): every set whose frames lie at offsets 0..%d is accepted while the frames "
         "have room: success is reported and the items behind k markers are stored in bucket (cur_bucket + frame_offset + k) "
         "mod %d (evaluated for every ring position x first offset on an empty ring, last frame up to the boundary offset)" % (
             ring - 1, ring), want, bad["tdma_schedule_set"] or want, bad["tdma_schedule_set"] is None,
         a.tu.func("tdma_schedule_set"))


def r11_set_capacity(a):
    """C08.R11 -- decides "exceeding a frame's capacity is reported as an error" in both directions for sets, and with
    it "a multi-frame set places the items of its k-th frame k frames after its first" on frames that are exactly full:
    a set is refused if and only if one of its ITEMS meets a frame that already holds ARRAY_SIZE(item) items.  An
    end-of-frame or end-of-set marker handled while the current frame is exactly full places nothing and must not
    abort the set.  tdma_schedule_set() is evaluated (CEval) at three (ring position, offset) points, one of them
    wrapping over the ring end, for every number k = 0..capacity of items already in the first frame, on the witness sets
    {item x (capacity-k), END_FRAME, item} (the set fills the frame exactly, then moves on; k = capacity: an empty frame
    on a full bucket), {item x (capacity-k)} (end of set on an exactly full frame), {item x (capacity-k+1)} (one item
    too many: must be refused, nothing scheduled before may be lost) and {item, END_FRAME, END_FRAME, item} whose empty
    middle frame is full.  Judged is the outcome only: return value's sign, where every item ends up, that the items
    scheduled before are all still there.  tdma_schedule() is evaluated at the same points for every k = 0..capacity
    items already in its frame: accepted and counted (num_items = k + 1, the count tdma_sched_execute() runs) below the
    capacity, refused at the capacity.  Stores are performed in the DECLARED type of the member they hit (CEval.put:
    bit-field width and signedness from the header's FieldDecl), so a counter too narrow for the value "exactly full"
    shows as the wrapped count it produces (seed c08-20)."""
    R = "C08.R11"
    ring, cap = a.NFR, a.NCB
    if ring < 4:
        raise AnalysisError("ring of %d frames is too short for the witness sets" % ring)
    points = [(0, 0), (ring - 1, 1), (ring // 2, ring - 3)]

    def fold():
        W = SchedWorld(a)
        bad = {"marker": None, "fit": None, "over": None, "single": None}
        runs = 0

        def one(cls, cur, off, pattern, fills):
            W.reset(cur, fills)
            t = W.run_set(off, pattern)
            if t and bad[cls] is None:
                held = ", ".join("bucket %d already holds %d item(s)" % (b, n) for b, n in sorted(fills.items()) if n)
                bad[cls] = "set %s scheduled with frame_offset=%d at cur_bucket=%d while %s: %s" % (
                    pattern_text(pattern), off, cur, held or "the ring is empty", t)
            return 1
        for (cur, off) in points:
            b0 = (cur + off) % ring
            for k in range(cap + 1):
                runs += one("marker", cur, off, "I" * (cap - k) + "FI", {b0: k})
                runs += one("fit", cur, off, "I" * (cap - k), {b0: k})
                runs += one("over", cur, off, "I" * (cap - k + 1), {b0: k})
            runs += one("marker", cur, off, "IFFI", {(b0 + 1) % ring: cap})
            for k in range(cap + 1):
                W.reset(cur, {b0: k})
                runs += 1
                t = W.run_single_at(off, k)
                if t and bad["single"] is None:
                    bad["single"] = "tdma_schedule(frame_offset=%d, ...) at cur_bucket=%d while bucket %d already holds %d " \
                                    "item(s): %s" % (off, cur, b0, k, t)
        return runs, bad
    runs, bad = fold_stage("tdma_schedule_set", fold)
    a.L.floor(R, "concrete evaluations of tdma_schedule / tdma_schedule_set on exactly full / over-full frames", runs,
              len(points) * (4 * cap + 5))
    f = a.tu.func("tdma_schedule_set")
    want = "accepted, every item stored in its frame, in all evaluated sets"
    a.ob(R, "tdma_schedule_set", "tdma_schedule_set(): an end-of-frame marker handled while the frame it leaves (or passes "
         "through) holds exactly %d items does not abort the set: the following frames are scheduled (evaluated for every "
         "number of items already in the frame)" % cap, want, bad["marker"] or want, bad["marker"] is None, f)
    a.ob(R, "tdma_schedule_set", "tdma_schedule_set(): a set whose last item fills its frame to exactly %d items is accepted "
         "(the end-of-set marker places nothing)" % cap, want, bad["fit"] or want, bad["fit"] is None, f)
    want = "a negative return value, every item scheduled before still in its bucket"
    a.ob(R, "tdma_schedule_set", "tdma_schedule_set(): a set with one item more than its frame has room for is refused with "
         "a negative value and loses none of the items scheduled before", want, bad["over"] or want, bad["over"] is None, f)
    want = "accepted with the frame's fill count raised by one for 0..%d items already there, refused with %d" % (cap - 1, cap)
    a.ob(R, "tdma_schedule", "tdma_schedule(): an item for a frame that already holds k items is accepted and counted "
         "(num_items becomes k + 1, up to exactly %d) for every k below the capacity, and refused with a negative value, "
         "losing nothing, when the frame is full" % cap, want, bad["single"] or want, bad["single"] is None,
         a.tu.func("tdma_schedule"))


# ---------------------------------------------------------------- R15 execute / advance histories, on-the-fly scheduling

def r15_execute_histories(a):
    """C08.R15 -- decides, on witness histories, the clauses "an item scheduled N frames ahead is executed exactly once,
    exactly N frame advances later, with the parameters it was scheduled with", "nothing runs in a frame it was not
    scheduled for" and "an executed frame is left empty" for the executing side, INCLUDING N = 0 issued while the frame
    runs: the quantifier ranges over all sequences of tdma_schedule / advance / execute operations and all offsets
    0..ring-1, and tdma_schedule(0, ...) from a running call-back targets the bucket being executed.
    tdma_sched_execute() / tdma_sched_advance() are evaluated (CEval: a fold of the clang AST on one concrete ring, the
    helpers -- whatever they return -- followed; nothing is executed).  An item's call-back is a model that records the
    call, issues -- the first time it is invoked -- the tdma_schedule() calls the witness gives it (evaluated on the same
    ring state) and reports success.
    Witness classes: (pre) every fill level 0..capacity of the current frame with distinct descending priorities next
    to items of other frames, two rounds of execute/advance; (fly0) for every fill level below the capacity and every
    position j, the j-th item's call-back schedules a further item -- with a priority below / above all others -- for
    offset 0, and that item a third one while there is room; (flyk) a call-back schedules an item 1 and ring-1 frames
    ahead, followed by that many advance/execute rounds.  Judged is the outcome only: which call-backs were invoked in
    which execute call, how often, with which arguments (order: only among items stored before the call began, whose
    priorities are distinct), the fill count of the executed bucket afterwards, where the pending items are.  How the
    loop is bounded, whether the order is recomputed, which helper returns what is irrelevant.  A tdma_schedule() from
    a call-back that is refused although its frame has room, or a construct outside the evaluator's vocabulary, is no
    verdict."""
    R = "C08.R15"
    ring, cap = a.NFR, a.NCB
    name = "tdma_sched_execute"
    for fname in (name, "tdma_sched_advance"):
        if a.tu.fparams(a.tu.func(fname)):
            raise AnalysisError("%s(): expected no parameters -- unclassifiable" % fname)
    if ring < 4 or cap < 3:
        raise AnalysisError("ring of %d frames x %d items is too small for the witness histories" % (ring, cap))
    points = sorted({0, ring // 2, ring - 1})

    def fold():
        W = SchedWorld(a)
        ev = W.ev
        log, plan = [], {}

        def indirect(fv, args):
            if fv[1] in a.tu.functions or len(args) != 3:
                raise NoVerdict("call-back %s invoked with %d arguments" % (fv[1], len(args)))
            log.append((fv, tuple(args)))
            for (off, cb, par, prio) in plan.pop(fv, ()):          # a call-back that schedules on its first invocation only
                rc = ev.call("tdma_schedule", [off, cb, par[0], par[1], par[2], prio])
                if not isinstance(rc, int) or rc < 0:
                    raise NoVerdict("tdma_schedule(%d, ...) from a running call-back returns %s although its frame has room" % (off, rc))
            return 0
        ev.indirect = indirect

        def history(cur, pre, flies, frames):
            """pre: {offset: [prio, ...]} items stored before the first round; flies: {(offset, k): (offset', prio, more)}
            what the call-back of the k-th item stored for `offset` schedules (more: what that item's call-back
            schedules in turn); -> None | text of the first difference from the stated behaviour."""
            W.reset(cur, {})
            plan.clear()
            due = {}                       # call-back -> (round it must run in, parameters, stored before the call?, prio)
            label = {}
            for off, prios in sorted(pre.items()):
                B = W.sched["bucket"][(cur + off) % ring]
                for k, prio in enumerate(prios):
                    cb = ("fn", "<item #%d stored for frame offset %d, prio %d>" % (k, off, prio))
                    par = (k + 1, off + 100, 1000 + 10 * off + k)
                    it = B["item"][k]
                    it["cb"], it["p1"], it["p2"], it["p3"], it["prio"] = cb, par[0], par[1], par[2], prio
                    due[cb] = (off, par, True, prio)
                    label[(off, k)] = cb
                ev.put((B, "num_items"), len(prios))

            def chain(owner, at, spec, depth):
                off2, prio, more = spec
                cb = ("fn", "<item scheduled for frame offset %d (prio %d) by the running call-back of %s>" % (
                    off2, prio, owner[1].strip("<>").split(",")[0]))
                par = (200 + depth, 50 + off2, 7000 + depth)
                plan.setdefault(owner, []).append((off2, cb, par, prio))
                due[cb] = (at + off2, par, False, prio)
                if more:
                    chain(cb, at + off2, more, depth + 1)
            for (off, k), spec in sorted(flies.items()):
                chain(label[(off, k)], off, spec, 0)
            for t in range(frames):
                del log[:]
                now = (cur + t) % ring
                if W.sched["cur_bucket"] != now:
                    return "after %d advance(s) from cur_bucket=%d the ring is at bucket %s" % (t, cur, W.sched["cur_bucket"])
                rc = W.call(name, [])
                if W.oob(rc):
                    return W.oob(rc)
                ran = [cb for (cb, _a) in log]
                for cb, (at, par, stored, _p) in sorted(due.items(), key=lambda x: (x[1][0], x[0])):
                    n = ran.count(cb)
                    what = cb[1].strip("<>")
                    if at == t and n != 1:
                        return "%s is %s in execute round %d (wanted: exactly once; run there: %s)" % (
                            what, "never run" if not n else "run %d times" % n, t, ", ".join(x[1].strip("<>").split(",")[0] for x in ran) or "nothing")
                    if at != t and n:
                        return "%s, due in round %d, is run in execute round %d" % (what, at, t)
                    if n and [x for (c, x) in log if c == cb] != [par]:
                        return "%s is invoked with %s (wanted: %s)" % (what, [x for (c, x) in log if c == cb][0], par)
                if any(cb not in due for cb in ran):
                    return "execute round %d invokes %s" % (t, [cb for cb in ran if cb not in due][0][1])
                order = [due[cb][3] for cb in ran if due[cb][2]]
                if order != sorted(order):
                    return "the items stored for the frame run in the priority order %s" % order
                n = W.sched["bucket"][now]["num_items"]
                if n != 0:
                    return "bucket %d is left with num_items = %s after it was executed (round %d)" % (now, n, t)
                if t + 1 < frames:
                    W.call("tdma_sched_advance", [])
            for cb, (at, par, _s, _p) in sorted(due.items()):
                if at >= frames and [b for (b, _k) in W.where(cb)] != [(cur + at) % ring]:
                    return "%s is no longer pending in bucket %d after %d round(s)" % (cb[1].strip("<>"), (cur + at) % ring, frames)
            return None

        bad = {"pre": None, "fly0": None, "flyk": None}
        runs = 0

        def one(cls, cur, pre, flies, frames, text):
            t = history(cur, pre, flies, frames)
            if t and bad[cls] is None:
                bad[cls] = "at cur_bucket=%d, %s: %s" % (cur, text, t)
            return 1
        for cur in points:
            for n in range(cap + 1):
                prios = [3 * (n - k) for k in range(n)]
                runs += one("pre", cur, {0: prios, 1: [5, -5], ring - 1: [0]}, {}, 2,
                            "%d item(s) stored for the current frame, 2 for the next, 1 for offset %d" % (n, ring - 1))
            for n in range(1, cap):
                prios = [3 * (n - k) for k in range(n)]
                for j in range(n):
                    for prio in (-7, 3 * n + 7):
                        more = (0, prio, None) if n + 2 <= cap else None
                        runs += one("fly0", cur, {0: prios, 1: [1]}, {(0, j): (0, prio, more)}, 1,
                                    "%d item(s) stored for the current frame, the call-back of item #%d schedules one more for "
                                    "offset 0%s" % (n, j, " (and that one a third)" if more else ""))
            for n in (1, cap):
                prios = [3 * (n - k) for k in range(n)]
                for j in sorted({0, n - 1}):
                    for k in (1, ring - 1):
                        runs += one("flyk", cur, {0: prios}, {(0, j): (k, 2, None)}, k + 1,
                                    "%d item(s) stored for the current frame, the call-back of item #%d schedules one for "
                                    "offset %d" % (n, j, k))
        return runs, bad
    runs, bad = fold_stage("tdma_sched_execute / tdma_sched_advance", fold)
    a.L.floor(R, "execute / advance histories evaluated on a concrete ring", runs, len(points) * (cap + 1))
    f = a.tu.func(name)
    want = "as scheduled, in all evaluated histories"
    a.ob(R, name, "tdma_sched_execute(): every item stored for the current frame is run exactly once, with its own parameters, "
         "in ascending priority order; items of other frames are not run and stay scheduled for their frame; the executed "
         "frame is left empty (evaluated for every fill level 0..%d, two execute/advance rounds)" % cap,
         want, bad["pre"] or want, bad["pre"] is None, f)
    a.ob(R, name, "tdma_sched_execute(): an item that a running call-back schedules with frame offset 0 (into the frame being "
         "executed) is run exactly once in that same execute call, every stored item still runs once, and the frame is left "
         "empty (evaluated for every fill level below the capacity x every scheduling position)",
         want, bad["fly0"] or want, bad["fly0"] is None, f)
    a.ob(R, name, "tdma_sched_execute(): an item that a running call-back schedules k frames ahead is not run in the executing "
         "frame and is run exactly once, k advances later (evaluated for k = 1 and k = %d)" % (ring - 1),
         want, bad["flyk"] or want, bad["flyk"] is None, f)


# ---------------------------------------------------------------- R13 the counters' types hold their documented range

def r13_counter_types(a):
    """C08.R13 -- a direct necessary condition of "exceeding a frame's capacity is reported as an error instead of
    overwriting other items" and of "executed ... exactly N frame advances later": the scheduler's two counters, as
    OBJECTS of their declared type (integer type, bit-field width read from the clang AST of the header), can represent
    every value the stated behaviour makes them take.  tdma_sched_bucket.num_items counts the items of a frame, 0 up
    to and INCLUDING the capacity ARRAY_SIZE(item) -- a full frame is a legal state and it is the state the overflow
    error is raised in; tdma_scheduler.cur_bucket runs over every ring position 0 .. ARRAY_SIZE(bucket) - 1.  A type
    that cannot hold one of these values makes the store of that value wrap: the full frame looks empty (its items
    never run, later ones overwrite them) / the ring position leaves the ring.  Judged is the value range of the
    member's type, not how it is spelled."""
    R = "C08.R13"
    H = os.path.join(FW, "include/layer1/tdma_sched.h")
    n = 0
    for rec, name, top, what in (("tdma_sched_bucket", "num_items", a.NCB, "every fill count of a frame, 0 .. %d "
                                  "(ARRAY_SIZE(item): a full frame)" % a.NCB),
                                 ("tdma_scheduler", "cur_bucket", a.NFR - 1, "every ring position 0 .. %d "
                                  "(ARRAY_SIZE(bucket) - 1)" % (a.NFR - 1))):
        fd = field_decl(a.tu, rec, name)
        t = field_int_type(a.tu, fd) if fd is not None else None
        if t is None:
            raise AnalysisError("struct %s: member %s is not an integer object -- unclassifiable" % (rec, name))
        n += 1
        bits, signed = t[1], t[2]
        hi = (1 << (bits - 1)) - 1 if signed else (1 << bits) - 1
        if signed and fd.get("isBitfield") and hi < top <= (1 << bits) - 1:
            raise AnalysisError("struct %s: whether the signed bit-field %s (%s) holds %d depends on the compiler's "
                                "bit-field signedness -- unclassifiable" % (rec, name, t[0], top))
        f = fd.get("_file") or ""
        where = H if f.endswith("tdma_sched.h") and os.path.isfile(os.path.join(a.L.repo, H)) else a.F
        a.L.ob(R, where, "struct " + rec, "struct %s: the type of member %s can represent %s" % (rec, name, what),
               "a range that includes 0 .. %d" % top, "%s: %d .. %d" % (tdesc(t), -hi - 1 if signed else 0, hi), hi >= top,
               fd.get("_line"))
    a.L.floor(R, "scheduler counters whose declared type was read from the AST", n, 2)


# ---------------------------------------------------------------- R14 the end-of-set marker is one object program-wide

def fn_ref(n):
    """Name of the function a value expression denotes (f, &f, through parentheses / casts), else None."""
    while isinstance(n, dict):
        k, ks = kind(n), kids(n)
        if k in ("ParenExpr", "ImplicitCastExpr", "CStyleCastExpr", "ConstantExpr") and ks:
            n = ks[-1]
        elif k == "UnaryOperator" and n.get("opcode") == "&" and ks:
            n = ks[0]
        else:
            break
    rd = n.get("referencedDecl", {}) if isinstance(n, dict) and kind(n) == "DeclRefExpr" else {}
    return rd.get("name") if rd.get("kind") == "FunctionDecl" else None


def linkage(tu, name):
    """-> (internal?, description, declaring file, line) of function `name` as this translation unit sees it.  C11
    6.2.2: `static` on a declaration gives internal linkage, later declarations inherit it -- the function is then
    a separate object (own address) in every translation unit that contains the declaration."""
    ds = [d for d in kids(tu.ast) if kind(d) == "FunctionDecl" and d.get("name") == name]
    if not ds:
        return None
    st = [d for d in ds if d.get("storageClass") == "static"]
    d = (st or ds)[0]
    body = [x for x in ds if any(kind(c) == "CompoundStmt" for c in kids(x))]
    f = (body or [d])[0].get("_file") or ""
    if not st:
        return (False, "external linkage", f, d.get("_line"))
    return (True, "internal linkage (static%s, %s in %s): a separate function with its own address in every translation "
            "unit" % (" inline" if d.get("inline") else "", "defined" if body else "declared", os.path.basename(f)),
            d.get("_file") or f, d.get("_line"))


def r14_marker_identity(a):
    """C08.R14 -- decides a premise of "a multi-frame set places the items of its k-th frame k frames after its first
    ... nothing runs in a frame it was not scheduled for": the scheduler recognises the end of a set (and nothing
    else does) by comparing an item's call-back ADDRESS with a marker function.  The sets are objects of other
    translation units (prim_*.c), so the marker they store is the compared one only if that function is ONE object
    program-wide, i.e. has external linkage.  With internal linkage declared in a header every includer stores the
    address of its own copy: the comparison is false for every set defined outside tdma_sched.c, the marker is
    placed as an item and the walk continues into the memory behind the set.  Read from the clang AST: every ==/!=
    in tdma_sched.c with a function designator as operand names a marker; its linkage is that of its declarations
    (storage class), wherever and however they are spelled."""
    R = "C08.R14"
    tu = a.tu
    marks = {}
    for fname, fd in tu.functions.items():
        if not any(kind(c) == "CompoundStmt" for c in kids(fd)):
            continue
        for n in walk(fd):
            if kind(n) == "BinaryOperator" and n.get("opcode") in ("==", "!=") and len(kids(n)) == 2:
                for o in kids(n):
                    m = fn_ref(o)
                    if m:
                        marks.setdefault(m, set()).add(fname)
    a.markers = marks
    for m, users in sorted(marks.items()):
        lk = linkage(tu, m)
        if lk is None:
            raise AnalysisError("%s(): no declaration of the compared function in the translation unit" % m)
        internal, text, f, line = lk
        if internal and os.path.basename(f) == os.path.basename(MAIN):
            raise AnalysisError("%s() is private to %s: which marker the sets of other translation units store cannot be "
                                "told -- unclassifiable" % (m, a.F))
        H = os.path.join(FW, "include/layer1/tdma_sched.h")
        where = H if f.endswith("tdma_sched.h") and os.path.isfile(os.path.join(a.L.repo, H)) else a.F
        a.L.ob(R, where, m, "%s(), whose address %s() compare(s) call-backs with to find the end of a set, is the same "
               "function in every translation unit that stores it into a set" % (m, "() / ".join(sorted(users))),
               "external linkage", text, not internal, line)
    a.L.floor(R, "marker functions the scheduler compares call-back addresses with", len(marks), 1)


def marker_users(a, tu, found):
    """Thorough tier: a translation unit that names a marker function sees it with external linkage."""
    marks = getattr(a, "markers", None) or {}
    used = set()
    if marks:
        for n in walk(tu.ast):
            if kind(n) == "DeclRefExpr" and n.get("referencedDecl", {}).get("kind") == "FunctionDecl" \
                    and n["referencedDecl"].get("name") in marks:
                used.add(n["referencedDecl"]["name"])
    for m in sorted(used):
        lk = linkage(tu, m)
        if lk is None:
            continue
        found.append(1)
        a.L.ob("C08.R14", tu.rel, m, "%s() stored by %s is the function tdma_sched.c compares with" % (
            m, os.path.basename(tu.rel)), "external linkage", lk[1], not lk[0], lk[3])


# ---------------------------------------------------------------- R12 the GSM-time feeder keeps its list ordered

GSM = "layer1/sched_gsmtime.c"
GSM_FRAMES = (40, 43, 47)
GSM_LEAD = 6


def gsmtime_tu(a):
    tu = a.tus.get(GSM)
    if tu is not None:
        return tu
    tmp = tempfile.mkdtemp(prefix="vsa-c08-", dir=os.environ.get("TMPDIR") or "/var/tmp")
    try:
        with open(os.path.join(tmp, "inttypes.h"), "w") as f:
            f.write(INTTYPES_STUB)
        return TU(a.L.repo, "fw", GSM, L=a.L, extra_flags=("-I" + tmp,))
    finally:
        shutil.rmtree(tmp, ignore_errors=True)


def gsm_history(tu, events):
    """One history of the one-shot layer, evaluated (CEval): sched_gsmtime_init(); event k = (frame it is registered in,
    GSM frame number F it is registered for) is passed to sched_gsmtime() before the frame's sched_gsmtime_execute(fn);
    fn runs over consecutive frames like the tail of l1_sync().  tdma_schedule_set() is the observed boundary.
    -> (return values of sched_gsmtime, [(fn, frame_offset, event index | None, p3)] hand-overs)."""
    ev = CEval(tu, max_steps=400000)
    ev.lazy_globals = True
    sets = [[Rec()] for _ in events]
    now = [None]
    seen = []

    def handed(args):
        if len(args) != 3:
            raise NoVerdict("tdma_schedule_set() called with %d arguments" % len(args))
        off, si, p3 = args
        k = None
        for i, s in enumerate(sets):
            if isinstance(si, Ptr) and si.obj is s and si.key == 0:
                k = i
        seen.append((now[0], off, k, p3))
        return 0
    ev.externs["tdma_schedule_set"] = handed
    ev.call("sched_gsmtime_init", [])
    rcs = {}
    start = min(F for (_t, F) in events) - GSM_LEAD
    for fn in range(start, max(F for (_t, F) in events) + 3):
        now[0] = fn
        for k, (t, F) in enumerate(events):
            if max(t, start) == fn:
                rcs[k] = ev.call("sched_gsmtime", [Ptr(sets[k], 0), F, 500 + k])
        ev.call("sched_gsmtime_execute", [fn])
    return rcs, seen


def r12_gsmtime_feeder(a):
    """C08.R12 -- decides, for the anchored feeder of the scheduler (layer1/sched_gsmtime.c: the one-shot layer through
    which RACH / frequency-change sets reach tdma_schedule_set()), the clause "every scheduled item is executed exactly
    once, in its frame": what happens to an event registered for GSM frame F must not depend on which other events are
    pending.  sched_gsmtime_init / sched_gsmtime / sched_gsmtime_execute are evaluated (CEval; the header-only
    linuxlist.h primitives and container_of() are followed, nothing is modelled by name) on witness histories: every
    sequence of two and three registrations over the frames (40, 43, 47) -- all registration orders, equal frames
    included -- and histories that register an event after an earlier one was handed over (slot re-use), fn running over
    consecutive frames.  An event registered alone defines its frame: it is handed to tdma_schedule_set exactly once,
    with its own set and p3; fn + frame_offset of that call is the frame its set starts in.  In every other history each
    event must be handed over exactly once, with its own parameters, for the same frame.  This is what the pending
    list's order is for: sched_gsmtime_execute stops at the first later event, so an insertion that puts an earlier
    event behind a later one loses it.  Whether the list is kept by insert-before-first-greater, insert-after-predecessor
    or without the early exit is irrelevant.
    Same clause, histories with an OVERDUE event (seed c08-21): sched_gsmtime() accepts a request whose hand-over point
    has already passed (registered in frame t for GSM frame t + d, d below the lead measured on the events registered
    alone); it sorts ahead of everything newer.  The in-time events pending behind it must still be handed over exactly
    once, for their own frame (two latenesses x up to five registration frames -- between the in-time hand-overs and in
    the very frame one of them is due -- x three orders of the in-time events).  What becomes of the overdue event itself is not stated by the property and is not judged."""
    R = "C08.R12"
    tu = gsmtime_tu(a)
    F = tu.rel
    for name, n in (("sched_gsmtime", 3), ("sched_gsmtime_execute", 1), ("sched_gsmtime_init", 0)):
        f = tu.func(name)
        a.L.fn(F, name)
        if len(tu.fparams(f)) != n:
            raise AnalysisError("%s(): expected %d parameter(s) -- unclassifiable" % (name, n))
    fx = tu.functions.get("tdma_schedule_set")
    if fx is None or any(kind(c) == "CompoundStmt" for c in kids(fx)):
        raise AnalysisError("sched_gsmtime.c: tdma_schedule_set() is no longer an external function there -- unclassifiable")

    def run(events):
        try:
            return gsm_history(tu, events)
        except FOLD_ERRORS as e:
            raise NoVerdict("the evaluator met a construct it does not model (%s)" % type(e).__name__)

    def accepted(rc):
        return isinstance(rc, int) and not isinstance(rc, bool) and rc >= 0

    def describe(events):
        return ", ".join("fn %d%s" % (Fk, "" if t is None else " (registered in frame %d)" % t) for (t, Fk) in events)

    def fold():
        target, handed = {}, {}
        alone = None
        runs = 0
        for Fk in GSM_FRAMES:
            rcs, seen = run([(0, Fk)])
            runs += 1
            mine = [c for c in seen if c[2] == 0]
            if not accepted(rcs.get(0)) or len(seen) != 1 or len(mine) != 1 or mine[0][3] != 500 or not isinstance(mine[0][1], int):
                if alone is None:
                    alone = "an event registered alone for fn %d: sched_gsmtime() returns %s, tdma_schedule_set() is called %d " \
                            "time(s)%s" % (Fk, rcs.get(0), len(seen), "" if len(mine) == len(seen) and all(
                                c[3] == 500 for c in mine) else " (not with the event's own set / p3)")
                continue
            target[Fk] = mine[0][0] + mine[0][1]
            handed[Fk] = mine[0][0]
        if alone is not None:
            return runs, alone, None
        hist = []
        for n in (2, 3):
            for seq in itertools.product(GSM_FRAMES, repeat=n):
                hist.append([(0, Fk) for Fk in seq])
        lo, mid, hi = GSM_FRAMES
        hist.append([(0, lo), (0, hi), (lo - 1, mid)])          # registered after the first event was handed over
        hist.append([(0, hi), (0, lo), (lo - 1, mid)])
        hist.append([(0, lo), (lo - 1, hi), (mid - 1, hi)])
        bad = None
        late = None
        nlate = 0
        # an OVERDUE event: registered in frame t for GSM frame t + d, d below the hand-over lead, so its hand-over
        # point has passed when the frame's sched_gsmtime_execute() runs.  What becomes of it is not stated (not judged)
        overdue = []
        lead = min(Fk - handed[Fk] for Fk in GSM_FRAMES)     # an event registered alone is handed over `lead` frames early
        if not 0 <= lead < GSM_LEAD - 1 or any(Fk - handed[Fk] != lead for Fk in GSM_FRAMES):
            raise NoVerdict("events registered alone are handed over %s frames before their frame" % sorted(
                {Fk - handed[Fk] for Fk in GSM_FRAMES}))
        for d in (lead - 2, lead - 1):
            for t in sorted({lo - 4, handed[lo], lo - 1, handed[mid], mid - 1}):
                for order in ((lo, mid, hi), (hi, mid, lo), (hi, hi, mid)):
                    overdue.append([(0, Fk) for Fk in order] + [(t, t + d)])
        for events in hist + overdue:
            isl = events in overdue
            rcs, seen = run(events)
            runs += 1
            nlate += isl
            for k, (t, Fk) in enumerate(events):
                if isl and k == len(events) - 1:
                    continue
                mine = [c for c in seen if c[2] == k]
                text = None
                if not accepted(rcs.get(k)):
                    text = "sched_gsmtime() returns %s for it although event slots are free" % (rcs.get(k),)
                elif len(mine) != 1:
                    text = "it is %s" % ("never handed to tdma_schedule_set()" if not mine else
                                         "handed to tdma_schedule_set() %d times" % len(mine))
                elif mine[0][3] != 500 + k:
                    text = "it is handed over with p3 = %s instead of its own" % (mine[0][3],)
                elif not isinstance(mine[0][1], int) or mine[0][0] + mine[0][1] != target[Fk]:
                    text = "its set is scheduled in frame %s with offset %s (wanted: to start in frame %d as when registered alone)" % (
                        mine[0][0], mine[0][1], target[Fk])
                if text and isl and late is None:
                    tl, Fl = events[-1]
                    late = "events registered for %s, and in frame %d an event for fn %d (overdue: its hand-over point has " \
                           "passed): event #%d (fn %d): %s" % (describe([(None, ff) for (_t, ff) in events[:-1]]), tl, Fl, k, Fk, text)
                elif text and not isl and bad is None:
                    bad = "events registered in the order %s: event #%d (fn %d): %s" % (
                        describe([(None if tt == 0 else tt, ff) for (tt, ff) in events]), k, Fk, text)
            if bad is None and not isl and any(c[2] is None for c in seen):
                bad = "events registered in the order %s: tdma_schedule_set() is called with a set that was not registered" % (
                    describe([(None if tt == 0 else tt, ff) for (tt, ff) in events]))
        return runs, None, (bad, late, nlate)
    try:
        runs, alone, bad = fold()
        bad, late, nlate = bad or (None, None, 0)
    except NoVerdict as e:
        raise AnalysisError("sched_gsmtime.c: the one-shot layer cannot be evaluated on its witness histories (%s) -- "
                            "unclassifiable" % e)
    a.L.floor(R, "witness histories of the GSM-time one-shot layer evaluated", runs, len(GSM_FRAMES))
    want = "handed to tdma_schedule_set exactly once, with its own set and p3"
    a.L.ob(R, F, "sched_gsmtime_execute", "sched_gsmtime() + sched_gsmtime_execute(): an event registered alone is handed to "
           "tdma_schedule_set() exactly once with its own set and p3 (evaluated over consecutive frames)", want, alone or want,
           alone is None, tu.func("sched_gsmtime_execute").get("_line"))
    if alone is None:
        a.L.floor(R, "witness histories with two / three pending events", runs - len(GSM_FRAMES),
                  len(GSM_FRAMES) ** 2 + len(GSM_FRAMES) ** 3)
        want = "every event handed over exactly once, for the frame it gets when registered alone, in all evaluated histories"
        a.L.ob(R, F, "sched_gsmtime", "sched_gsmtime() keeps the pending events in the order sched_gsmtime_execute() relies on: "
               "with two or three events pending, registered in any order, every event is handed to tdma_schedule_set() exactly "
               "once and for its own frame", want, bad or want, bad is None, tu.func("sched_gsmtime").get("_line"))
        a.L.floor(R, "witness histories with an overdue event among the pending events", nlate, 18)
        want = "every in-time event handed over exactly once, for the frame it gets when registered alone, in all evaluated histories"
        a.L.ob(R, F, "sched_gsmtime_execute", "sched_gsmtime_execute() reaches every due event although an overdue event (one "
               "registered after its hand-over point had passed) is pending ahead of it: the in-time events are handed to "
               "tdma_schedule_set() exactly once and for their own frame", want, late or want, late is None,
               tu.func("sched_gsmtime_execute").get("_line"))


class Cancelled(Exception):
    """A reset history handed an event registered before the reset to tdma_schedule_set() after it (the witness)."""


def gsm_reset_history(tu, events, tr):
    """One history with a reset, evaluated (CEval): like gsm_history, and sched_gsmtime_reset() is called at the start of
    frame tr -- after the registrations of the frames before tr, before those of frame tr and before that frame's
    sched_gsmtime_execute().  -> (return values of sched_gsmtime, hand-overs [(fn, frame_offset, event | None, p3)]);
    raises Cancelled(text) at the first hand-over, in a frame >= tr, of an event registered before the reset."""
    ev = CEval(tu, max_steps=400000)
    ev.lazy_globals = True
    sets = [[Rec()] for _ in events]
    now = [None]
    seen = []
    start = min([F for (_t, F) in events] + [tr + GSM_LEAD]) - GSM_LEAD
    regs = [max(t, start) for (t, _F) in events]      # the frame an event is registered in

    def handed(args):
        if len(args) != 3:
            raise NoVerdict("tdma_schedule_set() called with %d arguments" % len(args))
        off, si, p3 = args
        k = None
        for i, s in enumerate(sets):
            if isinstance(si, Ptr) and si.obj is s and si.key == 0:
                k = i
        if k is not None and now[0] >= tr and regs[k] < tr:
            raise Cancelled("sched_gsmtime_execute(%d) hands event #%d (registered for fn %d, p3 = %s) to tdma_schedule_set()" % (
                now[0], k, events[k][1], p3))
        seen.append((now[0], off, k, p3))
        return 0
    ev.externs["tdma_schedule_set"] = handed
    ev.call("sched_gsmtime_init", [])
    rcs = {}
    for fn in range(start, max([F for (_t, F) in events] + [tr]) + 3):
        now[0] = fn
        if fn == tr:
            ev.call("sched_gsmtime_reset", [])
        for k in range(len(events)):
            F = events[k][1]
            if regs[k] == fn:
                rcs[k] = ev.call("sched_gsmtime", [Ptr(sets[k], 0), F, 500 + k])
        ev.call("sched_gsmtime_execute", [fn])
    return rcs, seen


def r12_gsmtime_reset(a):
    """C08.R12 (reset histories; seed c08-29) -- decides, for the one-shot feeder, the clause "nothing runs in a frame it
    was not scheduled for" over histories with a reset: sched_gsmtime_reset() (called by the L1 reset next to
    tdma_sched_reset()) cancels every pending one-shot event, so none of them may reach tdma_schedule_set() afterwards --
    the pending list must be EMPTY as sched_gsmtime_execute() sees it.  Decided by evaluation (CEval; linuxlist.h followed
    through llist_add / llist_del / llist_splice / llist_splice_init / INIT_LLIST_HEAD, nothing modelled by name):
    init, registrations, reset with 1, 2 and 3 events pending (every order of the frames 40, 43, 47, equal frames
    included; resets after one / two of three events were handed over), then sched_gsmtime_execute(fn) for all
    consecutive frames past the last pending one: no call of tdma_schedule_set() for an event registered before the
    reset.  Same clause + "executed exactly once": events registered AFTER a reset (on an empty list = 0 pending, and on
    1 / 3 cancelled events) that sched_gsmtime() accepts are handed over exactly once, with their own set and p3, for
    the frame they get when registered alone -- every event structure is in exactly one of the two lists after the
    reset, else a re-used one is handed over twice, never, or with another request's parameters.  How the reset moves
    the events (per-event unlink, splice + re-initialisation, rebuilding both lists) is irrelevant; whether a request
    is refused after a reset is not judged."""
    R = "C08.R12"
    tu = gsmtime_tu(a)
    F = tu.rel
    f = tu.func("sched_gsmtime_reset")
    a.L.fn(F, "sched_gsmtime_reset")
    if len(tu.fparams(f)) != 0:
        raise AnalysisError("sched_gsmtime_reset(): expected no parameters -- unclassifiable")
    lo, mid, hi = GSM_FRAMES

    def fold():
        target, handed = {}, {}
        for Fk in GSM_FRAMES:
            rcs, seen = gsm_history(tu, [(0, Fk)])
            if len(seen) != 1 or seen[0][2] != 0 or not isinstance(seen[0][1], int) or not isinstance(rcs.get(0), int) or rcs[0] < 0:
                raise NoVerdict("an event registered alone for fn %d is not handed over exactly once (see the first obligation "
                                "of this rule)" % Fk)
            target[Fk], handed[Fk] = seen[0][0] + seen[0][1], seen[0][0]
        start = lo - GSM_LEAD
        if not start + 1 < handed[lo] < handed[mid] < handed[hi]:
            raise NoVerdict("hand-over frames %s of events registered alone" % sorted(handed.values()))
        early = start + 1
        hist = []                                    # (events, reset frame); events with t >= reset frame: registered after it
        for Fk in GSM_FRAMES:
            hist.append(([(0, Fk)], early))
        for seq in itertools.product(GSM_FRAMES, repeat=3):
            hist.append(([(0, Fk) for Fk in seq], early))
        for order in ((lo, mid, hi), (hi, mid, lo), (mid, hi, lo)):
            hist.append(([(0, Fk) for Fk in order], handed[lo] + 1))            # two of three still pending
            hist.append(([(0, Fk) for Fk in order], handed[mid] + 1))           # one of three still pending
        npure = len(hist)
        for pend in ((), (mid,), (lo, mid, hi), (hi, lo, mid)):
            for new in ((mid,), (lo, mid, hi), (hi, hi, lo)):
                hist.append(([(0, Fk) for Fk in pend] + [(early, Fk) for Fk in new], early))
        hist.append(([(0, lo), (0, hi), (handed[lo] + 1, mid)], handed[lo] + 1))
        hist.append(([(0, mid), (0, hi), (lo - 1, lo), (lo - 1, hi)], lo - 1))   # overdue after the reset is not judged: lo - 1 + lead > lo
        stale = again = None
        nacc = 0
        for (events, tr) in hist:
            what = "%s, sched_gsmtime_reset() in frame %d" % (
                ", ".join("event #%d for fn %d registered in frame %d" % (k, Fk, max(t, start)) for k, (t, Fk) in enumerate(events))
                or "no event registered", tr)
            try:
                rcs, seen = gsm_reset_history(tu, events, tr)
            except Cancelled as e:
                stale = stale or "%s: after the reset %s" % (what, e)
                continue
            except FOLD_ERRORS as e:
                if stale:                  # the lists a recognised stale hand-over leaves behind need not be walkable
                    continue
                raise NoVerdict("the evaluator met a construct it does not model (%s)" % type(e).__name__)
            except NoVerdict:
                if stale:
                    continue
                raise
            for k, (t, Fk) in enumerate(events):
                if max(t, start) < tr or again:
                    continue
                if handed[Fk] < max(t, start):
                    continue                          # registered after its hand-over point (overdue): not judged
                rc = rcs.get(k)
                if not (isinstance(rc, int) and not isinstance(rc, bool) and rc >= 0):
                    continue                          # refused: reported to the caller, not judged
                nacc += 1
                mine = [c for c in seen if c[2] == k]
                if len(mine) != 1:
                    again = "%s: event #%d, accepted after the reset, is %s" % (what, k, "never handed to tdma_schedule_set()" if not mine
                                                                                else "handed to tdma_schedule_set() %d times" % len(mine))
                elif mine[0][3] != 500 + k:
                    again = "%s: event #%d, accepted after the reset, is handed over with p3 = %s instead of its own" % (what, k, mine[0][3])
                elif not isinstance(mine[0][1], int) or mine[0][0] + mine[0][1] != target[Fk]:
                    again = "%s: event #%d, accepted after the reset, has its set scheduled in frame %s with offset %s (wanted: to " \
                            "start in frame %d)" % (what, k, mine[0][0], mine[0][1], target[Fk])
            if again is None and any(c[2] is None for c in seen):
                again = "%s: tdma_schedule_set() is called with a set that was not registered" % what
        return len(hist), npure, nacc, stale, again
    try:
        runs, npure, nacc, stale, again = fold()
    except NoVerdict as e:
        raise AnalysisError("sched_gsmtime.c: the one-shot layer cannot be evaluated on its reset histories (%s) -- "
                            "unclassifiable" % e)
    line = f.get("_line")
    a.L.floor(R, "reset histories of the GSM-time one-shot layer evaluated (events pending at the reset)", npure, 30)
    want = "no event registered before sched_gsmtime_reset() reaches tdma_schedule_set() after it, in all evaluated histories"
    a.L.ob(R, F, "sched_gsmtime_reset", "sched_gsmtime_reset() leaves no pending event behind: with one, two or three events "
           "pending at the reset, sched_gsmtime_execute() of the following frames hands none of them to tdma_schedule_set()",
           want, stale or want, stale is None, line)
    if stale is None:
        a.L.floor(R, "reset histories with registrations after the reset", runs - npure, 12)
        a.L.floor(R, "events accepted after a reset and followed to their hand-over", nacc, 12)
        want = "every event accepted after a reset handed over exactly once, with its own set and p3, for its own frame"
        a.L.ob(R, F, "sched_gsmtime_reset", "sched_gsmtime_reset() leaves every event structure in exactly one list: events "
               "registered after a reset (of no, one or three pending events) are handed to tdma_schedule_set() exactly once, "
               "with their own parameters, for their own frame", want, again or want, again is None, line)


# ---------------------------------------------------------------- who-may-write scan

INTTYPES_STUB = """#ifndef _VERIF_INTTYPES_H
#define _VERIF_INTTYPES_H
#include <stdint.h>
#define PRId8 "d"
#define PRIi8 "i"
#define PRIu8 "u"
#define PRIx8 "x"
#define PRIX8 "X"
#define PRId16 "d"
#define PRIi16 "i"
#define PRIu16 "u"
#define PRIx16 "x"
#define PRIX16 "X"
#define PRId32 "ld"
#define PRIi32 "li"
#define PRIu32 "lu"
#define PRIx32 "lx"
#define PRIX32 "lX"
#define PRId64 "lld"
#define PRIu64 "llu"
#define PRIx64 "llx"
#endif
"""

RING_RECORDS = ("tdma_sched_bucket", "tdma_scheduler")


def scan_writers(a, relfile, incdir, seen):
    """Accesses to the scheduler ring in another TU that are not plain reads."""
    tu = TU(a.L.repo, "fw", relfile, L=a.L, extra_flags=("-I" + incdir,))
    if relfile == GSM:
        a.tus[relfile] = tu               # (R12 evaluates this translation unit)
    if getattr(a, "thorough", False):
        marker_users(a, tu, a.marker_tus)
    found = []
    for fname, fd in tu.functions.items():
        if not any(kind(c) == "CompoundStmt" for c in kids(fd)):
            continue
        for n in walk(fd):
            what = None
            if kind(n) == "MemberExpr":
                f = tu.by_id.get(n.get("referencedMemberDecl"))
                rec = (tu.parent.get(id(f)) or {}).get("name") if f is not None else None
                if rec in RING_RECORDS:
                    what = "%s.%s" % (rec, n.get("name"))
                elif rec == "l1s_state" and n.get("name") == "tdma_sched":
                    what = "l1s.tdma_sched"
            elif kind(n) == "DeclRefExpr" and n.get("referencedDecl", {}).get("name") == "l1s" \
                    and n["referencedDecl"].get("kind") == "VarDecl":
                p = tu.parent.get(id(n))
                while p is not None and kind(p) in ("ParenExpr", "ImplicitCastExpr"):
                    p = tu.parent.get(id(p))
                if kind(p) != "MemberExpr":
                    what = "l1s (whole state)"
            if what is None:
                continue
            cur = n
            while True:
                p = tu.parent.get(id(cur))
                if p is None:
                    break
                pk = kind(p)
                if pk == "ParenExpr" or pk == "MemberExpr":
                    cur = p
                elif pk == "ArraySubscriptExpr" and kids(p) and kids(p)[0] is cur:
                    cur = p
                elif pk == "ImplicitCastExpr" and p.get("castKind") in ("ArrayToPointerDecay", "NoOp"):
                    cur = p
                else:
                    break
            if p is not None and kind(p) == "ImplicitCastExpr" and p.get("castKind") == "LValueToRValue":
                continue            # plain read
            if p is not None and kind(p) == "UnaryExprOrTypeTraitExpr":
                continue
            key = (n.get("_file"), n.get("_line"), what)
            if key in seen:
                continue
            seen.add(key)
            found.append("%s(): %s used as %s" % (fname, what, kind(p) if p is not None else "?"))
    a.L.ob("C08.R2", tu.rel, "-", "no code outside tdma_sched.c writes, or takes the address of, the scheduler ring "
           "(cur_bucket / bucket[] / num_items / item[]): %s" % os.path.basename(relfile),
           [], sorted(found), not found)


def who_may_write(a, tier):
    d = os.path.join(a.L.repo, FW, "layer1")
    if tier == "thorough":
        try:
            files = sorted(f for f in os.listdir(d) if f.endswith(".c") and f != os.path.basename(MAIN))
        except OSError as e:
            raise AnalysisError("cannot list layer1: %s" % e)
        floor = 15
    else:
        files = ["sched_gsmtime.c"]
        floor = 1
    tmp = tempfile.mkdtemp(prefix="vsa-c08-", dir=os.environ.get("TMPDIR") or "/var/tmp")
    try:
        with open(os.path.join(tmp, "inttypes.h"), "w") as f:
            f.write(INTTYPES_STUB)
        seen = set()
        for fnm in files:
            scan_writers(a, "layer1/" + fnm, tmp, seen)
    finally:
        shutil.rmtree(tmp, ignore_errors=True)
    a.L.floor("C08.R2", "layer1 translation units scanned for writers of the scheduler ring", len(files), floor)
    if tier == "thorough" and getattr(a, "markers", None):
        a.L.floor("C08.R14", "other translation units that store an end-of-set marker", len(a.marker_tus), 3)


def ring_proofs(a):
    """Structural record of the ring indices that were decided by evaluation instead of by normal form: closed when
    every one of them was folded over the whole finite domain (all ring positions x every offset its C type / its
    dominating bound admits), open when an offset of a wide type was folded up to RING_FOLD_CAP only."""
    for (fname, what, closed, text) in a.folds:
        a.ob("C08.R2", fname, "%s(): %s equals (cur_bucket + offset) mod ring on the whole domain of the offset" % (
            fname, what if len(what) < 120 else what[:117] + "..."),
            "folded for every offset of the offset's type", text, closed)


def run(L, tier):
    a = A(L)
    a.sort = None
    # independent rule groups: an AnalysisError inside one is deferred (Ledger.stage), a violation recognised
    # by another group is still reported
    L.stage(r1_capacity, a)
    L.stage(r2_ring, a)
    a.thorough, a.marker_tus = tier == "thorough", []
    L.stage(r14_marker_identity, a)
    L.stage(who_may_write, a, tier)
    L.stage(r3_single, a)
    a.set_fold = None                     # R8's verdict per witness class (None: the fold could not be run)
    L.stage(r8_set_frames, a)
    L.stage(r3_set, a)
    sort = L.stage(r4_execute, a)
    L.stage(r5_sort, a, sort)
    L.stage(r6_prio_width, a, sort)
    L.stage(r7_reset, a)
    L.stage(r9_order_initialised, a, sort)
    L.stage(r10_offset_domain, a)
    L.stage(r11_set_capacity, a)
    L.stage(r12_gsmtime_feeder, a)
    L.stage(r12_gsmtime_reset, a)
    L.stage(r13_counter_types, a)
    L.stage(r15_execute_histories, a)
    if a.folds:
        L.structural("C08.R2/R3: ring indices outside the normal form (cur_bucket + x) mod %d are that value for every "
                     "ring position and every offset (exhaustive fold of the finite domain)" % a.NFR, ring_proofs, a)
